#!/bin/bash
# usage: check.sh <Cxx> [quick|thorough]
# Analyses /repo's current working tree (nothing is cached between runs) and rewrites
# /verif/evidence/<Cxx>.json. Exit 0 = all rule instances hold (known findings are printed),
# 1 = VIOLATION lines printed, 2 = ANALYSIS-BROKEN (no verdict).
# thorough = quick's rules + exact path counts per gate, CHA call-graph cross-check of the effect sets,
# and the mutation-sensitivity audit of the rule set (tools/audit.py) on scratch copies of the tree.
cd "$(dirname "$0")"
unset GOTOOLCHAIN GOSUMDB GOWORK
export GOFLAGS=-mod=mod GOPROXY=off GOWORK=off
prop="$1"; tier="${2:-${VERIF_TIER:-quick}}"
if [ ! -x bin/mysyncsa ] || [ -n "$(find checker \( -name '*.go' -o -name '*.txt' \) -newer bin/mysyncsa -not -path '*/vendor/*' | head -1)" ]; then
  ./setup.sh >/dev/null || { echo "ANALYSIS-BROKEN property=$prop checker does not build"; exit 2; }
fi
timeout "${MYSYNCSA_TIMEOUT:-3600}" bin/mysyncsa check -tier "$tier" "$prop"
rc=$?
if [ $rc -eq 124 ]; then echo "ANALYSIS-BROKEN property=$prop the analysis did not finish within ${MYSYNCSA_TIMEOUT:-3600} s (no verdict)"; rc=2; fi
if [ "$tier" = "thorough" ] && [ $rc -ne 2 ]; then
  python3 tools/audit.py "$prop" || echo "note: mutation audit could not run (verdict unaffected)"
fi
exit $rc
