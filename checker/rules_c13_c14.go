package main

import (
	"fmt"
	"strings"

	"golang.org/x/tools/go/ssa"
)

const (
	fnSplitBrained = "mysql/gtids.IsSplitBrained"
	fnGTIDDiff     = "mysql/gtids.GTIDDiff"
	fnSetMinus     = "mysql/gtids.mysqlGTIDSetMinus"
	fnChooser      = "app.getMostDesirableNode"
	fnMostPrio     = "app.getMostPriorityNode"
)

func init() {
	register("C13", "other",
		"Orientation and composition of the GTID relations (the numerical part is trusted, see below): "+
			"(DIR/NEG) 'behind or equal' is source.Contain(replica) ∨ source.Equal(replica) with the source as receiver, 'ahead' is its negation on the same arguments; "+
			"(SB) 'not split-brained' is answered only after the loop over ALL uuids and tags of the replica's set, in which each interval set is contained in the source's (source as receiver) or belongs to the source's own uuid, and a uuid or tag missing on the source answers 'split-brained'; "+
			"(VERIFY) the most-recent search answers 'no split brain' only after its verification pass compared the selection against every position; "+
			"(DIFF) the textual difference shows 'source ahead' with source∖replica and 'replica ahead' with replica∖source, each exactly when that difference is non-empty, and the difference helper subtracts its second argument from its first; "+
			"(CALLERS) every caller of the four relations passes (replica side, source side) in this order — a frozen, per-call-site table; an unknown call site fails.",
		"functional correctness of interval subtraction (intervalSliceMinus: loops over numeric intervals) and of the go-mysql library's Contain/Equal/Update for all GTID sets — numerical claims about loops, no sound static argument in reach",
		runC13)
	register("C14", "other",
		"The candidate chooser's shape, on every CFG path: "+
			"(OFFERED) the host returned is a field of an element of the offered positions (through the most-priority helper, whose running maximum is only ever assigned elements of its input) or the result of the chooser's own recursive call; an error is returned only when the helper found nothing, i.e. for an empty list; "+
			"(FROM) the switchover procedure offers positions minus the 'from' host, and the CLI's multi-match branch offers only active nodes outside the match; "+
			"(CMP) the running maximum is replaced only on higher priority, or equal priority with equal sets and less lag, or equal priority with different sets and a containing set; "+
			"(BOUND) the most-priority host is returned when its lag is within the bound or nothing fresher exists, and recursion is only on {lag < mp.lag − bound}; "+
			"(TERM) that set is filtered from the input and cannot contain the most-priority element when bound >= 0 (x < x − b is infeasible), so the list is strictly shorter on each recursive call, and the chooser has no other loop or recursion.",
		"input–output optimality beyond these guards, negative bounds",
		runC14)
}

func runC13(c *Check) {
	p := c.p
	c.Rule("C13.DIR", func() { checkGtidDirection(c) })
	c.Rule("C13.VERIFY", func() { checkSearchVerify(c) })

	c.Rule("C13.SB", func() {
		f := p.MustFunc(fnSplitBrained)
		fa := p.FA(f)
		name := p.Name(f)
		from := func(t *Term, idx string) bool {
			return t.Contains(func(x *Term) bool { return x.Op == "param" && x.Name == idx })
		}
		// interval containment: source intervals as receiver, replica intervals as argument
		var contain ssa.CallInstruction
		for _, ci := range p.Calls(f, "(github.com/go-mysql-org/go-mysql/mysql.IntervalSlice).Contain") {
			contain = ci
		}
		if contain == nil {
			panic(AnchorError{"IntervalSlice.Contain in " + name})
		}
		recv, args := recvArgs(contain)
		rt, at := p.T(recv), p.T(args[0])
		c.Req(containerParam(rt) == "1" && containerParam(at) == "0", name, p.InstrPos(contain), "contain:direction", "the test is sourceIntervals.Contain(replicaIntervals)", "is "+rt.String()+".Contain("+at.String()+")")
		ownUUID := CmpLit("==", func(t *Term) bool { return t.Op == "rangekey" && from(t, "0") }, func(t *Term) bool { return t.Op == "param" && t.Name == "2" })
		isNext := func(in ssa.Instruction) bool { _, ok := in.(*ssa.Next); return ok }
		notTrue := func(in ssa.Instruction) bool {
			r, ok := in.(*ssa.Return)
			if !ok {
				return false
			}
			k, _ := c.retKind(fa, r, 0)
			return k != "const:true"
		}
		for _, b := range f.Blocks {
			for si := range b.Succs {
				for _, l := range fa.EdgeLits(b, si) {
					if r := ResultOf(l.T, -1); r != nil && r.In == ssa.Instruction(contain.(ssa.Instruction)) && !l.Pos {
						path, _ := fa.ReachFromEdge(b, si, func(in ssa.Instruction) bool { return isNext(in) || notTrue(in) }, ReachOpts{Cut: []LitPat{ownUUID}})
						c.Req(path == nil, name, p.InstrPos(blockIf(b)), "not-contained:own-uuid-or-splitbrain", "intervals the source lacks are tolerated only for the source's own uuid; otherwise the answer is 'split-brained'", "path: "+fa.PathString(path))
					}
					// comma-ok lookups in the source's maps
					if l.T.Op == "extract" && l.T.Name == "1" && !l.Pos && len(l.T.Args) == 1 && l.T.Args[0].Op == "lookup" && from(l.T.Args[0].Args[0], "1") {
						path, _ := fa.ReachFromEdge(b, si, func(in ssa.Instruction) bool { return isNext(in) || notTrue(in) }, ReachOpts{})
						c.Req(path == nil, name, p.InstrPos(blockIf(b)), "missing-on-source@"+fmt.Sprint(b.Index), "a uuid or tag missing on the source answers 'split-brained'", "path: "+fa.PathString(path))
					}
				}
			}
		}
		// 'false' only after the outer loop is exhausted; the loops range over the replica's set
		var outer *ssa.Range
		for _, b := range f.Blocks {
			for _, in := range b.Instrs {
				if rg, ok := in.(*ssa.Range); ok && outer == nil {
					outer = rg
				}
			}
		}
		if outer == nil {
			panic(AnchorError{"range loop in " + name})
		}
		c.Req(from(p.T(outer.X), "0") && !from(p.T(outer.X), "1"), name, p.InstrPos(outer), "outer-loop:over-replica", "the outer loop ranges over the replica's uuids", "ranges over "+p.T(outer.X).String())
		n := 0
		for _, r := range Returns(f) {
			if k, _ := c.retKind(fa, r, 0); k == "const:false" {
				n++
				exhausted := func(l Lit) bool {
					if l.Pos || l.T.Op != "extract" || l.T.Name != "0" {
						return false
					}
					nx, ok := l.T.Args[0].V.(*ssa.Next)
					return ok && nx.Iter == ssa.Value(outer)
				}
				c.Gate(fa, r, nthKey("not-splitbrained", n), "'not split-brained' is answered only when the loop over all uuids finished", exhausted)
			}
		}
		c.Req(n == 1, name, "-", "not-splitbrained:sites", "one 'not split-brained' answer", fmt.Sprintf("%d", n))
		// inner loop ranges over the replica's tag map
		ranges := 0
		for _, b := range f.Blocks {
			for _, in := range b.Instrs {
				if rg, ok := in.(*ssa.Range); ok {
					ranges++
					c.Req(from(p.T(rg.X), "0") && !from(p.T(rg.X), "1"), name, p.InstrPos(rg), nthKey("loop-over-replica", ranges), "loops range over the replica's set (every transaction of the replica is examined)", "")
				}
			}
		}
	})

	c.Rule("C13.DIFF", func() {
		f := p.MustFunc(fnGTIDDiff)
		fa := p.FA(f)
		name := p.Name(f)
		// orientation of a String(minus(X,Y)) term: "SR" = source∖replica (p1,p0), "RS" = replica∖source
		orient := func(t *Term) string {
			if !p.IsCall(t, "(*github.com/go-mysql-org/go-mysql/mysql.MysqlGTIDSet).String") {
				return ""
			}
			m := t.Args[0]
			if !p.IsCall(m, fnSetMinus) {
				return ""
			}
			par := func(x *Term) string {
				for _, a := range x.Alts() {
					if a.Op == "typeassert" && a.Args[0].Op == "param" {
						return a.Args[0].Name
					}
					if a.Op == "param" {
						return a.Name
					}
				}
				return "?"
			}
			a, b := par(m.Args[0]), par(m.Args[1])
			switch {
			case a == "1" && b == "0":
				return "SR"
			case a == "0" && b == "1":
				return "RS"
			}
			return "?"
		}
		empty := func(o string, val bool) LitPat {
			return func(l Lit) bool {
				a, b, op, ok := Cmp(l)
				if !ok || (op != "==" && op != "!=") {
					return false
				}
				if (op == "==") != val {
					return false
				}
				return (orient(a) == o && b.IsConst("")) || (orient(b) == o && a.IsConst(""))
			}
		}
		n := 0
		for _, r := range Returns(f) {
			if k, _ := c.retKind(fa, r, 1); k != "const:nil" {
				continue
			}
			n++
			t := p.T(r.Results[0])
			shown := map[string]bool{}
			format := ""
			if t.Op == "const" {
				format = t.Name
			} else if p.IsCall(t, "fmt.Sprintf") {
				format = t.Args[0].Name
				for _, v := range c.eff.variadic(t.Call.Args[1]) {
					o := orient(p.T(v))
					c.Req(o == "SR" || o == "RS", name, p.InstrPos(r), nthKey("diff", n)+":arg", "what is shown is one of the two set differences", "shows "+p.T(v).String())
					shown[o] = true
				}
			} else if t.Op == "bin" && t.Name == "+" {
				// the message built by concatenation: constants are the text, every other leaf is shown — right after its label
				var leaves []*Term
				var flat func(x *Term)
				flat = func(x *Term) {
					if x.Op == "bin" && x.Name == "+" && len(x.Args) == 2 {
						flat(x.Args[0])
						flat(x.Args[1])
						return
					}
					leaves = append(leaves, x)
				}
				flat(t)
				last := ""
				for _, lf := range leaves {
					if lf.Op == "const" {
						format += lf.Name
						last = lf.Name
						continue
					}
					o := orient(lf)
					c.Req(o == "SR" || o == "RS", name, p.InstrPos(r), nthKey("diff", n)+":arg", "what is shown is one of the two set differences", "shows "+lf.String())
					want := map[string]string{"SR": "source ahead", "RS": "replica ahead"}[o]
					c.Req(want != "" && strings.Contains(last, want), name, p.InstrPos(r), nthKey("diff", n)+":label-order:"+o, "each difference follows its own label", "after '"+last+"'")
					shown[o] = true
				}
			} else {
				c.Fail(name, p.InstrPos(r), nthKey("diff", n), "the answer is a message", "returns "+t.String())
				continue
			}
			k := func(x string) string { return nthKey("diff", n) + ":" + x }
			c.Req(strings.Contains(format, "source ahead") == shown["SR"], name, p.InstrPos(r), k("label-source"), "'source ahead' is said exactly when source∖replica is shown", "format "+format)
			c.Req(strings.Contains(format, "replica ahead") == shown["RS"], name, p.InstrPos(r), k("label-replica"), "'replica ahead' is said exactly when replica∖source is shown", "format "+format)
			c.Gate(fa, r, k("SR-emptiness"), "source∖replica is shown exactly when it is non-empty", empty("SR", !shown["SR"]))
			c.Gate(fa, r, k("RS-emptiness"), "replica∖source is shown exactly when it is non-empty", empty("RS", !shown["RS"]))
		}
		c.Req(n == 4, name, "-", "diff:answers", "four answers (equal, source ahead, replica ahead, both)", fmt.Sprintf("%d", n))
		// the difference helper computes first ∖ second
		m := p.MustFunc(fnSetMinus)
		mn := p.Name(m)
		for i, b := range m.Blocks {
			for _, in := range b.Instrs {
				if rg, ok := in.(*ssa.Range); ok {
					t := p.T(rg.X)
					fromA := t.Contains(func(x *Term) bool { return x.Op == "param" && x.Name == "0" })
					fromB := t.Contains(func(x *Term) bool { return x.Op == "param" && x.Name == "1" })
					c.Req(fromA && !fromB, mn, p.InstrPos(rg), nthKey("minus:range", i), "the difference iterates over the first operand", "")
				}
			}
		}
		for _, ci := range p.Calls(m, "mysql/gtids.intervalSliceMinus") {
			a0, a1 := p.T(ci.Common().Args[0]), p.T(ci.Common().Args[1])
			fromP := func(t *Term, idx string) bool {
				return t.Contains(func(x *Term) bool { return x.Op == "param" && x.Name == idx })
			}
			c.Req(fromP(a0, "0") && !fromP(a0, "1") && fromP(a1, "1"), mn, p.InstrPos(ci), "minus:interval-args", "intervals are subtracted as (first's, second's)", "")
		}
	})

	c.Rule("C13.CALLERS", func() {
		type exp struct {
			replica func(*Term) bool
			source  func(*Term) bool
		}
		has := func(pred func(*Term) bool) func(*Term) bool {
			return func(t *Term) bool { return t.Contains(pred) }
		}
		slaveSet := has(func(x *Term) bool {
			return (x.IsField("ExecutedGtidSet") && len(x.Args) == 1 && x.Args[0].IsField("SlaveState")) || p.IsCall(x, "(mysql.ReplicaStatus).GetExecutedGtidSet")
		})
		masterSet := has(func(x *Term) bool {
			return (x.IsField("ExecutedGtidSet") && len(x.Args) == 1 && x.Args[0].IsField("MasterState")) || p.IsCall(x, "(*mysql.Node).GTIDExecutedParsed")
		})
		param := func(idx string) func(*Term) bool {
			return func(t *Term) bool { return t.Op == "param" && t.Name == idx }
		}
		table := map[string]exp{
			"(*app.App).calcActiveNodes|IsSplitBrained":        {slaveSet, masterSet},
			"(*app.App).enableSemiSyncOnSlave|IsSlaveAhead":    {slaveSet, masterSet},
			"(*app.App).repairCascadeNode|IsSlaveAhead":        {slaveSet, nil},
			"(*app.App).repairCascadeNode|IsSplitBrained":      {slaveSet, nil},
			"(*app.App).repairCascadeNode|IsSlaveBehindOrEqual": {slaveSet, nil},
			"app.isSlavePermanentlyLost|IsSlaveAhead":          {slaveSet, param("1")},
			"(*app.App).MarkReplicationRunning|IsSlaveAhead":   {slaveSet, has(func(x *Term) bool { return x.IsField("LastGTIDExecuted") })},
			"(*app/node_state.NodeState).CalcGTIDDiffWithMaster|GTIDDiff": {slaveSet, masterSet},
			"mysql/gtids.IsSlaveAhead|IsSlaveBehindOrEqual":    {param("0"), param("1")},
		}
		n := 0
		for _, fn := range p.ModFuncs {
			for _, ci := range p.Calls(fn, "mysql/gtids.IsSlaveAhead", "mysql/gtids.IsSlaveBehindOrEqual", fnSplitBrained, fnGTIDDiff) {
				n++
				key := p.Name(fn) + "|" + afterDot(p.CalleeNames(ci)[0])
				e, ok := table[key]
				if !ok {
					c.Fail(p.Name(fn), p.InstrPos(ci), "caller "+key, "every call site of a GTID relation is in the checker's table of (replica, source) expectations", "unknown call site: triage it and extend the table")
					continue
				}
				a0, a1 := p.T(ci.Common().Args[0]), p.T(ci.Common().Args[1])
				okr := e.replica == nil || e.replica(a0)
				oks := e.source == nil || e.source(a1)
				// the replica-side marker must not be on the source side and vice versa
				if e.source != nil && e.replica != nil && e.replica(a1) && e.source(a0) && !(e.replica(a0) && e.source(a1)) {
					okr = false
				}
				c.Req(okr && oks, p.Name(fn), p.InstrPos(ci), "caller "+key, "the call passes (replica's set, source's set) in this order", "args "+a0.String()+" , "+a1.String())
			}
		}
		c.Req(n >= 9, "internal", "-", "callers", "call sites of the relations found", fmt.Sprintf("%d", n))
	})
	extraC13(c)
}

func runC14(c *Check) {
	p := c.p
	Ch := p.MustFunc(fnChooser)
	cfa := p.FA(Ch)
	cn := p.Name(Ch)
	H := p.MustFunc(fnMostPrio)
	hfa := p.FA(H)
	hn := p.Name(H)
	mp := func(t *Term) bool { return p.IsCall(t, fnMostPrio) && t.Args[0].Op == "param" && t.Args[0].Name == "1" }
	mpField := func(f string) func(*Term) bool {
		return func(t *Term) bool { return t.IsField(f) && len(t.Args) == 1 && mp(t.Args[0]) }
	}
	bound := func(t *Term) bool { return p.IsCall(t, "(time.Duration).Seconds") && t.Args[0].Op == "param" && t.Args[0].Name == "2" }

	var acc *Term // the accumulator of fresher hosts
	c.Rule("C14.OFFERED", func() {
		n := 0
		for _, r := range Returns(Ch) {
			if len(r.Results) != 2 {
				continue
			}
			k, _ := c.retKind(cfa, r, 1)
			h := p.T(r.Results[0])
			n++
			key := nthKey("return", n)
			switch {
			case k == "nonnil":
				c.Req(h.IsConst(""), cn, p.InstrPos(r), key+":error-no-host", "an error carries no host", "")
				c.Gate(cfa, r, key+":error-only-if-none", "an error is returned only when the helper found no candidate", func(l Lit) bool { return l.T.Op == "isnil" && l.Pos && mp(l.T.Args[0]) })
			case mpField("host")(h):
				c.Req(k == "const:nil", cn, p.InstrPos(r), key+":offered", "the host returned is the most-priority element's host", "")
				c.Gate(cfa, r, key+":non-nil", "the element is dereferenced only when found", func(l Lit) bool { return l.T.Op == "isnil" && !l.Pos && mp(l.T.Args[0]) })
			case ResultOf(h, 0) != nil && p.IsCall(ResultOf(h, 0), fnChooser):
				rec := ResultOf(h, 0)
				e := p.T(r.Results[1])
				c.Req(ResultOf(e, 1) != nil && ResultOf(e, 1).V == rec.V, cn, p.InstrPos(r), key+":recursive", "the recursive answer is returned unchanged", "")
				acc = rec.Args[1]
			default:
				c.Fail(cn, p.InstrPos(r), key, "the host returned is the most-priority element's host or the recursive answer", "returns "+h.String())
			}
		}
		c.Req(n >= 4, cn, "-", "returns", "the chooser's returns were classified", fmt.Sprintf("%d", n))
		// helper: nil only for the empty list; otherwise an element of the input
		var maxCell *ssa.Alloc
		for i, r := range Returns(H) {
			t := p.T(r.Results[0])
			key := nthKey("helper-return", i+1)
			switch {
			case t.IsConst("nil"):
				c.Gate(hfa, r, key+":nil-iff-empty", "the helper finds nothing only for an empty list", CmpLit("==", func(x *Term) bool { return x.Op == "len" && x.Args[0].Op == "param" }, func(x *Term) bool { return x.IsConst("0") }))
			case t.Op == "indexaddr" && t.Args[0].Op == "param":
				c.Hold(hn, p.InstrPos(r), key+":element", "an element of the input")
			case t.Op == "alloc":
				maxCell, _ = t.V.(*ssa.Alloc)
				c.Hold(hn, p.InstrPos(r), key+":running-max", "the running maximum")
			default:
				c.Fail(hn, p.InstrPos(r), key, "the helper returns nil, an element, or the running maximum", "returns "+t.String())
			}
		}
		if maxCell == nil {
			panic(AnchorError{"running maximum in " + hn})
		}
		sts := p.CellStores(maxCell)
		for i, s := range sts {
			t := p.T(s)
			c.Req((t.Op == "index" || t.Op == "load") && t.Contains(func(x *Term) bool { return x.Op == "param" && x.Name == "0" }), hn, "-", nthKey("running-max:store", i+1), "the running maximum is only ever assigned elements of the input", "assigned "+t.String())
		}
		c.Req(len(sts) >= 2, hn, "-", "running-max:stores", "the maximum is initialised and replaced", fmt.Sprintf("%d", len(sts)))
		c.extra["max_cell"] = maxCell.Comment
	})

	c.Rule("C14.FROM", func() {
		P, target := promotionTarget(c)
		var searchCall *Term
		for _, ci := range p.Calls(P, fnSearch) {
			searchCall = p.T(ci.(ssa.Value))
		}
		checkNewMasterSources(c, P, target, searchCall)
		// CLI multi-match branch
		cli := p.MustFunc("(*app.App).CliSwitch")
		clfa := p.FA(cli)
		for _, ch := range p.Calls(cli, fnChooser) {
			pos := p.T(ch.Common().Args[1])
			r := ResultOf(pos, 0)
			okp := r != nil && p.IsCall(r, fnPositions)
			c.Req(okp, p.Name(cli), p.InstrPos(ch), "cli:chooser-arg", "the CLI offers the positions of its candidate list", "offers "+pos.String())
			if !okp {
				continue
			}
			cands := r.Args[1]
			k := 0
			for _, a := range cands.Alts() {
				ap, ok := a.V.(*ssa.Call)
				if !ok || a.Op != "append" {
					continue
				}
				k++
				el := c.eff.variadic(ap.Call.Args[1])
				okel := len(el) == 1
				c.Req(okel, p.Name(cli), p.InstrPos(ap), nthKey("cli:candidate", k), "one candidate appended at a time", "")
				if okel {
					c.Gate(clfa, ap, nthKey("cli:candidate", k)+":outside-match", "a candidate is an active node that does not match the 'from' pattern", func(l Lit) bool {
						return !l.Pos && p.IsCall(l.T, "slices.Contains") && l.T.Args[1].V == el[0] && p.IsCall(l.T.Args[0], "util.SelectNodes")
					})
				}
			}
			// … or with the module's list filter: filterOut(active, matches)
			for _, a := range cands.Alts() {
				if p.IsCall(a, "app.filterOut") && len(a.Args) == 2 && p.IsCall(a.Args[1], "util.SelectNodes") {
					k++
					c.Hold(p.Name(cli), p.InstrPos(a.In), nthKey("cli:candidate", k)+":outside-match", "the candidates are the active nodes minus those matching the 'from' pattern (list filter)")
					checkFilterOutBody(c)
				}
			}
			c.Req(k >= 1, p.Name(cli), "-", "cli:candidates", "the CLI builds its candidate list by append", "")
		}
	})

	c.Rule("C14.CMP", func() {
		// identify max cell
		var maxCell *ssa.Alloc
		for _, r := range Returns(H) {
			if al, ok := r.Results[0].(*ssa.Alloc); ok {
				maxCell = al
			}
		}
		if maxCell == nil {
			panic(AnchorError{"running maximum in " + hn})
		}
		isMax := func(f string) func(*Term) bool {
			return func(t *Term) bool {
				if !t.IsField(f) || len(t.Args) != 1 {
					return false
				}
				b := t.Args[0]
				return b.V == ssa.Value(maxCell) || cellOf(b) == maxCell
			}
		}
		isElem := func(f string) func(*Term) bool {
			return func(t *Term) bool {
				if !t.IsField(f) || len(t.Args) != 1 {
					return false
				}
				b := t.Args[0]
				if b.Op != "indexaddr" && b.Op != "index" {
					return false
				}
				// positions[i] (i ≠ 0), or an element of positions[k:] (`for _, pos := range positions[1:]`)
				if b.Args[0].Op == "param" {
					return !b.Args[1].IsConst("0")
				}
				return b.Args[0].Op == "slice" && len(b.Args[0].Args) > 0 && b.Args[0].Args[0].Op == "param"
			}
		}
		higher := CmpLit("<", isMax("priority"), isElem("priority"))
		same := CmpLit("==", isMax("priority"), isElem("priority"))
		notLower := CmpLit("<=", isMax("priority"), isElem("priority")) // ¬(candidate < maximum)
		equalSets := func(val bool) LitPat {
			return func(l Lit) bool {
				if l.Pos != val || !p.IsCall(l.T, gtidEqual) {
					return false
				}
				a, b := l.T.Args[0], l.T.Args[1]
				return (isElem("gtidset")(a) && isMax("gtidset")(b)) || (isMax("gtidset")(a) && isElem("gtidset")(b))
			}
		}
		lessLag := CmpLit("<", isElem("lag"), isMax("lag"))
		contains := func(l Lit) bool {
			return l.Pos && p.IsCall(l.T, gtidContain) && isElem("gtidset")(l.T.Args[0]) && isMax("gtidset")(l.T.Args[1])
		}
		head := loopHead(H)
		n := 0
		for _, b := range H.Blocks {
			for _, in := range b.Instrs {
				st, ok := in.(*ssa.Store)
				if !ok || st.Addr != ssa.Value(maxCell) {
					continue
				}
				if head == nil || !head.Dominates(b) {
					continue // initialisation
				}
				n++
				k := nthKey("replace", n)
				c.Gate(hfa, st, k+":priority", "the maximum is replaced only on higher or equal priority", higher, same, notLower)
				c.Gate(hfa, st, k+":more-transactions", "on equal priority: equal sets, or the candidate's set contains the maximum's", higher, equalSets(true), contains)
				c.Gate(hfa, st, k+":less-lag", "on equal priority and equal sets: strictly less lag", higher, equalSets(false), lessLag)
			}
		}
		c.Req(n >= 3, hn, "-", "replace:sites", "replacement sites found (priority, lag, containment)", fmt.Sprintf("%d", n))
		// every element is examined: loop from 1 to len
		c.Req(head != nil, hn, "-", "loop", "the helper loops over the candidates", "")
	})

	c.Rule("C14.BOUND", func() {
		within := CmpLit("<=", mpField("lag"), bound)
		n := 0
		for _, r := range Returns(Ch) {
			if len(r.Results) == 2 && mpField("host")(p.T(r.Results[0])) {
				n++
				noneFresher := func(l Lit) bool {
					a, b, op, ok := Cmp(l)
					return ok && op == "==" && a.Op == "len" && acc != nil && sameAlts(a.Args[0], acc) && b.IsConst("0")
				}
				c.Gate(cfa, r, nthKey("most-priority", n), "the most-priority host is returned when its lag is within the bound, or when nothing fresher exists", within, noneFresher)
			}
		}
		c.Req(n == 2, cn, "-", "most-priority:returns", "two returns of the most-priority host", fmt.Sprintf("%d", n))
		if acc == nil {
			panic(AnchorError{"recursive call of the chooser"})
		}
		k := 0
		for _, a := range acc.Alts() {
			ap, ok := a.V.(*ssa.Call)
			if !ok || a.Op != "append" {
				continue
			}
			k++
			el := c.eff.variadic(ap.Call.Args[1])
			okel := len(el) == 1 && elementOfParam(p.T(el[0]), "1")
			c.Req(okel, cn, p.InstrPos(ap), nthKey("fresher", k)+":element", "the fresher set is filtered from the offered positions", "")
			fresher := CmpLit("<", func(t *Term) bool { return t.IsField("lag") && elementOfParam(t.Args[0], "1") }, func(t *Term) bool {
				return t.Op == "bin" && t.Name == "-" && mpField("lag")(t.Args[0]) && bound(t.Args[1])
			})
			c.Gate(cfa, ap, nthKey("fresher", k)+":threshold", "a host is fresher only if its lag is smaller than the most-priority lag by more than the bound", fresher)
		}
		c.Req(k == 1, cn, "-", "fresher:appends", "one append site of the fresher set", fmt.Sprintf("%d", k))
		// recursion beyond the bound only
		for _, rc := range p.Calls(Ch, fnChooser) {
			c.Gate(cfa, rc, "recursion:beyond-bound", "recursion happens only when the most-priority lag exceeds the bound", func(l Lit) bool { return within(Lit{l.T, !l.Pos}) })
			c.Req(p.T(rc.Common().Args[2]).Op == "param", cn, p.InstrPos(rc), "recursion:same-bound", "the bound is passed on unchanged", "")
		}
	})

	c.Rule("C14.TERM", func() {
		// x < x - b is infeasible for b >= 0: the most-priority element is not in the fresher set
		x, b := sVar("mp.lag"), sVar("bound")
		ok := Entails([]Rel{{b, ">=", sConst(0)}, {x, "<", sSub(x, b)}}, Rel{sConst(0), ">", sConst(0)})
		c.Req(ok, cn, "-", "strict-subset", "with bound >= 0 the filter lag < mp.lag − bound excludes the most-priority element, so the recursive argument is strictly shorter", "")
		nrec := len(p.Calls(Ch, fnChooser))
		c.Req(nrec == 1, cn, "-", "single-recursion", "exactly one recursive call", fmt.Sprintf("%d", nrec))
		loops := countLoops(Ch)
		c.Req(loops == 1, cn, "-", "single-loop", "exactly one loop (the filter), bounded by the list", fmt.Sprintf("%d", loops))
		// no other cycles through callees
		for _, ci := range p.Calls(H, fnChooser, fnMostPrio) {
			c.Fail(hn, p.InstrPos(ci), "helper-recursion", "the helper does not call back", "")
		}
		hl := countLoops(H)
		c.Req(hl == 1, hn, "-", "helper:single-loop", "the helper has one counted loop", fmt.Sprintf("%d", hl))
	})
	extraC14(c)
}

func sameAlts(a, b *Term) bool {
	if sameValue(a, b) {
		return true
	}
	for _, x := range a.Alts() {
		for _, y := range b.Alts() {
			if x.V != nil && x.V == y.V && x.Op != "const" {
				return true
			}
		}
	}
	return false
}

// countLoops counts distinct loop headers (targets of back edges).
func countLoops(fn *ssa.Function) int {
	heads := map[*ssa.BasicBlock]bool{}
	for _, b := range fn.Blocks {
		for _, s := range b.Succs {
			if s.Dominates(b) {
				heads[s] = true
			}
		}
	}
	return len(heads)
}

// containerParam follows the container of lookups / range values / loads down to a
// parameter and returns its index ("" if the chain does not end in a parameter).
func containerParam(t *Term) string {
	for i := 0; i < 12 && t != nil; i++ {
		switch t.Op {
		case "param":
			return t.Name
		case "extract", "lookup", "rangeval", "rangekey", "load", "typeassert", "index", "indexaddr", "field", "slice", "next", "range":
			if len(t.Args) == 0 {
				return ""
			}
			t = t.Args[0]
		default:
			return ""
		}
	}
	return ""
}

// checkFilterOutBody: filterOut(a, b) keeps an element of a only if b does not contain it.
func checkFilterOutBody(c *Check) {
	p := c.p
	f := p.MustFunc("app.filterOut")
	fa := p.FA(f)
	k := 0
	for _, b := range f.Blocks {
		for _, in := range b.Instrs {
			call, ok := in.(*ssa.Call)
			if !ok {
				continue
			}
			if bi, ok := call.Call.Value.(*ssa.Builtin); !ok || bi.Name() != "append" {
				continue
			}
			k++
			el := c.eff.variadic(call.Call.Args[1])
			okel := len(el) == 1 && elementOfParam(p.T(el[0]), "0")
			c.Req(okel, p.Name(f), p.InstrPos(call), nthKey("listfilter:append", k)+":element", "the list filter appends elements of its first argument", "")
			if okel {
				c.Gate(fa, call, nthKey("listfilter:append", k)+":absent", "the list filter keeps an element only if the second list does not contain it", func(l Lit) bool {
					return !l.Pos && p.IsCall(l.T, "slices.Contains") && l.T.Args[0].Op == "param" && l.T.Args[0].Name == "1" && l.T.Args[1].V == el[0]
				})
			}
		}
	}
	c.Req(k >= 1, p.Name(f), "-", "listfilter:has-append", "the list filter builds its result by append", "")
}
