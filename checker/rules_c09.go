package main

import (
	"fmt"
	"strings"

	"golang.org/x/tools/go/ssa"
)

const (
	fnTryLeave  = "(*app.App).tryLeaveMaintenance"
	fnLeave     = "(*app.App).leaveMaintenance"
	fnEnter     = "(*app.App).enterMaintenance"
	fnEnsure    = "(*app.App).ensureCurrentMaster"
	fnGetMaster = "(*app.App).getMasterHost"
	fnMaintFile = "(*app.App).doesMaintenanceFileExist"
	fnUpdateAN  = "(*app.App).updateActiveNodes"
)

func init() {
	register("C09", "other",
		"Absence of effects while paused and the conditions of leaving, decided by effect containment over call chains and gates over CFG paths: "+
			"(PAUSED) in the maintenance handler everything except the marker file and reads lies below 'maintenance record gone or should-leave', and a read error keeps the state; "+
			"(BG) the background loops, which keep running while paused, have no statement that changes a server setting or topology on any node and write only their own per-host keys; "+
			"(ENTER) in the manager iteration the full-maintenance branch returns Maintenance (or Manager after a failed enter) and reaches nothing mutating but the enter helper, which sets the paused flag only after the configured semi-sync disable and active-list delete succeeded; "+
			"(PREGATE) before the maintenance decision the manager iteration only reads, releases the lock, writes the emergency file or creates an absent master record; "+
			"(CAND) the candidate handler has no mutating effect and follows into maintenance only once the manager acknowledged full maintenance; "+
			"(RESTART) a restart without coordination service resumes maintenance from the marker file, a read error with the marker present does too, the marker is written on entering the handler and removed only by the leave helper; "+
			"(LIGHT) light mode suppresses filing and parks failover-type requests (C05.GATES, C06.START); "+
			"(LEAVE) leaving succeeds only if exactly one alive master was found and recorded, the active list was rebuilt from scratch and is non-empty, and the record was deleted; several masters write the emergency file; a failed leave keeps the mode.",
		"operator-side changes, behaviour of outages over time",
		runC09)
}

func runC09(c *Check) {
	p := c.p

	c.Rule("C09.PAUSED", func() {
		Ma := p.MustFunc(fnMaint)
		fa := p.FA(Ma)
		name := p.Name(Ma)
		gone := p.ErrIs(true, "dcs.ErrNotFound", fnGetMaint)
		leave := func(l Lit) bool {
			return l.Pos && l.T.IsField("ShouldLeave") && ResultOf(l.T.Args[0], 0) != nil && p.IsCall(ResultOf(l.T.Args[0], 0), fnGetMaint)
		}
		effs := c.eff.Collect(Ma, WalkOpts{Gate: []LitPat{gone, leave}, GateID: "paused"})
		bad := 0
		for _, e := range effs {
			ok := true
			switch {
			case sqlMutating(e), e.Kind == "SQL" && e.Key == "DATA":
				ok = false
			case dcsWrite(e):
				ok = false
			case e.Kind == "DCS" && (e.Op == "AcquireLock" || e.Op == "ReleaseLock"):
				ok = false
			case e.Kind == "FILE" && e.Op != "stat" && e.Key != "$cfg.Maintenancefile":
				ok = false
			case e.Kind == "FILE" && e.Op == "remove":
				ok = false
			}
			if !ok {
				bad++
				c.Fail(name, p.InstrPos(e.Site), "paused-effect "+e.String(), "while the maintenance record exists and does not ask to leave, the handler only touches the marker file and reads", "chain: "+c.eff.ChainString(e))
			}
		}
		if bad == 0 {
			c.Hold(name, p.Pos(Ma.Pos()), "paused-effects", fmt.Sprintf("%d effects reachable while paused: marker file and reads only", len(effs)))
		}
		all := c.eff.Collect(Ma, WalkOpts{})
		c.Req(len(all) > len(effs)+10, name, p.Pos(Ma.Pos()), "sanity:gate-hides-leave", "the leave path (with its repairs) exists below the gate", fmt.Sprintf("%d vs %d", len(all), len(effs)))
		// read error keeps the state
		// judged on paths: from every edge on which the read is known to have failed, leaving out the ways on which the
		// error is 'not found', only "stay paused" is returned (covers `if err != nil && !Is(…)` and the switch form alike)
		found := false
		for _, b := range Ma.Blocks {
			for si := range b.Succs {
				for _, l := range fa.EdgeLits(b, si) {
					if !p.ErrNonNil(fnGetMaint)(l) {
						continue
					}
					found = true
					badr := ""
					for _, r := range Returns(Ma) {
						pth, _ := fa.ReachFromEdge(b, si, func(in ssa.Instruction) bool { return in == ssa.Instruction(r) }, ReachOpts{Cut: []LitPat{p.ErrIs(true, "dcs.ErrNotFound", fnGetMaint)}})
						if pth != nil {
							if k, _ := c.retKind(fa, r, 0); k != "const:Maintenance" {
								badr = p.InstrPos(r) + " returns " + k
							}
						}
					}
					c.Req(badr == "", name, p.InstrPos(blockIf(b)), "read-error-keeps-state", "a failed read of the maintenance record keeps the paused state", badr)
					break
				}
			}
		}
		c.Req(found, name, "-", "read-error-edge", "the handler distinguishes 'not found' from other read errors", "")
		for i, r := range Returns(Ma) {
			k, t := c.retKind(fa, r, 0)
			if k == "const:Maintenance" {
				continue
			}
			okd := k == "call" && p.IsCall(t, fnTryLeave)
			c.Req(okd, name, p.InstrPos(r), nthKey("leave-return", i+1), "the handler leaves the paused state only through the leave helper", "returns "+k)
			c.Gate(fa, r, nthKey("leave-return", i+1)+":gate", "the leave helper runs only when the record is gone or asks to leave", gone, leave)
		}
	})

	c.Rule("C09.BG", func() {
		n := 0
		for _, r := range c.DaemonRoots() {
			if r.Class != "background" {
				continue
			}
			n++
			bad := 0
			effs := c.eff.Collect(r.Fn, WalkOpts{})
			for _, e := range effs {
				switch {
				case sqlMutating(e):
					bad++
					c.Fail(r.Name, p.InstrPos(e.Site), "bg-effect "+e.String(), "background loops never change a server setting or topology (they keep running during maintenance)", "chain: "+c.eff.ChainString(e))
				case dcsWrite(e) && !allowedUnlockedWrite(e):
					bad++
					c.Fail(r.Name, p.InstrPos(e.Site), "bg-effect "+e.String(), "background loops write only their own per-host keys", "chain: "+c.eff.ChainString(e))
				case e.Kind == "SQL" && e.Key == "DATA" && e.Recv != "local":
					bad++
					c.Fail(r.Name, p.InstrPos(e.Site), "bg-effect "+e.String(), "background loops write data (replication monitor heartbeat) on the local node only", "chain: "+c.eff.ChainString(e))
				}
			}
			if bad == 0 {
				c.Hold(r.Name, p.Pos(r.Fn.Pos()), "bg-containment", fmt.Sprintf("%d effects, none changes a server or a shared key", len(effs)))
			}
		}
		c.Req(n >= 4, fnRun, "-", "bg-roots", "background loops discovered from Run", fmt.Sprintf("%d", n))
	})

	m := newMgrCtx(c)
	M, fa, name := m.M, m.fa, m.name

	c.Rule("C09.ENTER", func() {
		// the full-maintenance edge: maintenance != nil on the not-light side
		found := false
		for _, b := range M.Blocks {
			for si := range b.Succs {
				isEdge := false
				for _, l := range fa.EdgeLits(b, si) {
					if l.T.Op == "isnil" && !l.Pos && l.T.Args[0].V == m.maint {
						isEdge = true
					}
				}
				if !isEdge {
					continue
				}
				if ok, _ := fa.Gated(b.Instrs[len(b.Instrs)-1], m.light(false)); !ok {
					continue
				}
				found = true
				path, hit := fa.ReachFromEdge(b, si, func(in ssa.Instruction) bool {
					ci, ok := in.(ssa.CallInstruction)
					return ok && !p.siteIs(ci, fnEnter) && c.mutatingCall(M, ci)
				}, ReachOpts{})
				det := ""
				if hit != nil {
					det = p.InstrPos(hit) + " via " + fa.PathString(path)
				}
				c.Req(path == nil, name, p.InstrPos(blockIf(b)), "full-maintenance-edge:no-effects", "under full maintenance the iteration reaches nothing mutating but the enter helper", det)
				badr := ""
				for _, r := range Returns(M) {
					pth, _ := fa.ReachFromEdge(b, si, func(in ssa.Instruction) bool { return in == ssa.Instruction(r) }, ReachOpts{})
					if pth == nil {
						continue
					}
					k, _ := c.retKind(fa, r, 0)
					switch k {
					case "const:Maintenance":
					case "const:Manager":
						if ok, _ := fa.Gated(r, p.ErrNonNil(fnEnter), m.light(true), m.noMaintenance()); !ok {
							badr = p.InstrPos(r) + " returns Manager without a failed enter"
						}
					default:
						badr = p.InstrPos(r) + " returns " + k
					}
				}
				c.Req(badr == "", name, p.InstrPos(blockIf(b)), "full-maintenance-edge:returns", "under full maintenance the iteration returns Maintenance (Manager only after a failed enter)", badr)
			}
		}
		c.Req(found, name, "-", "full-maintenance-edge", "the iteration has a full-maintenance branch", "")
		for i, r := range Returns(M) {
			if k, _ := c.retKind(fa, r, 0); k == "const:Maintenance" {
				acked := func(l Lit) bool {
					return l.Pos && p.IsCall(l.T, "(*app.Maintenance).MaintAcquired") && l.T.Args[0].V == m.maint
				}
				c.Gate(fa, r, nthKey("to-maintenance", i+1), "the manager enters the paused state only when the record is acknowledged, the enter helper succeeded, or the marker file exists after a read error",
					acked, p.NilErr(fnEnter), p.OK(true, fnMaintFile))
			}
		}
		E := p.MustFunc(fnEnter)
		efa := p.FA(E)
		en := p.Name(E)
		nst := 0
		for _, b := range E.Blocks {
			for _, in := range b.Instrs {
				st, ok := in.(*ssa.Store)
				if !ok {
					continue
				}
				fad, ok := st.Addr.(*ssa.FieldAddr)
				if !ok || fieldName(fad.X.Type(), fad.Field) != "app.Maintenance.MySyncPaused" {
					continue
				}
				nst++
				off := FieldLit(false, "DisableSemiSyncReplicationOnMaintenance")
				c.Gate(efa, st, "paused-flag:after-semisync-disable", "the paused flag is set only after the configured semi-sync disable succeeded", off, p.NilErr("(*mysql.Node).SemiSyncDisable"))
				c.Gate(efa, st, "paused-flag:after-list-delete", "the paused flag is set only after the configured active-list delete succeeded", off, p.NilErr("(*app.App).DeleteActiveNodes"))
				c.Req(p.T(st.Val).IsConst("true"), en, p.InstrPos(st), "paused-flag:true", "the flag stored is true", "")
				for _, sm := range p.Calls(E, "(*app.App).SetMaintenance") {
					ok, path := efa.PrecededBy(sm, func(x ssa.Instruction) bool { return x == ssa.Instruction(st) })
					c.Req(ok, en, p.InstrPos(sm), "record-written-after-flag", "the record is written with the flag set", "path: "+efa.PathString(path))
				}
			}
		}
		c.Req(nst == 1, en, "-", "paused-flag:site", "the enter helper sets the paused flag once", fmt.Sprintf("%d", nst))
		for _, d := range p.Calls(E, "(*mysql.Node).SemiSyncDisable") {
			rt := p.T(d.Common().Args[0])
			okm := p.IsCall(rt, "(*mysql.Cluster).Get") && rt.Args[1].Op == "param" && rt.Args[1].Name == "2"
			if !okm {
				// the helper is handed the master's node instead of its name: at its only call site the argument is the
				// registry handle of the current master
				if prm, isP := d.Common().Args[0].(*ssa.Parameter); isP {
					if arg, _ := p.uniqueCallArg(prm); arg != nil {
						at := p.T(arg)
						okm = p.IsCall(at, "(*mysql.Cluster).Get") && len(at.Args) == 2 && ResultOf(at.Args[1], 0) != nil && p.IsCall(ResultOf(at.Args[1], 0), "(*app.App).getCurrentMaster")
					}
				}
			}
			c.Req(okm, en, p.InstrPos(d), "semisync-disable:on-master", "semi-sync is disabled on the recorded master", "")
		}
	})

	c.Rule("C09.PREGATE", func() {
		getM := p.Calls(M, fnGetMaint)
		if len(getM) != 1 {
			panic(AnchorError{"single GetMaintenance in " + name})
		}
		n := 0
		for _, b := range M.Blocks {
			for _, in := range b.Instrs {
				ci, ok := in.(ssa.CallInstruction)
				if !ok {
					continue
				}
				if pre, _ := fa.PrecededBy(ci, func(x ssa.Instruction) bool { return x == getM[0].(ssa.Instruction) }); pre {
					continue
				}
				for _, cal := range c.eff.calleesOf(ci, c.eff.rootEnv(M), 0) {
					if !p.InModule(cal.Fn) {
						continue
					}
					for _, e := range c.eff.CollectEnv(cal, WalkOpts{}) {
						n++
						okE := true
						switch {
						case sqlMutating(e), e.Kind == "SQL" && e.Key == "DATA":
							okE = false
						case dcsWrite(e):
							okE = e.Op == "Set" && e.Key == "master" && p.siteIs(ci, "(*app.App).getCurrentMaster")
						case e.Kind == "FILE" && e.Op != "stat":
							okE = e.Key == "$cfg.Emergefile"
						}
						if !okE {
							c.Fail(name, p.InstrPos(ci), "pre-maintenance "+e.String(), "before the maintenance decision the iteration only reads, releases the lock, writes the emergency file or creates an absent master record", "chain: "+c.eff.ChainString(e))
						}
					}
				}
			}
		}
		c.Req(n > 10, name, "-", "pre-maintenance-effects", "effects before the maintenance decision were examined", fmt.Sprintf("%d", n))
		c.Hold(name, p.InstrPos(getM[0]), "pre-maintenance", fmt.Sprintf("%d effects before the decision, all allowed", n))
		// the absent-master creation happens only when the record is empty/unreadable
		g := p.MustFunc("(*app.App).getCurrentMaster")
		gfa := p.FA(g)
		for _, ci := range p.Calls(g, fnEnsure) {
			have := func(l Lit) bool {
				a, b, op, ok := Cmp(l)
				if !ok || op != "==" {
					return false
				}
				is := func(t *Term) bool {
					r := ResultOf(t, 0)
					return r != nil && p.IsCall(r, "(*app.App).GetMasterHostFromDcs")
				}
				return (is(a) && b.IsConst("")) || (is(b) && a.IsConst(""))
			}
			c.Gate(gfa, ci, "ensure-only-if-absent", "the master record is (re)created from the cluster state only when it is empty or unreadable", have, p.ErrNonNil("(*app.App).GetMasterHostFromDcs"))
		}
	})

	c.Rule("C09.CAND", func() {
		C := p.MustFunc(fnCandidate)
		cfa := p.FA(C)
		cn := p.Name(C)
		bad := 0
		effs := c.eff.Collect(C, WalkOpts{})
		for _, e := range effs {
			if sqlMutating(e) || dcsWrite(e) || (e.Kind == "SQL" && e.Key == "DATA") || (e.Kind == "FILE" && e.Op != "stat") {
				bad++
				c.Fail(cn, p.InstrPos(e.Site), "candidate-effect "+e.String(), "a candidate only reads and tries the lock", "chain: "+c.eff.ChainString(e))
			}
		}
		if bad == 0 {
			c.Hold(cn, p.Pos(C.Pos()), "candidate-containment", fmt.Sprintf("%d effects, reads and the lock attempt only", len(effs)))
		}
		n := 0
		for _, r := range Returns(C) {
			if k, _ := c.retKind(cfa, r, 0); k == "const:Maintenance" {
				n++
				c.Gate(cfa, r, nthKey("to-maintenance", n)+":paused", "a candidate follows into maintenance only after the manager acknowledged it", FieldLit(true, "MySyncPaused"))
				c.Gate(cfa, r, nthKey("to-maintenance", n)+":not-light", "light maintenance does not pause candidates", func(l Lit) bool { return !l.Pos && p.IsCall(l.T, "(*app.Maintenance).IsLightMode") })
			}
		}
		c.Req(n >= 1, cn, "-", "to-maintenance", "candidates can follow into maintenance", "")
	})

	c.Rule("C09.RESTART", func() {
		F := p.MustFunc(fnFirstRun)
		ffa := p.FA(F)
		fnm := p.Name(F)
		found := false
		for _, b := range F.Blocks {
			for si := range b.Succs {
				for _, l := range ffa.EdgeLits(b, si) {
					if !p.OK(true, fnMaintFile)(l) {
						continue
					}
					if ok, _ := ffa.Gated(b.Instrs[len(b.Instrs)-1], p.OK(false, "(dcs.DCS).WaitConnected")); !ok {
						continue
					}
					found = true
					badr := ""
					for _, r := range Returns(F) {
						pth, _ := ffa.ReachFromEdge(b, si, func(in ssa.Instruction) bool { return in == ssa.Instruction(r) }, ReachOpts{})
						if pth != nil {
							if k, _ := c.retKind(ffa, r, 0); k != "const:Maintenance" {
								badr = p.InstrPos(r) + " returns " + k
							}
						}
					}
					c.Req(badr == "", fnm, p.InstrPos(blockIf(b)), "no-dcs+marker", "a start without coordination service and with the marker file resumes maintenance", badr)
				}
			}
		}
		c.Req(found, fnm, "-", "no-dcs+marker:edge", "the first-run handler consults the marker file when the coordination service is unreachable", "")
		// first run without DCS does nothing else
		effs := c.eff.Collect(F, WalkOpts{Gate: []LitPat{p.OK(true, "(dcs.DCS).WaitConnected")}, GateID: "nowait"})
		for _, e := range effs {
			if sqlMutating(e) || dcsWrite(e) || e.Kind == "DCS" && e.Op == "AcquireLock" {
				c.Fail(fnm, p.InstrPos(e.Site), "unconnected-effect "+e.String(), "without a connection the first-run handler has no effect", "")
			}
		}
		// manager: read error + marker
		foundM := false
		for _, b := range M.Blocks {
			for si := range b.Succs {
				for _, l := range fa.EdgeLits(b, si) {
					if !p.OK(true, fnMaintFile)(l) {
						continue
					}
					foundM = true
					badr := ""
					for _, r := range Returns(M) {
						pth, _ := fa.ReachFromEdge(b, si, func(in ssa.Instruction) bool { return in == ssa.Instruction(r) }, ReachOpts{})
						if pth != nil {
							if k, _ := c.retKind(fa, r, 0); k != "const:Maintenance" {
								badr = p.InstrPos(r) + " returns " + k
							}
						}
					}
					c.Req(badr == "", name, p.InstrPos(blockIf(b)), "read-error+marker", "a failed read of the maintenance record with the marker file present resumes maintenance", badr)
					c.Gate(fa, b.Instrs[len(b.Instrs)-1], "read-error+marker:only-on-error", "the marker file is consulted only after a read error other than 'not found'", p.ErrIs(false, "dcs.ErrNotFound", fnGetMaint))
				}
			}
		}
		c.Req(foundM, name, "-", "read-error+marker:edge", "the manager consults the marker file after a failed read", "")
		// marker written on entering the handler, removed only by the leave helper
		Ma := p.MustFunc(fnMaint)
		mfa := p.FA(Ma)
		path, _ := mfa.Reach(func(in ssa.Instruction) bool {
			_, isRet := in.(*ssa.Return)
			ci, isCall := in.(ssa.CallInstruction)
			return isRet || (isCall && p.siteIs(ci, fnGetMaint, fnTryLeave))
		}, ReachOpts{Cut: []LitPat{p.OK(true, fnMaintFile)}, Barrier: isCallTo(p, "(*app.App).writeMaintenanceFile")})
		c.Req(path == nil, p.Name(Ma), p.Pos(Ma.Pos()), "marker-written-first", "the maintenance handler makes sure the marker file exists before anything else", "path: "+mfa.PathString(path))
		nrm := 0
		for _, fn := range p.ModFuncs {
			for _, ci := range p.Calls(fn, "(*app.App).removeMaintenanceFile") {
				nrm++
				c.Req(p.Name(fn) == fnTryLeave, p.Name(fn), p.InstrPos(ci), nthKey("marker-removed", nrm), "the marker file is removed only by the leave helper", "")
			}
		}
		c.Req(nrm >= 1, fnTryLeave, "-", "marker-removed:site", "the leave helper removes the marker", "")
		T := p.MustFunc(fnTryLeave)
		tfa := p.FA(T)
		for i, ci := range p.Calls(T, "(*app.App).removeMaintenanceFile") {
			c.Gate(tfa, ci, nthKey("marker-removed", i+1)+":after-leave", "the marker is removed only after leaving succeeded or the lock was not obtained", p.NilErr(fnLeave), p.OK(false, fnAppLock))
		}
	})

	c.Rule("C09.LIGHT", func() {
		// cross-reference: the two structural halves of light mode are decided by C05.GATES and C06.START;
		// here: light mode never pauses (the light branch cannot return Maintenance) and acknowledges itself
		n := 0
		for _, r := range Returns(M) {
			if k, _ := c.retKind(fa, r, 0); k == "const:Maintenance" {
				n++
				c.Gate(fa, r, nthKey("pause", n)+":not-light", "light maintenance never pauses the manager", m.light(false), p.OK(true, fnMaintFile))
			}
		}
		c.Req(n >= 1, name, "-", "pause", "the manager can pause", "")
		for i, ci := range p.Calls(M, "(*app.App).SetMaintenance") {
			c.Gate(fa, ci, nthKey("light-ack", i+1), "the manager acknowledges light maintenance only in light mode", m.light(true))
		}
		for i, ci := range p.Calls(M, fnIssueFailover) {
			c.Gate(fa, ci, nthKey("filing", i+1)+":not-light", "light maintenance suppresses automatic failover", m.light(false))
		}
		// a pending request of failover type — automatic or forced by the operator — is parked in light mode:
		// approval, start and the procedure itself are reached only with light mode off or a transition other than failover
		np := 0
		for _, ci := range p.Calls(M, "(*app.App).approveSwitchover", "(*app.App).StartSwitchover", "(*app.App).performSwitchover") {
			np++
			c.Gate(fa, ci, nthKey("request-processing", np)+":failover-parked-in-light", "light maintenance suppresses failover, automatic or operator-forced: a request is processed only outside light mode or when its transition is not 'failover' (the cause of the request plays no role)", m.light(false), func(l Lit) bool {
				return !l.Pos && l.T.Op == "eq" && l.T.Args[0].IsField("MasterTransition") && l.T.Args[1].IsConst("failover")
			})
		}
		c.Req(np >= 3, name, "-", "request-processing", "approval, start and procedure sites found", fmt.Sprintf("%d", np))
	})

	c.Rule("C09.LEAVE", func() {
		Lv := p.MustFunc(fnLeave)
		lfa := p.FA(Lv)
		ln := p.Name(Lv)
		var ensure *Term
		ensured := func(l Lit) bool {
			if !p.NilErr(fnEnsure)(l) {
				return false
			}
			for _, a := range l.T.Args[0].Alts() {
				if r := ResultOf(a, 1); r != nil {
					ensure = r
				}
			}
			return ensure != nil
		}
		sites := c.SuccessSites(Lv, 0, "nil")
		c.Req(len(sites) >= 1, ln, "-", "leave-nil", "leaving can succeed", "")
		for i, rs := range sites {
			k := func(x string) string { return nthKey("leave-nil", i+1) + ":" + x }
			kind, call := c.valKind(lfa, rs.At, rs.Val)
			c.Req(kind == "call" && p.IsCall(call, "(*app.App).DeleteMaintenance"), ln, p.InstrPos(rs.At), k("record-deleted"), "leaving succeeds only as the answer of deleting the maintenance record", "returns "+kind)
			c.Gate(lfa, rs.At, k("master-ensured"), "leaving requires the single alive master to have been found and recorded", ensured)
			rebuilt := func(l Lit) bool {
				if !p.NilErr(fnUpdateAN)(l) {
					return false
				}
				ci := callInstr(l)
				if ci == nil {
					return false
				}
				a := ci.Common().Args
				old := p.T(a[3])
				emptyOld := (old.Op == "slice" && strings.HasPrefix(old.Args[0].Name, "[0]")) || old.IsConst("nil") // []string{} or nil: both empty
				mast := p.T(a[4])
				return emptyOld && ensure != nil && ResultOf(mast, 0) != nil && ResultOf(mast, 0).V == ensure.V
			}
			c.Gate(lfa, rs.At, k("list-rebuilt"), "leaving requires the active list to be rebuilt from scratch (old list empty) for the ensured master", rebuilt)
			nonEmpty := func(l Lit) bool {
				a, b, op, ok := Cmp(l)
				if !ok {
					return false
				}
				isLen := func(t *Term) bool {
					return t.Op == "len" && ResultOf(t.Args[0], 0) != nil && p.IsCall(ResultOf(t.Args[0], 0), "(*app.App).GetActiveNodes")
				}
				return (op == "!=" && ((isLen(a) && b.IsConst("0")) || (isLen(b) && a.IsConst("0")))) || (op == "<" && a.IsConst("0") && isLen(b))
			}
			c.Gate(lfa, rs.At, k("list-non-empty"), "leaving requires the rebuilt list, re-read from the coordination service, to be non-empty", nonEmpty)
			c.Gate(lfa, rs.At, k("list-read"), "the rebuilt list was read without error", p.NilErr("(*app.App).GetActiveNodes"))
		}
		// list re-read after the rebuild
		for _, g := range p.Calls(Lv, "(*app.App).GetActiveNodes") {
			c.Gate(lfa, g, "list-read-after-rebuild", "the list is re-read after the rebuild", p.NilErr(fnUpdateAN))
		}
		// many masters -> emergency file
		for _, b := range Lv.Blocks {
			for si := range b.Succs {
				for _, l := range lfa.EdgeLits(b, si) {
					if p.ErrIs(true, "app.ErrManyMasters", fnEnsure)(l) {
						path, _ := lfa.ReachFromEdge(b, si, func(in ssa.Instruction) bool { _, ok := in.(*ssa.Return); return ok }, ReachOpts{Barrier: isCallTo(p, "(*app.App).writeEmergeFile")})
						c.Req(path == nil, ln, p.InstrPos(blockIf(b)), "many-masters:emerge-file", "several alive masters raise the emergency marker", "path: "+lfa.PathString(path))
					}
				}
			}
		}
		checkEnsureMaster(c)
		// failed leave keeps the mode
		T := p.MustFunc(fnTryLeave)
		tfa := p.FA(T)
		for i, r := range Returns(T) {
			k, _ := c.retKind(tfa, r, 0)
			switch k {
			case "const:Manager":
				c.Gate(tfa, r, nthKey("try-leave", i+1)+":left", "the manager state is resumed only after leaving succeeded", p.NilErr(fnLeave))
				c.Gate(tfa, r, nthKey("try-leave", i+1)+":lock", "the manager state is resumed only with the lock", p.OK(true, fnAppLock))
			case "const:Candidate":
				c.Gate(tfa, r, nthKey("try-leave", i+1)+":no-lock", "without the lock the process becomes a candidate", p.OK(false, fnAppLock))
			case "const:Maintenance":
				c.Gate(tfa, r, nthKey("try-leave", i+1)+":failed", "a failed leave keeps the mode", p.ErrNonNil(fnLeave))
			default:
				c.Fail(p.Name(T), p.InstrPos(r), nthKey("try-leave", i+1), "the leave helper answers Manager, Candidate or Maintenance", "returns "+k)
			}
		}
		for _, ci := range p.Calls(T, fnLeave) {
			c.Gate(tfa, ci, "leave:under-lock", "leaving (which repairs and publishes) runs only under the manager lock", p.OK(true, fnAppLock))
		}
	})
}

// checkEnsureMaster: "exactly one alive master becomes the recorded master".
func checkEnsureMaster(c *Check) {
	p := c.p
	E := p.MustFunc(fnEnsure)
	efa := p.FA(E)
	en := p.Name(E)
	sites := c.SuccessSites(E, 1, "nil")
	for i, rs := range sites {
		kind, call := c.valKind(efa, rs.At, rs.Val)
		okd := kind == "call" && p.IsCall(call, "(*app.App).SetMasterHost") && ResultOf(call.Args[1], 0) != nil && p.IsCall(ResultOf(call.Args[1], 0), fnGetMaster)
		c.Req(okd, en, p.InstrPos(rs.At), nthKey("ensure-nil", i+1)+":records-found", "ensuring succeeds only as the answer of recording the host that was found", "returns "+kind)
		c.Gate(efa, rs.At, nthKey("ensure-nil", i+1)+":found", "a host was found without error", p.NilErr(fnGetMaster))
		c.Gate(efa, rs.At, nthKey("ensure-nil", i+1)+":non-empty", "no alive master is an error", CmpLit("!=", func(t *Term) bool {
			return ResultOf(t, 0) != nil && p.IsCall(ResultOf(t, 0), fnGetMaster)
		}, func(t *Term) bool { return t.IsConst("") }))
	}
	c.Req(len(sites) >= 1, en, "-", "ensure-nil", "ensuring can succeed", "")
	G := p.MustFunc(fnGetMaster)
	gfa := p.FA(G)
	gn := p.Name(G)
	n := 0
	var acc *Term
	for _, b := range G.Blocks {
		for _, in := range b.Instrs {
			call, ok := in.(*ssa.Call)
			if !ok {
				continue
			}
			if bi, ok := call.Call.Value.(*ssa.Builtin); !ok || bi.Name() != "append" {
				continue
			}
			n++
			elem := c.eff.variadic(call.Call.Args[1])
			okk := len(elem) == 1 && p.T(elem[0]).Op == "rangekey" && p.T(elem[0]).Args[0].Op == "param"
			c.Req(okk, gn, p.InstrPos(call), nthKey("masters-append", n)+":key", "the collected name is the key of the examined state", "")
			alive := func(f string) LitPat {
				return func(l Lit) bool { return l.Pos && l.T.IsField(f) && l.T.Args[0].Op == "rangeval" }
			}
			c.Gate(gfa, call, nthKey("masters-append", n)+":alive", "a host counts as master only if it answers pings", alive("PingOk"))
			c.Gate(gfa, call, nthKey("masters-append", n)+":is-master", "a host counts as master only if it has no replica status", alive("IsMaster"))
			acc = p.T(call)
		}
	}
	c.Req(n == 1, gn, "-", "masters-append", "alive masters are collected at one site", fmt.Sprintf("%d", n))
	isAcc := func(t *Term) bool {
		if acc == nil {
			return false
		}
		for _, a := range t.Alts() {
			if a.V == acc.V {
				return true
			}
		}
		return false
	}
	for i, r := range Returns(G) {
		if len(r.Results) != 2 {
			continue
		}
		k, _ := c.retKind(gfa, r, 1)
		h := p.T(r.Results[0])
		if k != "const:nil" {
			c.Req(h.IsConst(""), gn, p.InstrPos(r), nthKey("get-master", i+1)+":error-empty", "an error carries no host", "")
			continue
		}
		if h.IsConst("") {
			c.Gate(gfa, r, nthKey("get-master", i+1)+":none", "'no master' is answered only when none was collected", CmpLit("==", func(t *Term) bool { return t.Op == "len" && isAcc(t.Args[0]) }, func(t *Term) bool { return t.IsConst("0") }))
			continue
		}
		c.Req(h.Op == "index" && isAcc(h.Args[0]) && h.Args[1].IsConst("0"), gn, p.InstrPos(r), nthKey("get-master", i+1)+":the-one", "the host answered is the collected one", "returns "+h.String())
		c.Gate(gfa, r, nthKey("get-master", i+1)+":not-many", "a host is answered only if not more than one was collected (otherwise ErrManyMasters)", CmpLit("<=", func(t *Term) bool { return t.Op == "len" && isAcc(t.Args[0]) }, func(t *Term) bool { return t.IsConst("1") }))
		c.Gate(gfa, r, nthKey("get-master", i+1)+":not-none", "a host is answered only if one was collected", CmpLit("!=", func(t *Term) bool { return t.Op == "len" && isAcc(t.Args[0]) }, func(t *Term) bool { return t.IsConst("0") }))
	}
	// the many-masters error wraps the sentinel
	okMany := false
	for _, r := range Returns(G) {
		if len(r.Results) == 2 {
			t := p.T(r.Results[1])
			if call := ResultOf(t, -1); call != nil && p.IsCall(call, "fmt.Errorf") {
				for _, v := range c.eff.variadic(call.Call.Args[1]) {
					if p.T(v).Op == "global" && p.T(v).Name == "app.ErrManyMasters" {
						okMany = true
					}
				}
			}
		}
	}
	c.Req(okMany, gn, "-", "many-masters:sentinel", "more than one alive master is reported as ErrManyMasters", "")
}
