package main

import (
	"fmt"
	"strings"

	"golang.org/x/tools/go/ssa"
)

const (
	fnApproveFailover = "(*app.App).approveFailover"
	fnIssueFailover   = "(*app.App).IssueFailover"
	fnGetSwitch       = "(*app.App).GetCurrentSwitchover"
	fnGetMaint        = "(*app.App).GetMaintenance"
)

func init() {
	register("C05", "other",
		"The gating of the one function that files an automatic failover request, over all CFG paths of the manager iteration and of the approval function: "+
			"(SITES) from daemon roots the request key is created only by IssueFailover, with create-if-absent, cause=auto and transition=failover; "+
			"(GATES) each call site is below: approval returned nil, not light maintenance, no maintenance record, 'no pending request' (ErrNotFound, any other read error returns), and the master-health atom (health record not ok or read-only filesystem; or the crash-recovery atom with resetup enabled, >1 HA nodes and the master reachable); "+
			"(APPROVE) approval returns nil only if failover is enabled, the quorum check over the published active list and the alive active replicas passed, the cooldown since the last automatic failover elapsed (or there is no last switch), and — unless crash-recovery-with-resetup or read-only filesystem — not all other HA nodes are still replicating and the failure clock exceeded the delay; "+
			"(CLOCK) the failure clock is started only when unset and on the unhealthy edge, cleared on the healthy edge, and kept in process memory only; "+
			"(SUSPICIOUS) in the no-pending-request region every mutating call of the iteration is below the 'manager reaches the master' check or on the filing branch, and nothing mutating follows the first filing site.",
		"health histories across ticks and managers, durations ('bad at every evaluation for at least the delay' as a temporal fact)",
		runC05)
}

type mgrCtx struct {
	c       *Check
	M       *ssa.Function
	fa      *FuncAnalysis
	name    string
	master  ssa.Value // result #0 of getCurrentMaster
	dcsMap  ssa.Value // result #0 of getClusterStateFromDcs
	dbMap   ssa.Value // result of getClusterStateFromDB
	active  ssa.Value // result #0 of GetActiveNodes
	maint   ssa.Value // result #0 of GetMaintenance
}

func newMgrCtx(c *Check) *mgrCtx {
	p := c.p
	m := &mgrCtx{c: c, M: p.MustFunc(fnManager)}
	m.fa = p.FA(m.M)
	m.name = p.Name(m.M)
	one := func(names ...string) ssa.CallInstruction {
		cs := p.Calls(m.M, names...)
		if len(cs) != 1 {
			panic(AnchorError{fmt.Sprintf("single call of %s in %s (found %d)", names[0], m.name, len(cs))})
		}
		return cs[0]
	}
	extract := func(ci ssa.CallInstruction, idx int) ssa.Value {
		v := ci.(ssa.Value)
		for _, r := range *v.Referrers() {
			if ex, ok := r.(*ssa.Extract); ok && ex.Index == idx {
				return ex
			}
		}
		panic(AnchorError{fmt.Sprintf("result #%d of %s used in %s", idx, p.CalleeNames(ci)[0], m.name)})
	}
	m.master = extract(one("(*app.App).getCurrentMaster"), 0)
	m.dcsMap = extract(one("(*app.App).getClusterStateFromDcs"), 0)
	m.dbMap = one("(*app.App).getClusterStateFromDB").(ssa.Value)
	m.active = extract(one("(*app.App).GetActiveNodes"), 0)
	m.maint = extract(one(fnGetMaint), 0)
	return m
}

// stateOf matches lookup(<map>, master)
func (m *mgrCtx) stateOf(which ssa.Value) func(*Term) bool {
	return func(t *Term) bool {
		return t.Op == "lookup" && t.Args[0].V == which && t.Args[1].V == m.master
	}
}

// fieldOfState: boolean field f of the master's state in map `which` has value val.
func (m *mgrCtx) stateField(which ssa.Value, f string, val bool) LitPat {
	so := m.stateOf(which)
	return func(l Lit) bool {
		return l.Pos == val && l.T.IsField(f) && len(l.T.Args) == 1 && so(l.T.Args[0])
	}
}

func (m *mgrCtx) light(val bool) LitPat {
	p := m.c.p
	return func(l Lit) bool {
		if l.Pos != val {
			return false
		}
		isLight := func(t *Term) bool {
			return p.IsCall(t, "(*app.Maintenance).IsLightMode") && t.Args[0].V == m.maint
		}
		if isLight(l.T) {
			return true
		}
		if l.T.Op == "phi" {
			// materialised `maintenance != nil && maintenance.IsLightMode()`
			n := 0
			for _, a := range l.T.Args {
				if a.IsConst("false") {
					continue
				}
				if !isLight(a) {
					return false
				}
				n++
			}
			return n == 1
		}
		return false
	}
}

func (m *mgrCtx) noMaintenance() LitPat {
	return func(l Lit) bool { return l.T.Op == "isnil" && l.Pos && l.T.Args[0].V == m.maint }
}

func (m *mgrCtx) noPending() LitPat { return m.c.p.ErrIs(true, "dcs.ErrNotFound", fnGetSwitch) }

func (m *mgrCtx) unhealthy() LitPat {
	return AnyOf(m.stateField(m.dcsMap, "PingOk", false), m.stateField(m.dcsMap, "IsFileSystemReadonly", true))
}

func (m *mgrCtx) masterReachable() LitPat { return m.stateField(m.dbMap, "PingOk", true) }

// mutating reports whether the call may perform a statement that changes a node or
// a coordination write (timing bookkeeping excluded).
func (c *Check) mutatingCall(fn *ssa.Function, ci ssa.CallInstruction) bool {
	p := c.p
	for _, cal := range c.eff.calleesOf(ci, c.eff.rootEnv(fn), 0) {
		if !p.InModule(cal.Fn) {
			continue
		}
		for _, e := range c.eff.CollectEnv(cal, WalkOpts{}) {
			if sqlMutating(e) || (dcsWrite(e) && !strings.HasPrefix(e.Key, "timing")) {
				return true
			}
		}
	}
	if prim := c.eff.primitive(ci, c.eff.rootEnv(fn)); prim != nil {
		for _, e := range prim {
			if dcsWrite(e) && !strings.HasPrefix(e.Key, "timing") {
				return true
			}
		}
	}
	return false
}

func runC05(c *Check) {
	p := c.p
	m := newMgrCtx(c)
	fa, M, name := m.fa, m.M, m.name
	auto, _ := p.ConstString("internal/app", "CauseAuto")
	curSwitch, _ := p.ConstString("internal/app", "pathCurrentSwitch")

	c.Rule("C05.SITES", func() {
		n := 0
		for _, r := range c.DaemonRoots() {
			for _, e := range c.eff.Collect(r.Fn, WalkOpts{}) {
				if e.Kind != "DCS" || e.Key != curSwitch || !(e.Op == "Create" || e.Op == "CreateEphemeral") {
					continue
				}
				n++
				via := false
				for _, ch := range e.Chain {
					if ci, ok := ch.(ssa.CallInstruction); ok && p.siteIs(ci, fnIssueFailover) {
						via = true
					}
				}
				c.Req(via && e.Op == "Create", r.Name, p.InstrPos(e.Site), "create(switch) "+c.eff.ChainString(e)[:0]+p.InstrPos(e.Chain[0]), "the daemon creates the request key only through IssueFailover (plain create-if-absent)", "chain: "+c.eff.ChainString(e))
			}
		}
		c.Req(n > 0, name, "-", "create(switch):exists", "the daemon can file a request", "")
		f := p.MustFunc(fnIssueFailover)
		// the record that is filed
		var rec *ssa.Alloc
		for _, ci := range p.Calls(f, "(app.IAppDCS).CreateCurrentSwitchover") {
			if al, ok := ci.Common().Args[0].(*ssa.Alloc); ok {
				rec = al
			}
		}
		if rec == nil {
			panic(AnchorError{"CreateCurrentSwitchover(&record) in " + fnIssueFailover})
		}
		want := map[string]func(*Term) bool{
			"app.Switchover.Cause":            func(t *Term) bool { return t.IsConst(auto) },
			"app.Switchover.MasterTransition": func(t *Term) bool { return t.IsConst("failover") },
			"app.Switchover.From":             func(t *Term) bool { return t.Op == "param" && t.Name == "1" },
		}
		for fld, pred := range want {
			sts := p.FieldStores(rec, fld)
			ok := len(sts) == 1 && pred(p.T(sts[0]))
			c.Req(ok, p.Name(f), p.Pos(f.Pos()), "record:"+afterDot(fld), "the filed record has cause=auto, transition=failover and from=<failed master>", fmt.Sprintf("%d stores", len(sts)))
		}
		for _, s := range p.FieldStores(rec, "app.Switchover.To") {
			c.Req(p.T(s).IsConst(""), p.Name(f), p.Pos(f.Pos()), "record:To", "an automatic request names no target", "")
		}
		// no Set on the request key from the filing function
		for _, e := range c.eff.Collect(f, WalkOpts{}) {
			if dcsWrite(e) {
				c.Req(e.Op == "Create" && e.Key == curSwitch, p.Name(f), p.InstrPos(e.Site), "filing-effect "+e.String(), "filing performs a single create-if-absent on the request key", "")
			}
		}
	})

	sites := p.Calls(M, fnIssueFailover)
	var firstSite ssa.CallInstruction
	c.Rule("C05.GATES", func() {
		c.Req(len(sites) >= 1, name, "-", "filing-sites", "the manager iteration files failover requests", "")
		for i, s := range sites {
			k := func(x string) string { return nthKey("site", i+1) + ":" + x }
			var approve ssa.CallInstruction
			approved := func(l Lit) bool {
				if !p.NilErr(fnApproveFailover)(l) {
					return false
				}
				approve = callInstr(l)
				return approve != nil
			}
			if c.Gate(fa, s, k("approved"), "filing is gated by approveFailover returning nil", approved) {
				a := approve.Common().Args
				okargs := a[1] == m.dbMap && a[2] == m.dcsMap && a[3] == m.active && a[4] == m.master && s.Common().Args[1] == m.master
				c.Req(okargs, name, p.InstrPos(approve), k("approve-args"), "approval judges this iteration's state maps, the published active list and the recorded master — the same master the request is filed for", "")
			}
			c.Gate(fa, s, k("not-light"), "filing is suppressed under light maintenance", m.light(false))
			c.Gate(fa, s, k("no-maintenance"), "filing happens only when no maintenance record exists (full maintenance returns earlier)", m.noMaintenance())
			c.Gate(fa, s, k("no-pending"), "filing happens only when reading the request key answered 'not found'", m.noPending())
			okA, _ := fa.Gated(s, m.unhealthy())
			if okA {
				c.Hold(name, p.InstrPos(s), k("health-atom"), "health atom: the master's health record is not ok or reports a read-only filesystem")
				firstSite = s
				continue
			}
			// crash-recovery site
			okB := true
			var miss []string
			chk := func(what string, pat LitPat) {
				if ok, _ := fa.Gated(s, pat); !ok {
					okB = false
					miss = append(miss, what)
				}
			}
			chk("resetup enabled", FieldLit(true, "ResetupCrashedHosts"))
			chk(">1 HA nodes", CmpLit("<", func(t *Term) bool { return t.IsConst("1") }, func(t *Term) bool {
				return p.IsCall(t, "app.countHANodes") && t.Args[0].V == m.dbMap
			}))
			chk("crash recovery reported by the master's health record", func(l Lit) bool {
				return l.Pos && l.T.IsField("CrashRecovery") && l.T.Args[0].IsField("DaemonState") && m.stateOf(m.dcsMap)(l.T.Args[0].Args[0])
			})
			chk("manager reaches the master", m.masterReachable())
			c.Req(okB, name, p.InstrPos(s), k("health-atom"), "health atom: unhealthy health record, or (resetup enabled ∧ >1 HA nodes ∧ crash recovery reported ∧ master reachable)", "missing: "+join(miss))
		}
	})

	c.Rule("C05.APPROVE", func() {
		f := p.MustFunc(fnApproveFailover)
		ffa := p.FA(f)
		fname := p.Name(f)
		master := func(t *Term) bool { return t.Op == "param" && t.Name == "4" }
		dcsState := func(t *Term) bool {
			return t.Op == "lookup" && t.Args[0].Op == "param" && t.Args[0].Name == "2" && master(t.Args[1])
		}
		fsro := func(l Lit) bool {
			return l.Pos && l.T.IsField("IsFileSystemReadonly") && dcsState(l.T.Args[0])
		}
		crash := func(l Lit) bool {
			return l.Pos && l.T.IsField("CrashRecovery") && l.T.Args[0].IsField("DaemonState") && dcsState(l.T.Args[0].Args[0])
		}
		running := func(t *Term) bool {
			return p.IsCall(t, "app.countRunningHASlaves") && t.Args[0].Op == "param" && t.Args[0].Name == "1"
		}
		haMinus1 := func(t *Term) bool {
			return t.Op == "bin" && t.Name == "-" && p.IsCall(t.Args[0], "app.countHANodes") && t.Args[0].Args[0].Op == "param" && t.Args[0].Args[0].Name == "1" && t.Args[1].IsConst("1")
		}
		failing := func(t *Term) bool {
			if !p.IsCall(t, "time.Since") {
				return false
			}
			g := t.Args[0]
			return p.IsCall(g, "(*app.Timings).Get") && g.Args[1].IsConst("nodeFailedAt") && master(g.Args[2])
		}
		notFound := p.ErrIs(true, "dcs.ErrNotFound", "(app.IAppDCS).GetLastSwitchover")
		lastRec := func(t *Term) bool { return t.Op == "alloc" || t.Op == "cell" || t.Op == "call" || true }
		_ = lastRec
		sites := c.SuccessSites(f, 0, "nil")
		c.Req(len(sites) > 0, fname, "-", "approve:has-nil", "approval can succeed", "")
		for i, rs := range sites {
			k := func(x string) string { return nthKey("nil", i+1) + ":" + x }
			c.Gate(ffa, rs.At, k("enabled"), "approval requires automatic failover to be enabled", FieldLit(true, "Failover"))
			quorum := func(l Lit) bool {
				if !p.NilErr(fnQuorum)(l) {
					return false
				}
				ci := callInstr(l)
				if ci == nil {
					return false
				}
				_, a := recvArgs(ci)
				list, cnt := p.T(a[0]), p.T(a[1])
				return list.Op == "param" && list.Name == "3" && p.IsCall(cnt, "app.countAliveHASlavesWithinNodes") &&
					cnt.Args[0].Op == "param" && cnt.Args[0].Name == "3" && cnt.Args[1].Op == "param" && cnt.Args[1].Name == "1"
			}
			c.Gate(ffa, rs.At, k("quorum"), "approval requires the failover quorum among the alive replicas of the published active list", quorum)
			c.Gate(ffa, rs.At, k("cooldown:read"), "approval requires the last-switch record to be absent or read without error", notFound, p.NilErr("(app.IAppDCS).GetLastSwitchover"))
			c.Gate(ffa, rs.At, k("cooldown:finished"), "approval requires the last switch to be absent or finished", notFound, func(l Lit) bool {
				return l.T.Op == "isnil" && !l.Pos && l.T.Args[0].IsField("Result")
			})
			cool := CmpLit("<=", func(t *Term) bool { return t.IsField("FailoverCooldown") }, func(t *Term) bool {
				return p.IsCall(t, "time.Since") && t.Args[0].IsField("FinishedAt")
			})
			notAuto := CmpLit("!=", func(t *Term) bool { return t.IsField("Cause") }, func(t *Term) bool { return t.IsConst(auto) })
			c.Gate(ffa, rs.At, k("cooldown:elapsed"), "approval requires the cooldown since the last automatic failover to have elapsed", notFound, cool, notAuto)
			// delay / replication heuristic unless crash recovery (with resetup) or read-only filesystem
			noneRunning := CmpLit("<=", running, func(t *Term) bool { return t.IsConst("0") })
			notAll := CmpLit("!=", running, haMinus1)
			c.Gate(ffa, rs.At, k("not-all-replicating"), "approval requires that not every other HA node is still replicating (unless crash recovery or read-only filesystem)", crash, fsro, noneRunning, notAll)
			c.Gate(ffa, rs.At, k("crash-needs-resetup"), "the crash-recovery shortcut requires resetup of crashed hosts to be enabled", FieldLit(true, "ResetupCrashedHosts"), fsro, noneRunning, notAll)
			noDelay := CmpLit("<=", func(t *Term) bool { return t.IsField("FailoverDelay") }, func(t *Term) bool { return t.IsConst("0") })
			elapsed := CmpLit("<=", func(t *Term) bool { return t.IsField("FailoverDelay") }, failing)
			c.Gate(ffa, rs.At, k("delay"), "approval requires the failure clock to exceed the failover delay (unless crash recovery or read-only filesystem)", crash, fsro, noDelay, elapsed)
			c.Gate(ffa, rs.At, k("delay:crash-needs-resetup"), "the crash-recovery shortcut of the delay requires resetup to be enabled", FieldLit(true, "ResetupCrashedHosts"), fsro, noDelay, elapsed)
		}
	})

	c.Rule("C05.CLOCK", func() {
		isClock := func(ci ssa.CallInstruction) bool {
			a := ci.Common().Args
			return len(a) >= 3 && p.T(a[1]).IsConst("nodeFailedAt") && a[2] == m.master
		}
		n := 0
		for _, ci := range p.Calls(M, "(*app.Timings).Set") {
			if !isClock(ci) {
				continue
			}
			n++
			unset := func(l Lit) bool {
				if !l.Pos || !p.IsCall(l.T, "(time.Time).IsZero") {
					return false
				}
				g := l.T.Args[0]
				return p.IsCall(g, "(*app.Timings).Get") && g.Args[1].IsConst("nodeFailedAt") && g.Args[2].V == m.master
			}
			c.Gate(fa, ci, nthKey("clock-set", n)+":only-if-unset", "the failure clock is started only when it is not running", unset)
			c.Gate(fa, ci, nthKey("clock-set", n)+":unhealthy", "the failure clock is started only on the unhealthy-master edge", m.unhealthy())
		}
		c.Req(n >= 1, name, "-", "clock-set", "the failure clock is started somewhere", "")
		k := 0
		for _, ci := range p.Calls(M, "(*app.Timings).Clean") {
			if !isClock(ci) {
				continue
			}
			k++
			c.Gate(fa, ci, nthKey("clock-clean", k)+":healthy-ping", "the failure clock is cleared only when the health record is ok", m.stateField(m.dcsMap, "PingOk", true))
			c.Gate(fa, ci, nthKey("clock-clean", k)+":healthy-fs", "the failure clock is cleared only when the filesystem is writable", m.stateField(m.dcsMap, "IsFileSystemReadonly", false))
		}
		c.Req(k >= 1, name, "-", "clock-clean", "the failure clock is cleared on the healthy edge", "")
		// healthy edge must clear a running clock before going on
		for _, b := range M.Blocks {
			for si := range b.Succs {
				for _, l := range fa.EdgeLits(b, si) {
					if m.stateField(m.dcsMap, "IsFileSystemReadonly", false)(l) {
						isZero := func(l Lit) bool { return l.Pos && p.IsCall(l.T, "(time.Time).IsZero") }
						path, _ := fa.ReachFromEdge(b, si, func(in ssa.Instruction) bool {
							if _, ok := in.(*ssa.Return); ok {
								return true
							}
							ci, ok := in.(ssa.CallInstruction)
							return ok && p.siteIs(ci, "(*app.App).repairOfflineMode", "(*app.App).repairCluster", "(*app.App).updateActiveNodes")
						}, ReachOpts{Cut: []LitPat{isZero}, Barrier: func(in ssa.Instruction) bool {
							ci, ok := in.(ssa.CallInstruction)
							return ok && p.siteIs(ci, "(*app.Timings).Clean") && isClock(ci)
						}})
						c.Req(path == nil, name, p.InstrPos(blockIf(b)), "healthy-edge:clears-clock", "on the healthy edge a running failure clock is cleared before the iteration continues", "path: "+fa.PathString(path))
					}
				}
			}
		}
		// the clock is process memory only
		for _, fnm := range []string{"(*app.Timings).Set", "(*app.Timings).SetIfZero", "(*app.Timings).Clean", "(*app.Timings).Get"} {
			f := p.MustFunc(fnm)
			effs := c.eff.Collect(f, WalkOpts{})
			c.Req(len(effs) == 0, fnm, p.Pos(f.Pos()), "memory-only", "the clock lives in process memory only (a new manager starts from zero)", fmt.Sprintf("%d effects", len(effs)))
		}
	})

	c.Rule("C05.SUSPICIOUS", func() {
		n := 0
		for _, b := range M.Blocks {
			for _, in := range b.Instrs {
				ci, ok := in.(ssa.CallInstruction)
				if !ok {
					continue
				}
				// region: after the request key was read, outside the request-processing branch
				// (request / maintenance regions are judged by C06 / C09)
				if pre, _ := fa.PrecededBy(ci, isCallTo(p, fnGetSwitch)); !pre || p.siteIs(ci, fnGetSwitch) {
					continue
				}
				if g, _ := fa.Gated(ci, p.NilErr(fnGetSwitch)); g {
					continue
				}
				if !c.mutatingCall(M, ci) {
					continue
				}
				n++
				c.Gate(fa, ci, nthKey("mutating "+p.CalleeNames(ci)[0], n), "in the no-pending-request region a mutating call is on the filing branch (unhealthy health record) or below 'the manager reaches the master'", m.unhealthy(), m.masterReachable())
			}
		}
		c.Req(n >= 5, name, "-", "mutating-calls", "the region contains the repair/update/sync calls", fmt.Sprintf("%d mutating calls found", n))
		if firstSite != nil {
			path, hit := fa.ReachAfter(firstSite, func(in ssa.Instruction) bool {
				ci, ok := in.(ssa.CallInstruction)
				return ok && c.mutatingCall(M, ci)
			}, ReachOpts{})
			det := ""
			if hit != nil {
				det = p.InstrPos(hit) + " via " + fa.PathString(path)
			}
			c.Req(path == nil, name, p.InstrPos(firstSite), "first-site:returns", "after filing for an unhealthy master nothing mutating is reachable in the same iteration", det)
			// and on the whole unhealthy branch (approved or not) no repair is reachable
		}
		// unhealthy edge (not light): nothing but the filing is reachable
		for _, b := range M.Blocks {
			for si := range b.Succs {
				for _, l := range fa.EdgeLits(b, si) {
					if !m.stateField(m.dcsMap, "PingOk", false)(l) {
						continue
					}
					path, hit := fa.ReachFromEdge(b, si, func(in ssa.Instruction) bool {
						ci, ok := in.(ssa.CallInstruction)
						return ok && !p.siteIs(ci, fnIssueFailover) && c.mutatingCall(M, ci)
					}, ReachOpts{Cut: []LitPat{m.light(true)}})
					det := ""
					if hit != nil {
						det = p.InstrPos(hit) + " via " + fa.PathString(path)
					}
					c.Req(path == nil, name, p.InstrPos(blockIf(b)), "unhealthy-edge:no-repair", "outside light maintenance an unhealthy master leads to filing-or-nothing, never to repairs", det)
				}
			}
		}
	})
}
