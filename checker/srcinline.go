package main

// A second, more aggressive source-level inliner for the normalisation step (engine E13). The x/tools inliner gives up on
// callees with several returns or loops (it wraps them in a function literal, which hides the body from the intraprocedural
// engines just as the helper did). Extracted helpers almost always have that shape, so for calls in the simple statement
// positions
//
//     H(args)            x, y := H(args)      x, y = H(args)      return H(args)      if [!]H(args) { … }
//
// the call is replaced by the callee's body in place:
//
//     { recv_h := recvExpr; p1_h := a1; …      // arguments evaluated once, left to right, in the caller's scope
//       var r1_h T1; …                           // result slots
//       L_h: switch { default:                   // a labelled one-case switch: `break L_h` leaves the inlined body
//            <body, every `return e1, e2` ⇒ `r1_h, r2_h = e1, e2; break L_h`>
//       }
//       x, y := r1_h, r2_h }                     // (the assignment form keeps the caller's own statement shape)
//
// Every identifier the callee declares (parameters, receiver, results, locals, labels) gets a unique suffix, so nothing is
// captured or shadowed. Refused (the helper is then kept as a call): callees with defer/recover/goto, with closures that
// return (a `return` inside a function literal is left alone — only top-level returns are rewritten), variadic calls with
// `...`, generic callees, calls from another package, and calls in any other expression position.

import (
	"bytes"
	"fmt"
	"go/ast"
	"go/format"
	"go/parser"
	"go/printer"
	"go/token"
	"go/types"
	"strings"

	"golang.org/x/tools/go/ast/astutil"
)

var srcInlineCounter int

type srcInlineError struct{ why string }

func (e srcInlineError) Error() string { return e.why }

// srcInline returns the new content of the caller's file with the given call statement replaced, or an error.
func srcInline(fset *token.FileSet, callerInfo *types.Info, callerPkg *types.Package, callerFile *ast.File, call *ast.CallExpr, callerContent []byte,
	calleeInfo *types.Info, calleeDecl *ast.FuncDecl, calleeFset *token.FileSet) ([]byte, error) {
	if callerPkg != calleeInfo.Defs[calleeDecl.Name].Pkg() {
		return nil, srcInlineError{"call from another package"}
	}
	if call.Ellipsis.IsValid() {
		return nil, srcInlineError{"variadic spread"}
	}
	fnObj := calleeInfo.Defs[calleeDecl.Name].(*types.Func)
	sig := fnObj.Type().(*types.Signature)
	if sig.TypeParams().Len() > 0 || sig.RecvTypeParams().Len() > 0 || sig.Variadic() {
		return nil, srcInlineError{"generic or variadic callee"}
	}
	// refuse defer / recover / goto / labels used by goto in the callee
	bad := ""
	ast.Inspect(calleeDecl.Body, func(n ast.Node) bool {
		switch x := n.(type) {
		case *ast.DeferStmt:
			bad = "defer in the callee"
		case *ast.BranchStmt:
			if x.Tok == token.GOTO {
				bad = "goto in the callee"
			}
		case *ast.CallExpr:
			if id, ok := x.Fun.(*ast.Ident); ok && id.Name == "recover" {
				bad = "recover in the callee"
			}
		}
		return true
	})
	if bad != "" {
		return nil, srcInlineError{bad}
	}
	// the statement that holds the call
	path, _ := astutil.PathEnclosingInterval(callerFile, call.Pos(), call.End())
	var stmt ast.Stmt
	var parent ast.Node
	for i, n := range path {
		if s, ok := n.(ast.Stmt); ok {
			stmt = s
			if i+1 < len(path) {
				parent = path[i+1]
			}
			break
		}
	}
	if stmt == nil {
		return nil, srcInlineError{"call outside a statement"}
	}
	srcInlineCounter++
	sfx := fmt.Sprintf("_h%d", srcInlineCounter)
	label := "L" + sfx

	// rename every object declared inside the callee
	ren := map[types.Object]string{}
	for id, obj := range calleeInfo.Defs {
		if obj == nil || id.Pos() < calleeDecl.Pos() || id.Pos() > calleeDecl.End() || obj == types.Object(fnObj) {
			continue
		}
		if id.Name == "_" {
			continue
		}
		ren[obj] = id.Name + sfx
	}
	// implicit objects (type switch symbols)
	for n, obj := range calleeInfo.Implicits {
		if n.Pos() >= calleeDecl.Pos() && n.Pos() <= calleeDecl.End() && obj != nil && obj.Name() != "_" && obj.Name() != "" {
			if _, isPkg := obj.(*types.PkgName); !isPkg {
				ren[obj] = obj.Name() + sfx
			}
		}
	}
	qual := func(p *types.Package) string {
		if p == callerPkg {
			return ""
		}
		// the package must be imported in the caller's file under its own name
		for _, imp := range callerFile.Imports {
			ip := strings.Trim(imp.Path.Value, `"`)
			if ip == p.Path() {
				if imp.Name != nil {
					return imp.Name.Name
				}
				return p.Name()
			}
		}
		return "\x00" + p.Path() // not imported: refuse below
	}
	typeStr := func(t types.Type) (string, error) {
		s := types.TypeString(t, qual)
		if strings.Contains(s, "\x00") {
			return "", srcInlineError{"a result/parameter type needs an import the caller's file does not have"}
		}
		return s, nil
	}

	// result slots
	var resNames []string
	var decls []string
	res := sig.Results()
	for i := 0; i < res.Len(); i++ {
		name := fmt.Sprintf("r%d%s", i, sfx)
		if v := res.At(i); v.Name() != "" && v.Name() != "_" {
			name = v.Name() + sfx // named result: same renamed identifier the body uses
		}
		ts, err := typeStr(res.At(i).Type())
		if err != nil {
			return nil, err
		}
		resNames = append(resNames, name)
		decls = append(decls, fmt.Sprintf("var %s %s", name, ts))
	}
	// parameter bindings (typed, so untyped constants and nil get the parameter's type)
	var binds []string
	if sig.Recv() != nil {
		sel, ok := call.Fun.(*ast.SelectorExpr)
		if !ok {
			return nil, srcInlineError{"method call without a selector"}
		}
		rv := sig.Recv()
		rname := "_"
		if rv.Name() != "" && rv.Name() != "_" {
			rname = rv.Name() + sfx
		}
		recvSrc := nodeSrc(fset, sel.X)
		// automatic address-taking / dereference
		at := callerInfo.TypeOf(sel.X)
		_, wantPtr := rv.Type().(*types.Pointer)
		_, havePtr := at.Underlying().(*types.Pointer)
		if wantPtr && !havePtr {
			recvSrc = "&(" + recvSrc + ")"
		} else if !wantPtr && havePtr {
			recvSrc = "*(" + recvSrc + ")"
		}
		ts, err := typeStr(rv.Type())
		if err != nil {
			return nil, err
		}
		binds = append(binds, fmt.Sprintf("var %s %s = %s", rname, ts, recvSrc))
		if rname != "_" {
			binds = append(binds, "_ = "+rname)
		}
	}
	if len(call.Args) != sig.Params().Len() {
		// f(g()) with a multi-value g
		return nil, srcInlineError{"argument count differs from parameter count"}
	}
	for i, a := range call.Args {
		pv := sig.Params().At(i)
		pname := "_"
		if pv.Name() != "" && pv.Name() != "_" {
			pname = pv.Name() + sfx
		}
		ts, err := typeStr(pv.Type())
		if err != nil {
			return nil, err
		}
		binds = append(binds, fmt.Sprintf("var %s %s = %s", pname, ts, nodeSrc(fset, a)))
		if pname != "_" {
			binds = append(binds, "_ = "+pname)
		}
	}

	// the body with renamed identifiers and rewritten top-level returns
	body, nret, err := renderBody(calleeFset, calleeInfo, calleeDecl, ren, resNames, label)
	if err != nil {
		return nil, err
	}

	var sb strings.Builder
	sb.WriteString("{\n")
	for _, b := range binds {
		sb.WriteString(b + "\n")
	}
	for _, d := range decls {
		sb.WriteString(d + "\n")
	}
	for _, r := range resNames {
		sb.WriteString("_ = " + r + "\n")
	}
	if nret > 0 {
		sb.WriteString(label + ":\nswitch {\ndefault:\n" + body + "\n}\n")
	} else {
		sb.WriteString("{\n" + body + "\n}\n")
	}
	results := strings.Join(resNames, ", ")

	start, end := stmt.Pos(), stmt.End()
	tail := "" // code after the inlined block but inside it (uses the result slots)
	closeBlock := "}\n"
	switch s := stmt.(type) {
	case *ast.ExprStmt:
		if s.X != ast.Expr(call) {
			return nil, srcInlineError{"call nested in an expression"}
		}
	case *ast.AssignStmt:
		if len(s.Rhs) != 1 || s.Rhs[0] != ast.Expr(call) {
			return nil, srcInlineError{"call nested in an assignment"}
		}
		var lhs []string
		for _, l := range s.Lhs {
			lhs = append(lhs, nodeSrc(fset, l))
		}
		if s.Tok == token.DEFINE {
			// the new variables must live in the caller's scope: declare them before the block
			pre := ""
			for i, l := range s.Lhs {
				id, ok := l.(*ast.Ident)
				if !ok {
					return nil, srcInlineError{"unusual := target"}
				}
				if id.Name == "_" {
					continue
				}
				if obj := callerInfo.Defs[id]; obj != nil { // newly declared here
					ts, err := typeStr(obj.Type())
					if err != nil {
						return nil, err
					}
					pre += fmt.Sprintf("var %s %s\n", id.Name, ts)
					_ = i
				}
			}
			tail = strings.Join(lhs, ", ") + " = " + results + "\n"
			out := pre + sb.String() + tail + closeBlock
			return splice(fset, callerFile, callerContent, start, end, out)
		}
		tail = strings.Join(lhs, ", ") + " " + s.Tok.String() + " " + results + "\n"
	case *ast.ReturnStmt:
		if len(s.Results) != 1 || s.Results[0] != ast.Expr(call) {
			return nil, srcInlineError{"call nested in a return"}
		}
		tail = "return " + results + "\n"
	case *ast.IfStmt:
		cond := s.Cond
		neg := false
		if u, ok := cond.(*ast.UnaryExpr); ok && u.Op == token.NOT {
			cond, neg = u.X, true
		}
		if p, ok := cond.(*ast.ParenExpr); ok {
			cond = p.X
		}
		if cond != ast.Expr(call) || s.Init != nil || len(resNames) != 1 {
			return nil, srcInlineError{"call nested in a condition"}
		}
		// only the condition is replaced: `{ …; if [!]r { … } else … }`
		c := resNames[0]
		if neg {
			c = "!" + c
		}
		rest := string(callerContent[offset(fset, callerFile, s.Body.Pos()):offset(fset, callerFile, s.End())])
		out := sb.String() + "if " + c + " " + rest + "\n" + closeBlock
		_ = parent
		return splice(fset, callerFile, callerContent, start, end, out)
	default:
		return nil, srcInlineError{fmt.Sprintf("call in a %T", stmt)}
	}
	out := sb.String() + tail + closeBlock
	return splice(fset, callerFile, callerContent, start, end, out)
}

func parserParse(fs *token.FileSet, src string) (*ast.File, error) {
	return parser.ParseFile(fs, "", src, parser.SkipObjectResolution)
}

func offset(fset *token.FileSet, f *ast.File, p token.Pos) int { return fset.File(f.Pos()).Offset(p) }

func nodeSrc(fset *token.FileSet, n ast.Node) string {
	var buf bytes.Buffer
	_ = printer.Fprint(&buf, fset, n)
	return buf.String()
}

func splice(fset *token.FileSet, f *ast.File, content []byte, start, end token.Pos, repl string) ([]byte, error) {
	s, e := offset(fset, f, start), offset(fset, f, end)
	out := append(append(append([]byte{}, content[:s]...), []byte(repl)...), content[e:]...)
	fm, err := format.Source(out)
	if err != nil {
		return nil, srcInlineError{"the rewritten file does not parse: " + err.Error()}
	}
	return fm, nil
}

// renderBody prints the callee's statements with renamed identifiers; top-level returns become assignments + break.
func renderBody(fset *token.FileSet, info *types.Info, decl *ast.FuncDecl, ren map[types.Object]string, resNames []string, label string) (string, int, error) {
	// rename in place, print, restore
	type saved struct {
		id   *ast.Ident
		name string
	}
	var undo []saved
	ast.Inspect(decl.Body, func(n ast.Node) bool {
		id, ok := n.(*ast.Ident)
		if !ok {
			return true
		}
		obj := info.Uses[id]
		if obj == nil {
			obj = info.Defs[id]
		}
		if nn, ok := ren[obj]; ok && obj != nil {
			undo = append(undo, saved{id, id.Name})
			id.Name = nn
		}
		return true
	})
	// type-switch guards `switch x := v.(type)`: the implicit per-clause objects share the symbol's name
	ast.Inspect(decl.Body, func(n ast.Node) bool {
		ts, ok := n.(*ast.TypeSwitchStmt)
		if !ok {
			return true
		}
		if as, ok := ts.Assign.(*ast.AssignStmt); ok && len(as.Lhs) == 1 {
			if id, ok := as.Lhs[0].(*ast.Ident); ok && id.Name != "_" && !strings.Contains(id.Name, "_h") {
				// rename the symbol and its uses inside the clauses
				old := id.Name
				newName := ""
				for _, cl := range ts.Body.List {
					if obj := info.Implicits[cl]; obj != nil {
						newName = ren[obj]
					}
				}
				if newName != "" {
					undo = append(undo, saved{id, old})
					id.Name = newName
				}
			}
		}
		return true
	})
	defer func() {
		for _, u := range undo {
			u.id.Name = u.name
		}
	}()
	// rewrite returns: collect positions of top-level (not inside FuncLit) return statements
	var out strings.Builder
	var err error
	// simplest: print the whole body, then textually replace the return statements found by position, last first
	var buf bytes.Buffer
	if e := printer.Fprint(&buf, fset, decl.Body); e != nil {
		return "", 0, e
	}
	// Re-parse the printed body to get fresh positions for the rewrite
	src := "package p\nfunc _() " + buf.String()
	fs2 := token.NewFileSet()
	f2, e := parserParse(fs2, src)
	if e != nil {
		return "", 0, srcInlineError{"cannot re-parse the renamed body: " + e.Error()}
	}
	body2 := f2.Decls[0].(*ast.FuncDecl).Body
	type rep struct {
		s, e int
		txt  string
	}
	var reps []rep
	var walk func(n ast.Node, inLit bool)
	walk = func(n ast.Node, inLit bool) {
		ast.Inspect(n, func(m ast.Node) bool {
			switch x := m.(type) {
			case *ast.FuncLit:
				return false // returns inside literals stay
			case *ast.ReturnStmt:
				var rhs []string
				for _, r := range x.Results {
					rhs = append(rhs, nodeSrc(fs2, r))
				}
				txt := ""
				switch {
				case len(resNames) == 0:
					txt = "break " + label
				case len(rhs) == 0: // bare return with named results
					txt = "break " + label
				case len(rhs) == len(resNames):
					txt = strings.Join(resNames, ", ") + " = " + strings.Join(rhs, ", ") + "; break " + label
				case len(rhs) == 1: // return f() with a multi-value f
					txt = strings.Join(resNames, ", ") + " = " + rhs[0] + "; break " + label
				default:
					err = srcInlineError{"unusual return"}
				}
				reps = append(reps, rep{fs2.Position(x.Pos()).Offset, fs2.Position(x.End()).Offset, "{ " + txt + " }"})
				return false
			}
			return true
		})
	}
	walk(body2, false)
	if err != nil {
		return "", 0, err
	}
	b := []byte(src)
	for i := len(reps) - 1; i >= 0; i-- {
		r := reps[i]
		b = append(append(append([]byte{}, b[:r.s]...), []byte(r.txt)...), b[r.e:]...)
	}
	// strip the wrapper: take what is between the first '{' after "func _() " and the last '}'
	s := string(b)
	i := strings.Index(s, "func _() {")
	j := strings.LastIndex(s, "}")
	if i < 0 || j < 0 {
		return "", 0, srcInlineError{"cannot unwrap the renamed body"}
	}
	out.WriteString(s[i+len("func _() {") : j])
	return out.String(), len(reps), nil
}
