package main

import (
	"encoding/json"
	"math/big"
	"flag"
	"fmt"
	"os"
	"path/filepath"
	"runtime/debug"
	"sort"
	"strconv"
	"strings"
	"time"

	"golang.org/x/tools/go/ssa"
)

type Obligation struct {
	Rule      string `json:"rule"`
	Func      string `json:"function"`
	Site      string `json:"site"`
	Construct string `json:"construct"`
	Desc      string `json:"what"`
	OK        bool   `json:"holds"`
	Kind      string `json:"kind,omitempty"` // VIOLATION UNDECIDED ANCHOR-UNRESOLVED VACUOUS
	Detail    string `json:"detail,omitempty"`
	Known     string `json:"known_finding,omitempty"`
}

func (o Obligation) Key() string { return o.Rule + "@" + o.Func + ":" + o.Construct }

type Check struct {
	Prop  string
	Tier  string
	p     *Prog
	eff   *Effects
	obs   []Obligation
	cur   string
	curN  int
	notes []string
	extra map[string]any
	paths, pathsGated *big.Int
	pathTargets       int
}

func (c *Check) add(o Obligation) {
	if o.Rule == "" {
		o.Rule = c.cur
	}
	c.curN++
	c.obs = append(c.obs, o)
}

// Hold records a discharged obligation.
func (c *Check) Hold(fn, site, construct, desc string) {
	c.add(Obligation{Func: fn, Site: site, Construct: construct, Desc: desc, OK: true})
}

// Fail records a violated obligation.
func (c *Check) Fail(fn, site, construct, desc, detail string) {
	c.add(Obligation{Func: fn, Site: site, Construct: construct, Desc: desc, OK: false, Kind: "VIOLATION", Detail: detail})
}

func (c *Check) Undecided(fn, site, construct, desc, detail string) {
	c.add(Obligation{Func: fn, Site: site, Construct: construct, Desc: desc, OK: false, Kind: "UNDECIDED", Detail: detail})
}

// Req records ok ? Hold : Fail.
func (c *Check) Req(ok bool, fn, site, construct, desc, detail string) bool {
	if ok {
		c.Hold(fn, site, construct, desc)
	} else {
		c.Fail(fn, site, construct, desc, detail)
	}
	return ok
}

func (c *Check) Note(format string, a ...any) { c.notes = append(c.notes, fmt.Sprintf(format, a...)) }

// Rule runs one rule; an unresolved anchor or a rule without instances fails it.
func (c *Check) Rule(id string, body func()) {
	c.cur = id
	c.curN = 0
	func() {
		defer func() {
			if r := recover(); r != nil {
				if ae, ok := r.(AnchorError); ok {
					c.add(Obligation{Func: ae.Name, Site: "-", Construct: "anchor", Desc: "anchor resolves in the current tree", OK: false, Kind: "ANCHOR-UNRESOLVED", Detail: ae.Error()})
					return
				}
				panic(r)
			}
		}()
		body()
	}()
	if c.curN == 0 {
		c.add(Obligation{Func: "-", Site: "-", Construct: "vacuous", Desc: "rule has at least one instance", OK: false, Kind: "VACUOUS", Detail: "rule matched no instance in the current tree"})
	}
	c.cur = ""
}

// ---------------------------------------------------------------------------

type knownFile struct {
	Known []struct {
		Property string `json:"property"`
		Key      string `json:"key"`
		What     string `json:"what"`
	} `json:"known"`
	Fixed []struct {
		Property string `json:"property"`
		Commit   string `json:"commit"`
		What     string `json:"what"`
	} `json:"fixed"`
}

func verifDir() string {
	if d := os.Getenv("VERIF_DIR"); d != "" {
		return d
	}
	return "/verif"
}

func loadKnown() knownFile {
	var kf knownFile
	b, err := os.ReadFile(filepath.Join(verifDir(), "known_findings.json"))
	if err != nil {
		return kf
	}
	if err := json.Unmarshal(b, &kf); err != nil {
		broken("known_findings.json: %v", err)
	}
	return kf
}

type propInfo struct {
	Level       string
	Explanation string
	NotDecided  string
	Run         func(c *Check)
}

var props = map[string]*propInfo{}

func register(id, level, explanation, notDecided string, run func(c *Check)) {
	if more, ok := addedClauses[id]; ok {
		explanation += " Added after the independently seeded changes (DESIGN.md section 11): " + more
	}
	if nd, ok := notDecidedOverride[id]; ok {
		notDecided = nd
	}
	props[id] = &propInfo{Level: level, Explanation: explanation, NotDecided: notDecided, Run: run}
}

// addedClauses: what the rules of rules_extra.go (and the extensions of existing rules made for seeded changes) decide.
var addedClauses = map[string]string{
	"C01": "(g1) the only host ever left out of the freeze is the old master, and only for an automatic request that moves away from exactly that host.",
	"C02": "(NOLOSS) nothing is promoted before the catch-up wait on it answered true without error, whichever host was chosen; (RELEASE) a fenced master is taken offline BEFORE its semi-sync is disabled, so a commit blocked on an acknowledgement is cut, never acknowledged; (FENCE-OLD) nothing is promoted while an alive old master could not be made read-only unless the request's transition is 'failover' (an unset transition counts as a planned switch), and that rejection is recorded.",
	"C04": "(ADJUST) the master adjustment reports success only if BOTH the wait count equals the requested one (it did, or setting it succeeded) and the plugin is on (it was, or enabling succeeded); for a zero count, only if it is off.",
	"C06": "(WRITERS) writers are judged per call chain, so the filing helper using an overwriting set is reported although start/fail bookkeeping legitimately reach the same write site.",
	"C07": "(REFREEZE) = C01.g1's filter gates: on a resumed failover the recorded master is the new one and is frozen like everybody else; (MARK) = C11.ORDER: marking publishes the list without exactly the marked host before the mark is created, so a crash between the two writes leaves a list the successor can approve with.",
	"C08": "(ERRID) error identity: the errors tested with errors.Is(DeadlineExceeded) / errors.As(MySQLError) in the lost handler reach the test with their chain intact through every in-module function on the return path (returned as is or wrapped with %w).",
	"C09": "(LIGHT) approval, start and the switchover procedure are reached only outside light mode or for a transition other than 'failover' — whatever the cause of the request.",
	"C10": "(SYNC) a registered host that is no longer listed in the coordination service is removed from the registry on every path that continues the refresh, the local host included; (UNFENCE, must) when read-only is not needed, writing is allowed and the master is read-only (whatever its super flag) every path makes it writable; an offline, unmarked master is brought online on every path.",
	"C13": "(SCAN) the maximal-element search indexes the very slice whose length bounds its index, from the first unexamined element; (CURSOR) proof obligations on the interval subtraction, decided by Fourier–Motzkin entailment from the branch facts that dominate each site: the subtrahend cursor is advanced only past an interval with b[bi].Stop <= iv.Stop, every emitted piece is non-empty and ends within the current minuend interval, the position variable is only ever the minuend's start or a subtrahend's end, the cursor is monotone, the inputs are not written.",
	"C14": "(SCAN) the highest-priority search examines every element; (BOUNDSRC) frozen table of which configured bound each caller hands to the chooser (promotion: the switch helper's priority-choice max lag, filled from priority_choice_max_lag / async_allowed_lag; optimisation: the high replication mark).",
	"C15": "(ORDER) order-polarity typestate of makePath: ancestors are probed deepest-first and created top-down (tracking slices.Reverse on the very slice each loop walks); (IDENTITY) every errors.Is/As test against a coordination sentinel (dcs.Err*, zk.Err*) anywhere in the module receives an error whose chain is intact through all in-module functions on the return path; (SESSION) = C03.SESSION.",
	"C16": "(FLAG) every state handed out by the state collector carries the cascade flag, on every return path, as the registry's answer for this host.",
	"C17": "(COUNTED) once the offline statement succeeded the zone's pending count is incremented on every path out of the function; (STAMP) advancing the interval stamp overwrites the key with the current time and the wrapper returns that write's result.",
	"C20": "(NILESCAPE) a registry handle looked up with a name that is not registry-derived does not leave the function that looked it up (interface conversion, slice/field store, argument, return) without a presence test — the typed-nil hazard NILKEY cannot see.",
}

var notDecidedOverride = map[string]string{
	"C13": "termination of the interval subtraction, that the emitted pieces are exactly the difference (the obligations above are necessary conditions proved from branch facts, not a full functional proof), and the go-mysql library's Contain/Equal/Update for all GTID sets",
}

var globalAssumptions = []string{
	"A1: SQL statements are classified from the repository's DefaultQueries table; per-deployment `queries:` overrides are out of scope",
	"A2: a registry handle of a host present in the iteration's first state map stays valid during that iteration; the two state maps are NOT assumed to have the same keys (two reads of a concurrently refreshed registry)",
	"A3: mysync's own packages make no calls through reflect/unsafe/cgo (asserted by scanning imports on each run)",
	"A4: go/packages, go/types, go/ssa and the VTA call graph are sound for such code",
	"A5: one App per process; dev_mode is off (emulateError folds to false; checked on each run)",
	"A6: third-party libraries (go-zookeeper, go-mysql GTID sets, sqlx, database/sql) behave as documented",
}

func cmdCheck(args []string) (code int) {
	fs := flag.NewFlagSet("check", flag.ExitOnError)
	tier := fs.String("tier", "quick", "quick|thorough")
	verbose := fs.Bool("v", false, "print every obligation")
	_ = fs.Parse(args)
	if fs.NArg() != 1 {
		fmt.Fprintln(os.Stderr, "usage: mysyncsa check [-tier quick|thorough] <Cxx>")
		return 2
	}
	id := fs.Arg(0)
	pi := props[id]
	if pi == nil {
		fmt.Fprintln(os.Stderr, "unknown property", id)
		return 2
	}
	if t := os.Getenv("VERIF_TIER"); t != "" && *tier == "" {
		*tier = t
	}
	start := time.Now()
	defer func() {
		if r := recover(); r != nil {
			if be, ok := r.(BrokenError); ok {
				fmt.Printf("ANALYSIS-BROKEN property=%s %s\n", id, be.Msg)
				code = 2
				return
			}
			fmt.Printf("ANALYSIS-BROKEN property=%s checker panic: %v\n%s\n", id, r, debug.Stack())
			code = 2
		}
	}()
	p := LoadProg(repoRoot(), normaliseOverlay(repoRoot()))
	c := &Check{Prop: id, Tier: *tier, p: p, eff: NewEffects(p), extra: map[string]any{}}
	for _, n := range normaliseNotes {
		c.Note("normalisation: %s", n)
	}
	c.checkDevModeFold()
	p.AlwaysCut = []LitPat{p.emulateTrue()}
	pi.Run(c)
	for _, sr := range sharedRules {
		for _, pid := range sr.Props {
			if pid == id {
				body := sr.Body
				c.Rule(id+"."+sr.Suffix, func() { body(c) })
			}
		}
	}
	c.runBorrowed(id)
	return c.finish(pi, start, *verbose)
}

func (c *Check) finish(pi *propInfo, start time.Time, verbose bool) int {
	kf := loadKnown()
	known := map[string]string{}
	for _, k := range kf.Known {
		if k.Property == c.Prop {
			known[k.Key] = k.What
		}
	}
	sort.SliceStable(c.obs, func(i, j int) bool { return c.obs[i].Rule < c.obs[j].Rule })
	nviol := 0
	var viol []Obligation
	usedKnown := map[string]bool{}
	discharged := 0
	for i := range c.obs {
		o := &c.obs[i]
		if o.OK {
			discharged++
			continue
		}
		if what, ok := known[o.Key()]; ok {
			o.Known = what
			if !usedKnown[o.Key()] {
				fmt.Printf("KNOWN-FINDING: property=%s %s — %s\n", c.Prop, o.Key(), what)
			}
			usedKnown[o.Key()] = true
			continue
		}
		nviol++
		viol = append(viol, *o)
	}
	for k := range known {
		if !usedKnown[k] {
			c.Note("known finding %s did not occur on this tree (entry suppresses nothing)", k)
		}
	}
	rules := map[string][2]int{}
	for _, o := range c.obs {
		r := rules[o.Rule]
		r[0]++
		if o.OK {
			r[1]++
		}
		rules[o.Rule] = r
	}
	var ruleNames []string
	for r := range rules {
		ruleNames = append(ruleNames, r)
	}
	sort.Strings(ruleNames)
	fmt.Printf("property %s tier=%s: %d packages (%d of the module), %d functions, %d blocks, %d call sites analysed\n", c.Prop, c.Tier, c.p.Stats.Packages, c.p.Stats.ModPackages, c.p.Stats.Functions, c.p.Stats.Blocks, c.p.Stats.CallSites)
	for _, r := range ruleNames {
		fmt.Printf("  rule %-18s %d/%d instances hold\n", r, rules[r][1], rules[r][0])
	}
	if verbose {
		for _, o := range c.obs {
			st := "ok  "
			if !o.OK {
				st = "FAIL"
			}
			fmt.Printf("    %s %s %s %s [%s] %s\n", st, o.Rule, o.Func, o.Site, o.Construct, o.Desc)
		}
	}
	for _, n := range c.notes {
		fmt.Println("  note:", n)
	}
	// violations
	vdir := filepath.Join(verifDir(), "evidence", "violations")
	_ = os.MkdirAll(vdir, 0o755)
	old, _ := filepath.Glob(filepath.Join(vdir, c.Prop+"-*.json"))
	for _, f := range old {
		_ = os.Remove(f)
	}
	for i, o := range viol {
		path := filepath.Join(vdir, fmt.Sprintf("%s-%d.json", c.Prop, i+1))
		b, _ := json.MarshalIndent(o, "", " ")
		_ = os.WriteFile(path, b, 0o644)
		fmt.Printf("%s %s %s %s [%s]\n    expected: %s\n    %s\n", o.Kind, o.Rule, o.Func, o.Site, o.Construct, o.Desc, o.Detail)
		fmt.Printf("VIOLATION property=%s replay=%s\n", c.Prop, path)
	}
	c.writeEvidence(pi, start, discharged, nviol, rules, ruleNames)
	if nviol > 0 {
		return 1
	}
	return 0
}

func (c *Check) writeEvidence(pi *propInfo, start time.Time, discharged, nviol int, rules map[string][2]int, ruleNames []string) {
	seed := 0
	if s := os.Getenv("VERIF_SEED"); s != "" {
		if n, err := strconv.Atoi(s); err == nil {
			seed = n
		}
	}
	var samples []any
	// one sample per rule (rotated by seed), plus every failing obligation
	byRule := map[string][]Obligation{}
	for _, o := range c.obs {
		byRule[o.Rule] = append(byRule[o.Rule], o)
	}
	for _, r := range ruleNames {
		os := byRule[r]
		samples = append(samples, os[seed%len(os)])
	}
	var failing []Obligation
	var knownList []string
	for _, o := range c.obs {
		if !o.OK {
			failing = append(failing, o)
			if o.Known != "" {
				knownList = append(knownList, o.Key())
			}
		}
	}
	distinct := map[string]bool{}
	for _, o := range c.obs {
		distinct[o.Key()] = true
	}
	perRule := map[string]any{}
	for _, r := range ruleNames {
		perRule[r] = map[string]int{"instances": rules[r][0], "hold": rules[r][1]}
	}
	cov := map[string]any{
		"explanation":         fullExplanation(c.Prop, pi) + " NOT DECIDED (not applicable to static analysis): " + pi.NotDecided,
		"obligations":         len(c.obs),
		"discharged":          discharged,
		"evaluations":         len(c.obs),
		"distinct_nontrivial": len(distinct),
		"rule":                "one obligation per (rule, function, construct) instance found in the current tree by resolving callees, fields and constants through go/types and go/ssa; an instance is distinct by its rule+function+construct key; every instance quantifies over all CFG paths / call chains, none is a sampled execution",
		"samples":             samples,
		"checker_cmd":         "/verif/check.sh " + c.Prop + " " + c.Tier,
		"trusted_base":        []string{"go/packages + go/types (go1.26.8)", "golang.org/x/tools v0.50.0 go/ssa, callgraph/vta", "the mysyncsa checker (/verif/checker)"},
		"exhaustive":          true,
		"rules":               perRule,
		"packages":            c.p.Stats.Packages,
		"module_packages":     c.p.Stats.ModPackages,
		"functions":           c.p.Stats.Functions,
		"blocks":              c.p.Stats.Blocks,
		"call_sites":          c.p.Stats.CallSites,
		"failing":             failing,
		"known_findings":      knownList,
		"notes":               c.notes,
	}
	if c.Tier == "thorough" {
		if c.paths != nil {
			cov["paths_enumerated"] = map[string]any{"gate_targets": c.pathTargets, "acyclic_paths_to_targets": c.paths.String(), "paths_crossing_a_good_edge": c.pathsGated.String(),
				"note": "exact counts by dynamic programming over each function's acyclic CFG skeleton (back edges removed); per gate obligation all paths to the target are covered"}
		}
		cov["cha_cross_check"] = c.chaCrossCheck()
	}
	for k, v := range c.extra {
		cov[k] = v
	}
	ev := map[string]any{
		"property_id": c.Prop,
		"tier":        c.Tier,
		"seed":        seed,
		"level":       pi.Level,
		"coverage":    cov,
		"assumptions": globalAssumptions,
		"wall_s":      time.Since(start).Seconds(),
		"violations":  nviol,
	}
	b, _ := json.MarshalIndent(ev, "", " ")
	dir := filepath.Join(verifDir(), "evidence")
	_ = os.MkdirAll(dir, 0o755)
	if err := os.WriteFile(filepath.Join(dir, c.Prop+".json"), b, 0o644); err != nil {
		broken("cannot write evidence: %v", err)
	}
}

// checkDevModeFold asserts on every run that emulateError returns true only under
// config.DevMode (assumption A5), which is what allows rules to ignore its edges.
func (c *Check) checkDevModeFold() {
	fn := c.p.Func("(*app.App).emulateError")
	if fn == nil {
		return // no such helper: nothing is folded
	}
	fa := c.p.FA(fn)
	for _, r := range Returns(fn) {
		if len(r.Results) != 1 {
			continue
		}
		if k, ok := r.Results[0].(*ssa.Const); ok && k.Value != nil && k.Value.ExactString() == "false" {
			continue
		}
		ok, _ := fa.Gated(r, FieldLit(true, "DevMode"))
		if !ok {
			broken("emulateError may return true without config.DevMode: the dev-mode fold (assumption A5) is unsound on this tree")
		}
	}
}

// EmulateFalse is the literal "emulateError(...) is false" — under A5 it always holds,
// so edges requiring emulateError()==true are infeasible.
func (p *Prog) emulateTrue() LitPat {
	return func(l Lit) bool { return l.Pos && p.IsCall(l.T, "(*app.App).emulateError") }
}

func siteKey(p *Prog, ci ssa.CallInstruction, nth int) string {
	names := p.CalleeNames(ci)
	return fmt.Sprintf("call %s#%d", names[0], nth)
}

func join(ss []string) string { return strings.Join(ss, ", ") }

// chaCrossCheck (thorough tier): the effect sets of the daemon roots with dynamic calls resolved by the
// coarser CHA call graph instead of VTA. Differences are recorded; the verdict uses VTA (sound for code
// without reflection, assumption A3/A4), CHA is an over-approximation cross-check.
func (c *Check) chaCrossCheck() any {
	type row struct {
		Root              string `json:"root"`
		VTA               int    `json:"effects_vta"`
		CHA               int    `json:"effects_cha"`
		ExtraMutatingCHA  int    `json:"extra_mutating_effects_under_cha"`
	}
	var rows []row
	cha := NewEffects(c.p)
	cha.useCHA = true
	for _, r := range c.DaemonRoots() {
		a := c.eff.Collect(r.Fn, WalkOpts{})
		b := cha.Collect(r.Fn, WalkOpts{})
		have := map[string]bool{}
		for _, e := range a {
			have[e.String()] = true
		}
		extra := 0
		seen := map[string]bool{}
		for _, e := range b {
			if !have[e.String()] && !seen[e.String()] && (sqlMutating(e) || dcsWrite(e)) {
				seen[e.String()] = true
				extra++
			}
		}
		rows = append(rows, row{r.Name, len(a), len(b), extra})
	}
	return rows
}

// sharedRule: one rule body recorded under the id of every property that depends on it (the producers of the
// inputs the property's own gates read). The obligations are identical; each property reports them as its own.
type sharedRule struct {
	Suffix string
	Props  []string
	Body   func(c *Check)
	Doc    string
}

var sharedRules []sharedRule

func fullExplanation(id string, pi *propInfo) string {
	e := pi.Explanation
	var docs []string
	for _, sr := range sharedRules {
		for _, pid := range sr.Props {
			if pid == id {
				docs = append(docs, sr.Doc)
			}
		}
	}
	if len(docs) > 0 {
		e += " Shared producer rules (reported under this property's id as well): " + strings.Join(docs, "; ") + "."
	}
	if bs := borrowed[id]; len(bs) > 0 {
		var ds []string
		for _, b := range bs {
			ds = append(ds, "("+b.As+") = "+b.Rule+": "+b.Why)
		}
		e += " Borrowed rules (obligations of another property's rule that this property depends on, re-run and reported here too): " + strings.Join(ds, "; ") + "."
	}
	return e
}

// Borrowed rules: a rule of another property whose subject this property depends on is re-run and its obligations
// are recorded under this property's id as well (same construct keys), so a change that breaks the producer is
// reported by every property that consumes it. Only rules without known findings are borrowed.
type borrow struct {
	From string // property
	Rule string // rule id there
	As   string // suffix here
	Why  string
	Only string // optional: only obligations whose construct starts with this (the others may be known findings of the lender)
}

var borrowed = map[string][]borrow{
	"C16": {{From: "C10", Rule: "C10.SYNC", As: "REGISTRY", Why: "a host turned into a cascade replica leaves the HA registry of every running process, its own included"}},
	"C01": {{From: "C12", Rule: "C12.O1-O2-O6", As: "QUORUM-R", Why: "the acknowledgement count the quorum is measured against"}, {From: "C12", Rule: "C12.O3-O4", As: "QUORUM-Q", Why: "the failover quorum meets every acknowledging set"}, {From: "C12", Rule: "C12.O5", As: "QUORUM-CHECK", Why: "the quorum check says yes exactly when the quorum is met"}},
	"C05": {{From: "C10", Rule: "C10.SYNC", As: "REGISTRY", Why: "the 'every other HA node still replicates' guard counts the registry's HA hosts: a removed host must leave the registry"}, {From: "C12", Rule: "C12.O1-O2-O6", As: "QUORUM-R", Why: "as for C01"}, {From: "C12", Rule: "C12.O3-O4", As: "QUORUM-Q", Why: "as for C01"}, {From: "C12", Rule: "C12.O5", As: "QUORUM-CHECK", Why: "approval relies on the check"}, {From: "C16", Rule: "C16.FLAG", As: "CASCADEFLAG", Why: "the HA-node count of the 'coordination problem' guard skips cascade replicas by this flag"}, {From: "C16", Rule: "C16.COUNT", As: "COUNTERS", Why: "the counters approval compares"}},
	"C12": {{From: "C01", Rule: "C01.g3", As: "RECOUNT", Why: "the recount after the freeze hands the published list and the frozen count to the check"}, {From: "C16", Rule: "C16.COUNT", As: "COUNTERS", Why: "the alive-replica count handed to the check counts replicas only"}, {From: "C04", Rule: "C04.BASIS", As: "BASIS", Why: "the acknowledgement count sent to the master is computed from this iteration's list", Only: "count-basis:this-iteration"}},
	"C03": {{From: "C19", Rule: "C19.SPAWN", As: "SPAWNLIFE", Why: "the syncer goroutine of the speed-up phase issues statements on other hosts without a lock check of its own: it must end when the phase returns"}, {From: "C02", Rule: "C02.AUTO-i", As: "QUORUMLOSS", Why: "a manager that released the lock after losing its quorum ends the iteration"}},
	"C06": {{From: "C20", Rule: "C20.GO", As: "RETURNS", Why: "an attempt is counted, timed out and aborted only if the procedure returns: the forced read-only's helper goroutine cannot strand its caller", Only: "go@(*mysql.Node).SetReadOnlyWithForce"}, {From: "C02", Rule: "C02.AUTO-i", As: "QUORUMLOSS", Why: "a process that gave the lock away does not go on to process the request"}},
	"C02": {{From: "C05", Rule: "C05.APPROVE", As: "APPROVE", Why: "a fault that must not change the master (the master lost only its coordination session) is vetoed by approval: every other HA node still replicating"}, {From: "C11", Rule: "C11.LOSTDEF", As: "LOSTDEF", Why: "a returning old master with transactions the recorded master lacks is rebuilt, never re-admitted: 'permanently lost' includes diverged sets"}, {From: "C01", Rule: "C01.g8b", As: "ASYNCHATCH", Why: "no acknowledged loss: the catch-up wait is abandoned only through the async escape hatch, which requires async mode"}, {From: "C03", Rule: "C03.SESSION", As: "LOCKCACHE", Why: "one manager: the lock cache dies with the session"}},
	"C07": {{From: "C06", Rule: "C06.AFTER", As: "OUTCOME", Why: "the request is kept until finished: a failed attempt is recorded as failed (the request is re-written), never as a success that deletes it"}, {From: "C16", Rule: "C16.COUNT", As: "COUNTERS", Why: "the successor re-approves an interrupted request with the same counters: they count reachable replicas whatever intermediate flags (offline mode) the interrupted run left"}, {From: "C03", Rule: "C03.SESSION", As: "LOCKCACHE", Why: "the lock re-checks stop a deposed manager only if the cache is dropped on session loss"}, {From: "C01", Rule: "C01.g6", As: "POSITIONS", Why: "a resumed run must see the received-but-unapplied tails again: positions include the retrieved set whatever the thread state"}},
	"C10": {{From: "C18", Rule: "C18.FLAGS", As: "MAYWRITE", Why: "the master is brought back writable only if the disk guard's two flags are computed as specified (a flag that is wrongly cleared keeps a healthy master fenced for ever)"}, {From: "C13", Rule: "C13.CALLERS", As: "RELATIONS", Why: "repair's progress test uses 'ahead' on (new, old)"}},
	"C14": {{From: "C15", Rule: "C15.IDENTITY", As: "IDENTITY", Why: "'no configuration = priority 0' is an errors.Is test on the wrapper's error"}},
	"C09": {{From: "C05", Rule: "C05.SITES", As: "REQUEST", Why: "light mode recognises a failover request by the transition the filing helper writes"}},
}

func (c *Check) runBorrowed(id string) {
	bs := borrowed[id]
	if len(bs) == 0 {
		return
	}
	cache := map[string]*Check{}
	for _, b := range bs {
		sub := cache[b.From]
		if sub == nil {
			sub = &Check{Prop: b.From, Tier: "quick", p: c.p, eff: c.eff, extra: map[string]any{}}
			func() {
				defer func() {
					if r := recover(); r != nil {
						sub.obs = append(sub.obs, Obligation{Rule: b.Rule, Func: "-", Site: "-", Construct: "borrowed-run", Desc: "the lending property's rules run", OK: false, Kind: "UNDECIDED", Detail: fmt.Sprint(r)})
					}
				}()
				props[b.From].Run(sub)
			}()
			cache[b.From] = sub
		}
		n := 0
		for _, o := range sub.obs {
			if o.Rule != b.Rule || (b.Only != "" && !strings.HasPrefix(o.Construct, b.Only)) {
				continue
			}
			n++
			o.Rule = id + "." + b.As
			c.obs = append(c.obs, o)
		}
		if n == 0 {
			c.obs = append(c.obs, Obligation{Rule: id + "." + b.As, Func: "-", Site: "-", Construct: "borrowed:" + b.Rule, Desc: "the borrowed rule has instances", OK: false, Kind: "VACUOUS", Detail: "no obligation of " + b.Rule})
		}
	}
}
