package main

// Table agreement for the two tables every property reads through (engine E8, extended):
//
//  QUERIES   the statement texts of internal/mysql/queries.go. A gate rule says "the read-only statement
//            succeeded on the local node"; what that statement does is one line of SQL in a map. Each
//            property-relevant query has a line here: regular expressions the normalised text (lower case,
//            single spaces, @@global.x → @@x) must match and must not match. The expressions accept the
//            equivalent spellings (1/ON, 0/OFF, <> 0 / > 0), so re-formatting or an equivalent rewrite is
//            silent, while another variable, another value, a swapped alias or a dropped predicate is not.
//            Plus, generically: every `db:"..."` column of the struct a row is scanned into is an alias of
//            the SELECT it is scanned from.
//  CONFIG    configuration plumbing: the validation rejects the combinations the properties exclude
//            (both replication modes, async without repl_mon, not_critical above critical) and ReadConfig
//            answers with an error when it does; the dynamic default of not_critical is critical.

import (
	"fmt"
	"go/types"
	"reflect"
	"regexp"
	"sort"
	"strings"

	"golang.org/x/tools/go/ssa"
)

type querySpec struct {
	Name    string
	Must    []string
	MustNot []string
	Props   []string
}

// SET GLOBAL statements: the exact set of variables assigned and (a regular expression for) their values. A statement that
// assigns one more variable is another statement (e.g. "also reset the ack count when the plugin is switched on").
var setGlobals = map[string]map[string]string{
	"set_readonly":                       {"super_read_only": "1|on"},
	"set_readonly_no_super":              {"read_only": "1|on", "super_read_only": "0|off"},
	"set_writable":                       {"read_only": "0|off"},
	"semisync_set_master":                {"rpl_semi_sync_master_enabled": "1|on", "rpl_semi_sync_slave_enabled": "0|off"},
	"semisync_set_slave":                 {"rpl_semi_sync_slave_enabled": "1|on", "rpl_semi_sync_master_enabled": "0|off"},
	"semisync_disable":                   {"rpl_semi_sync_slave_enabled": "0|off", "rpl_semi_sync_master_enabled": "0|off"},
	"set_semisync_wait_slave_count":      {"rpl_semi_sync_master_wait_for_slave_count": ":wait_slave_count"},
	"enable_offline_mode":                {"offline_mode": "on|1"},
	"disable_offline_mode":               {"offline_mode": "off|0"},
	"set_innodb_flush_log_at_trx_commit": {"innodb_flush_log_at_trx_commit": ":level"},
	"set_sync_binlog":                    {"sync_binlog": ":sync_binlog"},
}

var assignRe = regexp.MustCompile(`([a-z_@.]+) = ([^,]+)`)

var rw = []string{"C01", "C06", "C08", "C10", "C18"}

var queryTable = []querySpec{
	{"ping", []string{`^select 1 as ok$`}, nil, []string{"C04", "C05", "C08"}},
	{"is_readonly", []string{`@@read_only as readonly\b`, `@@super_read_only as superreadonly\b`}, nil, []string{"C08", "C10", "C17", "C18"}},
	{"set_readonly", []string{`^set global super_read_only = (1|on)$`}, nil, rw},
	{"set_readonly_no_super", []string{`\bread_only = (1|on)`, `super_read_only = (0|off)`}, []string{`super_read_only = (1|on)`}, rw},
	{"set_writable", []string{`^set global read_only = (0|off)$`}, nil, rw},
	{"stop_slave", []string{`^stop slave for channel :channel$`}, nil, []string{"C01", "C10", "C16"}},
	{"start_slave", []string{`^start slave for channel :channel$`}, nil, []string{"C10", "C16"}},
	{"stop_replica", []string{`^stop replica for channel :channel$`}, nil, []string{"C01", "C10", "C16"}},
	{"start_replica", []string{`^start replica for channel :channel$`}, nil, []string{"C10", "C16"}},
	{"stop_slave_io_thread", []string{`^stop slave io_thread for channel :channel$`}, nil, []string{"C01", "C04"}},
	{"stop_replica_io_thread", []string{`^stop replica io_thread for channel :channel$`}, nil, []string{"C01", "C04"}},
	{"start_slave_io_thread", []string{`^start slave io_thread for channel :channel$`}, nil, []string{"C04"}},
	{"start_replica_io_thread", []string{`^start replica io_thread for channel :channel$`}, nil, []string{"C04"}},
	{"reset_slave_all", []string{`^reset slave all for channel :channel$`}, nil, []string{"C01", "C10"}},
	{"reset_replica_all", []string{`^reset replica all for channel :channel$`}, nil, []string{"C01", "C10"}},
	{"change_master", []string{`master_host = :host\b`, `master_port = :port\b`, `master_auto_position = 1`, `for channel :channel$`}, nil, []string{"C01", "C10", "C16"}},
	{"change_source", []string{`source_host = :host\b`, `source_port = :port\b`, `source_auto_position = 1`, `for channel :channel$`}, nil, []string{"C01", "C10", "C16"}},
	{"semisync_status", []string{`@@rpl_semi_sync_master_enabled as masterenabled\b`, `@@rpl_semi_sync_slave_enabled as slaveenabled\b`, `@@rpl_semi_sync_master_wait_for_slave_count as waitslavecount\b`}, nil, []string{"C04", "C08", "C18"}},
	{"semisync_set_master", []string{`rpl_semi_sync_master_enabled = (1|on)`, `rpl_semi_sync_slave_enabled = (0|off)`}, nil, []string{"C04", "C10", "C12"}},
	{"semisync_set_slave", []string{`rpl_semi_sync_slave_enabled = (1|on)`, `rpl_semi_sync_master_enabled = (0|off)`}, nil, []string{"C04", "C10"}},
	{"semisync_disable", []string{`rpl_semi_sync_slave_enabled = (0|off)`, `rpl_semi_sync_master_enabled = (0|off)`}, nil, []string{"C02", "C04", "C08"}},
	{"set_semisync_wait_slave_count", []string{`^set global rpl_semi_sync_master_wait_for_slave_count = :wait_slave_count$`}, nil, []string{"C04", "C12"}},
	{"enable_offline_mode", []string{`^set global offline_mode = (on|1)$`}, nil, []string{"C02", "C08", "C11", "C17"}},
	{"disable_offline_mode", []string{`^set global offline_mode = (off|0)$`}, nil, []string{"C10", "C17"}},
	{"get_offline_mode", []string{`@@offline_mode as offlinemode\b`}, nil, []string{"C10", "C17"}},
	{"has_waiting_semi_sync_ack", []string{`count\(\*\) (<> 0|> 0|!= 0) as iswaiting`, `from information_schema\.processlist`, `state like 'waiting for semi-sync ack from%'`}, nil, []string{"C08"}},
	{"get_last_startup_time", []string{`unix_timestamp\(date_sub\(now\(\), interval variable_value second\)\) as laststartup`, `variable_name='uptime'`}, nil, []string{"C17"}},
	{"gtid_executed", []string{`^select @@gtid_executed as executed_gtid_set$`}, nil, []string{"C01", "C04", "C11", "C13"}},
	{"get_uuid", []string{`^select @@server_uuid as server_uuid$`}, nil, []string{"C04", "C13"}},
	{"get_replication_settings", []string{`@@innodb_flush_log_at_trx_commit as innodbflushlogattrxcommit\b`, `@@sync_binlog as syncbinlog\b`}, nil, []string{"C19"}},
	{"set_innodb_flush_log_at_trx_commit", []string{`^set global innodb_flush_log_at_trx_commit = :level$`}, nil, []string{"C19"}},
	{"set_sync_binlog", []string{`^set global sync_binlog = :sync_binlog$`}, nil, []string{"C19"}},
	{"get_repl_mon_ts", []string{`^select unix_timestamp\(ts\) as ts from :replmonschemename\.:replmontable$`}, nil, []string{"C01"}},
	{"calc_repl_mon_ts_delay", []string{`floor\(cast\(:ts as decimal\(20,3\)\) - unix_timestamp\(ts\)\) as delay`}, nil, []string{"C01"}},
	{"update_repl_mon", []string{`where @@read_only = 0`, `on duplicate key update ts = current_timestamp\(3\)`}, nil, []string{"C01"}},
	{"kill_query", []string{`^kill :kill_id$`}, nil, []string{"C08", "C18"}},
	{"get_process_ids", []string{`from information_schema\.processlist`, `user not in \(\?\)`, `command != 'killed'`}, nil, []string{"C08", "C18"}},
	{"slave_status", []string{`^show slave status for channel :channel$`}, nil, []string{"C01", "C04", "C08", "C10", "C11", "C16"}},
	{"replica_status", []string{`^show replica status for channel :channel$`}, nil, []string{"C01", "C04", "C08", "C10", "C11", "C16"}},
}

var wsRe = regexp.MustCompile(`\s+`)

func normSQL(s string) string {
	s = strings.ToLower(s)
	s = wsRe.ReplaceAllString(s, " ")
	s = strings.TrimSpace(s)
	s = strings.ReplaceAll(s, "@@global.", "@@")
	s = strings.ReplaceAll(s, " ,", ",")
	s = strings.ReplaceAll(s, "( ", "(")
	s = strings.ReplaceAll(s, " )", ")")
	return s
}

func checkQueries(c *Check) {
	p := c.p
	texts := p.queryTexts()
	n := 0
	for _, q := range queryTable {
		if !contains(q.Props, c.Prop) {
			continue
		}
		n++
		raw, ok := texts[q.Name]
		if !c.Req(ok, "mysql.DefaultQueries", "-", "query:"+q.Name+":present", "the statement is in the table", "") {
			continue
		}
		t := normSQL(raw)
		var miss, hit []string
		for _, m := range q.Must {
			if !regexp.MustCompile(m).MatchString(t) {
				miss = append(miss, m)
			}
		}
		for _, m := range q.MustNot {
			if regexp.MustCompile(m).MatchString(t) {
				hit = append(hit, m)
			}
		}
		c.Req(len(miss) == 0 && len(hit) == 0, "mysql.DefaultQueries", "internal/mysql/queries.go", "query:"+q.Name, "the statement does what its name says (variables, values, aliases and predicates; equivalent spellings accepted)", fmt.Sprintf("text %q; missing %v; forbidden %v", t, miss, hit))
		if want, ok := setGlobals[q.Name]; ok {
			got := map[string]string{}
			if strings.HasPrefix(t, "set global ") {
				for _, m := range assignRe.FindAllStringSubmatch(strings.TrimPrefix(t, "set global "), -1) {
					got[strings.TrimPrefix(strings.TrimSpace(m[1]), "@@")] = strings.TrimSpace(m[2])
				}
			}
			okSet := len(got) == len(want)
			for v, re := range want {
				val, has := got[v]
				if !has || !regexp.MustCompile("^("+re+")$").MatchString(val) {
					okSet = false
				}
			}
			c.Req(okSet, "mysql.DefaultQueries", "internal/mysql/queries.go", "query:"+q.Name+":assigns", "the statement assigns exactly its variables, with their values", fmt.Sprintf("assigns %v, expected %v", got, want))
		}
	}
	c.Req(n >= 1, "mysql.DefaultQueries", "-", "query:lines", "statement lines for this property", "")
	checkAliasTags(c, texts)
}

// queryTexts evaluates DefaultQueries to query name → text.
func (p *Prog) queryTexts() map[string]string {
	return p.StringMapLiteral("internal/mysql", "DefaultQueries")
}

var aliasRe = regexp.MustCompile(`(?i)\bas\s+([A-Za-z_][A-Za-z0-9_]*)`)

// checkAliasTags: for every row read `queryRow*(name, args, &dest)` with a constant name, the db tags of dest's struct are aliases of the SELECT.
func checkAliasTags(c *Check, texts map[string]string) {
	p := c.p
	n := 0
	for _, fn := range p.ModFuncs {
		if !inFile(p, fn, "internal/mysql/node.go") {
			continue
		}
		for _, ci := range p.Calls(fn, "(*mysql.Node).queryRow", "(*mysql.Node).queryRowMogrify", "(*mysql.Node).queryRowWithTimeout", "(*mysql.Node).queryRowMogrifyWithTimeout") {
			args := ci.Common().Args
			if len(args) < 4 {
				continue
			}
			qn := p.T(args[1])
			if qn.Op != "const" {
				continue
			}
			text, ok := texts[qn.Name]
			if !ok || !strings.HasPrefix(strings.ToLower(strings.TrimSpace(text)), "select") {
				continue
			}
			dest := underIface(args[3])
			pt, ok := dest.Type().Underlying().(*types.Pointer)
			if !ok {
				continue
			}
			st, ok := pt.Elem().Underlying().(*types.Struct)
			if !ok {
				continue
			}
			// column labels are matched case-sensitively by the row scanner (and the handles are opened in "unsafe" mode,
			// where a column without a destination is silently dropped and the field keeps its zero value)
			aliases := map[string]bool{}
			for _, m := range aliasRe.FindAllStringSubmatch(text, -1) {
				aliases[m[1]] = true
			}
			var missing []string
			for i := 0; i < st.NumFields(); i++ {
				tag := reflect.StructTag(st.Tag(i)).Get("db")
				if tag == "" {
					continue
				}
				if !aliases[tag] {
					missing = append(missing, tag)
				}
			}
			n++
			sort.Strings(missing)
			c.Req(len(missing) == 0, p.Name(fn), p.InstrPos(ci), "row:"+qn.Name, "every column of the struct the row is scanned into is an alias of the SELECT it comes from", "columns without an alias: "+strings.Join(missing, ", "))
		}
	}
	c.Req(n >= 8, "internal/mysql/node.go", "-", "row:reads", "typed row reads found", fmt.Sprintf("%d", n))
}

func checkConfigPlumbing(c *Check) {
	p := c.p
	V := p.MustFunc("(*config.Config).Validate")
	fa := p.FA(V)
	name := p.Name(V)
	// nil only below the three exclusions
	sites := c.SuccessSites(V, 0, "nil")
	c.Req(len(sites) >= 1, name, "-", "validate:ok", "validation can succeed", "")
	for i, rs := range sites {
		c.Gate(fa, rs.At, nthKey("validate:not-both-modes", i+1), "a configuration with semi-sync AND async is rejected", FieldLit(false, "SemiSync"), FieldLit(false, "ASync"))
		c.Gate(fa, rs.At, nthKey("validate:async-needs-repl-mon", i+1), "async without repl_mon is rejected (the async escape hatch needs the timestamps)", FieldLit(false, "ASync"), FieldLit(true, "ReplMon"))
		c.Gate(fa, rs.At, nthKey("validate:not-critical<=critical", i+1), "not_critical_disk_usage above critical_disk_usage is rejected", func(l Lit) bool {
			a, b, op, ok := Cmp(l)
			return ok && ((op == "<=" && a.IsField("NotCriticalDiskUsage") && b.IsField("CriticalDiskUsage")) || (op == ">=" && a.IsField("CriticalDiskUsage") && b.IsField("NotCriticalDiskUsage")))
		})
	}
	// ReadFromFile: success only after Validate said nil, and after the dynamic defaults
	var R *ssa.Function
	for _, fn := range p.ModFuncs {
		if fn.Parent() == nil && len(p.Calls(fn, "(*config.Config).Validate")) > 0 && fn != V {
			R = fn
		}
	}
	if R == nil {
		panic(AnchorError{"caller of (*config.Config).Validate"})
	}
	rfa := p.FA(R)
	errIdx := R.Signature.Results().Len() - 1
	for i, rs := range c.SuccessSites(R, errIdx, "nil") {
		c.Gate(rfa, rs.At, nthKey("read:validated", i+1), "a configuration is handed to the daemon only after validation passed", p.NilErr("(*config.Config).Validate"))
		ok, path := rfa.PrecededBy(rs.At, isCallTo(p, "(*config.Config).SetDynamicDefaults"))
		c.Req(ok, p.Name(R), p.InstrPos(rs.At), nthKey("read:dynamic-defaults", i+1), "… and after the dynamic defaults were applied", "path: "+rfa.PathString(path))
	}
	for _, v := range p.Calls(R, "(*config.Config).Validate") {
		ok, _ := rfa.PrecededBy(v, isCallTo(p, "(*config.Config).SetDynamicDefaults"))
		c.Req(ok, p.Name(R), p.InstrPos(v), "read:defaults-before-validate", "the dynamic defaults are applied before validation", "")
	}
	// the dynamic default
	D := p.MustFunc("(*config.Config).SetDynamicDefaults")
	nd := 0
	for _, b := range D.Blocks {
		for _, in := range b.Instrs {
			st, ok := in.(*ssa.Store)
			if !ok {
				continue
			}
			f, ok := st.Addr.(*ssa.FieldAddr)
			if !ok || afterDot(fieldName(f.X.Type(), f.Field)) != "NotCriticalDiskUsage" {
				continue
			}
			nd++
			c.Req(p.T(st.Val).IsField("CriticalDiskUsage"), p.Name(D), p.InstrPos(in), "default:not-critical", "an unset not_critical_disk_usage defaults to critical_disk_usage (no hysteresis band unless configured)", "defaults to "+p.T(st.Val).String())
		}
	}
	c.Req(nd == 1, p.Name(D), "-", "default:not-critical:site", "one dynamic default", fmt.Sprintf("%d", nd))
	// nobody else rewrites a configured value: every store to a field of config.Config is in the listed functions
	allowed := map[string][]string{
		"config.DefaultConfig":                   nil, // the static defaults (a composite literal)
		"(*config.Config).SetDynamicDefaults":    {"NotCriticalDiskUsage"},
	}
	ns := 0
	for _, fn := range p.ModFuncs {
		if pos := fn.Pos(); pos.IsValid() && strings.HasSuffix(p.Fset.Position(pos).Filename, "_test.go") {
			continue
		}
		for _, b := range fn.Blocks {
			for _, in := range b.Instrs {
				st, ok := in.(*ssa.Store)
				if !ok {
					continue
				}
				f, ok := st.Addr.(*ssa.FieldAddr)
				if !ok {
					continue
				}
				full := fieldName(f.X.Type(), f.Field)
				if !strings.HasPrefix(full, "config.Config.") {
					continue
				}
				ns++
				fields, okf := allowed[p.Name(top(fn))]
				okk := okf && (fields == nil || contains(fields, afterDot(full)))
				c.Req(okk, p.Name(fn), p.InstrPos(in), nthKey("config:write:"+afterDot(full), ns), "a configured value reaches its consumers as configured: configuration fields are written only by the static defaults and the one listed dynamic default (a 'normalisation' that rewrites a legal value changes what the operator asked for)", "written in "+p.Name(fn))
			}
		}
	}
}

func init() {
	props := map[string]bool{}
	for _, q := range queryTable {
		for _, p := range q.Props {
			props[p] = true
		}
	}
	var ps []string
	for p := range props {
		ps = append(ps, p)
	}
	sort.Strings(ps)
	sharedRules = append(sharedRules,
		sharedRule{Suffix: "QUERIES", Props: ps, Body: checkQueries, Doc: "(QUERIES) the SQL text of every statement this property's rules name does what the name says (regular expressions over the normalised text, equivalent spellings accepted), and every column of a struct a row is scanned into is an alias of its SELECT"},
		sharedRule{Suffix: "CONFIG", Props: []string{"C01", "C12", "C17", "C18"}, Body: checkConfigPlumbing, Doc: "(CONFIG) validation rejects both-modes, async-without-repl_mon and not_critical > critical; a configuration reaches the daemon only validated and with the dynamic defaults applied; an unset not_critical defaults to critical"},
	)
}
