package main

// Error-identity analysis (engine E10). A test `errors.Is(err, S)` / `errors.As(err, &T)` decides
// behaviour only if the functions between the producer of S/T and the test hand the error on
// with its chain intact: returned as is, or wrapped with %w. The engine walks, from each test
// site, the values the tested error can be (phi, cells, call results), descends into every
// in-module callee that can have produced it (static callee, or the VTA resolution of an
// interface call) and reports each place on that return chain where an error operand is
// turned into text: fmt.Errorf with a verb other than %w for an error-typed operand,
// errors.New(err.Error()), fmt.Sprint*/String concatenation of err.Error() fed to errors.New.
// Fresh errors (no error operand) and errors of external packages are leaves.

import (
	"fmt"
	"go/constant"
	"go/types"
	"regexp"
	"sort"
	"strings"

	"golang.org/x/tools/go/ssa"
)

type errLoss struct {
	At  ssa.Instruction
	Fn  *ssa.Function
	Why string
}

type errChain struct {
	p       *Prog
	c       *Check
	seenFn  map[string]bool
	seenVal map[ssa.Value]bool
	Losses  []errLoss
	Funcs   map[*ssa.Function]bool // in-module functions on the return chain
	Leaves  int
	DCSOps  map[string]bool // coordination operations (methods of dcs.DCS) whose error can reach the value
}

func newErrChain(c *Check) *errChain {
	return &errChain{p: c.p, c: c, seenFn: map[string]bool{}, seenVal: map[ssa.Value]bool{}, Funcs: map[*ssa.Function]bool{}, DCSOps: map[string]bool{}}
}

var errorIface = types.Universe.Lookup("error").Type().Underlying().(*types.Interface)

func isErrorLike(t types.Type) bool {
	if t == nil {
		return false
	}
	if types.Identical(t, types.Universe.Lookup("error").Type()) {
		return true
	}
	if _, ok := t.Underlying().(*types.Interface); ok {
		return types.Implements(t, errorIface) && t.Underlying().(*types.Interface).NumMethods() > 0
	}
	return types.Implements(t, errorIface)
}

// fn descends into result #idx of an in-module function.
func (e *errChain) fn(fn *ssa.Function, idx int, depth int) {
	if fn == nil || len(fn.Blocks) == 0 || !e.p.InModule(fn) {
		e.Leaves++
		return
	}
	key := fmt.Sprintf("%s#%d", fn.String(), idx)
	if e.seenFn[key] {
		return
	}
	e.seenFn[key] = true
	e.Funcs[fn] = true
	if depth <= 0 {
		e.Leaves++
		return
	}
	for _, rs := range e.c.RetSites(fn, idx) {
		e.val(rs.Val, depth)
	}
}

var verbRe = regexp.MustCompile(`%(\[\d+\])?[-+# 0]*(\*|\d+)?(\.(\*|\d+))?([a-zA-Z%])`)

// variadic returns the values packed into a variadic []any argument.
func variadicOperands(v ssa.Value) []ssa.Value {
	sl, ok := v.(*ssa.Slice)
	if !ok {
		return nil
	}
	al, ok := sl.X.(*ssa.Alloc)
	if !ok {
		return nil
	}
	type slot struct {
		i int64
		v ssa.Value
	}
	var slots []slot
	for _, r := range *al.Referrers() {
		ia, ok := r.(*ssa.IndexAddr)
		if !ok {
			continue
		}
		k, ok := ia.Index.(*ssa.Const)
		if !ok || k.Value == nil {
			continue
		}
		i, _ := constant.Int64Val(k.Value)
		for _, rr := range *ia.Referrers() {
			if st, ok := rr.(*ssa.Store); ok && st.Addr == ssa.Value(ia) {
				slots = append(slots, slot{i, st.Val})
			}
		}
	}
	sort.Slice(slots, func(a, b int) bool { return slots[a].i < slots[b].i })
	var out []ssa.Value
	for _, s := range slots {
		out = append(out, s.v)
	}
	return out
}

func underIface(v ssa.Value) ssa.Value {
	for {
		switch x := v.(type) {
		case *ssa.MakeInterface:
			v = x.X
		case *ssa.ChangeInterface:
			v = x.X
		default:
			return v
		}
	}
}

// errorfCheck inspects one fmt.Errorf call: every error-typed operand must be formatted with %w.
func (e *errChain) errorfCheck(call *ssa.Call, depth int) {
	args := call.Call.Args
	if len(args) < 2 {
		return
	}
	fc, ok := args[0].(*ssa.Const)
	ops := variadicOperands(args[1])
	if !ok || fc.Value == nil || fc.Value.Kind() != constant.String {
		for _, o := range ops {
			if isErrorLike(underIface(o).Type()) {
				e.Losses = append(e.Losses, errLoss{call, call.Parent(), "fmt.Errorf with a non-constant format and an error operand: wrapping cannot be established"})
			}
		}
		return
	}
	format := constant.StringVal(fc.Value)
	var verbs []byte
	for _, m := range verbRe.FindAllStringSubmatch(format, -1) {
		if m[5] == "%" {
			continue
		}
		if m[1] != "" {
			// explicit argument indexes are not used in this repository; be conservative
			verbs = nil
			break
		}
		if m[2] == "*" {
			verbs = append(verbs, '*')
		}
		if m[4] == "*" {
			verbs = append(verbs, '*')
		}
		verbs = append(verbs, m[5][0])
	}
	for i, o := range ops {
		x := underIface(o)
		if !isErrorLike(x.Type()) {
			continue
		}
		if i < len(verbs) && verbs[i] == 'w' {
			// wrapped: identity preserved; what it wraps is part of the chain
			e.val(x, depth)
			continue
		}
		verb := "?"
		if i < len(verbs) {
			verb = "%" + string(verbs[i])
		}
		e.Losses = append(e.Losses, errLoss{call, call.Parent(), fmt.Sprintf("fmt.Errorf(%q) formats error operand #%d with %s instead of %%w: errors.Is/As no longer see the cause", format, i+1, verb)})
	}
}

func (e *errChain) val(v ssa.Value, depth int) {
	if v == nil || e.seenVal[v] {
		return
	}
	e.seenVal[v] = true
	p := e.p
	switch x := v.(type) {
	case *ssa.Const, *ssa.Parameter, *ssa.Global:
		e.Leaves++
	case *ssa.Phi:
		for _, ed := range x.Edges {
			e.val(ed, depth)
		}
	case *ssa.MakeInterface:
		e.val(x.X, depth)
	case *ssa.ChangeInterface:
		e.val(x.X, depth)
	case *ssa.TypeAssert:
		e.val(x.X, depth)
	case *ssa.Extract:
		if call, ok := x.Tuple.(*ssa.Call); ok {
			e.call(call, x.Index, depth)
		} else {
			e.Leaves++
		}
	case *ssa.Call:
		e.call(x, 0, depth)
	case *ssa.UnOp:
		if x.Op.String() != "*" {
			e.Leaves++
			return
		}
		addr := p.tb().resolveAddr(x.X)
		if al, ok := addr.(*ssa.Alloc); ok {
			for _, s := range p.CellStores(al) {
				e.val(s, depth)
			}
			return
		}
		e.Leaves++ // field, global, element: stored elsewhere
	case *ssa.FreeVar:
		addr := p.tb().resolveAddr(x)
		if addr != ssa.Value(x) {
			e.val(addr, depth)
			return
		}
		e.Leaves++
	case *ssa.Alloc:
		for _, s := range p.CellStores(x) {
			e.val(s, depth)
		}
	default:
		e.Leaves++
	}
}

func (e *errChain) call(call *ssa.Call, idx int, depth int) {
	p := e.p
	names := p.CalleeNames(call)
	switch {
	case matchName(names, "fmt.Errorf"):
		e.errorfCheck(call, depth)
		return
	case matchName(names, "errors.New"):
		if len(call.Call.Args) == 1 {
			if e.textOfError(call.Call.Args[0], 4) {
				e.Losses = append(e.Losses, errLoss{call, call.Parent(), "errors.New over the text of another error: the cause is dropped"})
			}
		}
		e.Leaves++
		return
	case matchName(names, "errors.Join"):
		for _, o := range variadicOperands(call.Call.Args[0]) {
			e.val(o, depth)
		}
		return
	}
	if cc := call.Common(); cc.IsInvoke() && typeShort(cc.Value.Type()) == "dcs.DCS" {
		e.DCSOps[cc.Method.Name()] = true
		e.Leaves++
		return // the client below the interface is C15.MAP's subject
	}
	callees := p.Callees(call)
	if len(callees) == 0 {
		e.Leaves++
		return
	}
	for _, fn := range callees {
		e.fn(fn, idx, depth-1)
	}
}

// textOfError: v is (built from) the Error() text of an error value.
func (e *errChain) textOfError(v ssa.Value, depth int) bool {
	if depth == 0 || v == nil {
		return false
	}
	switch x := v.(type) {
	case *ssa.Call:
		c := x.Common()
		if c.IsInvoke() && c.Method.Name() == "Error" && isErrorLike(c.Value.Type()) {
			return true
		}
		if fn := c.StaticCallee(); fn != nil && fn.Name() == "Error" && fn.Signature.Recv() != nil {
			return true
		}
		if matchName(e.p.CalleeNames(x), "fmt.Sprintf", "fmt.Sprint", "fmt.Sprintln") {
			args := x.Call.Args
			for _, o := range variadicOperands(args[len(args)-1]) {
				if isErrorLike(underIface(o).Type()) || e.textOfError(underIface(o), depth-1) {
					return true
				}
			}
		}
	case *ssa.BinOp:
		return e.textOfError(x.X, depth-1) || e.textOfError(x.Y, depth-1)
	case *ssa.Phi:
		for _, ed := range x.Edges {
			if e.textOfError(ed, depth-1) {
				return true
			}
		}
	}
	return false
}

func matchName(names []string, want ...string) bool {
	for _, n := range names {
		for _, w := range want {
			if n == w {
				return true
			}
		}
	}
	return false
}

// errTestSite is one errors.Is / errors.As call in module code.
type errTestSite struct {
	Fn     *ssa.Function
	Call   *ssa.Call
	Kind   string // Is, As
	Target string // sentinel or target type
}

func (p *Prog) errTestSites() []errTestSite {
	var out []errTestSite
	for _, fn := range p.ModFuncs {
		if fn.Synthetic != "" && fn.Syntax() == nil {
			continue
		}
		if pos := fn.Pos(); pos.IsValid() && strings.HasSuffix(p.Fset.Position(pos).Filename, "_test.go") {
			continue
		}
		for _, b := range fn.Blocks {
			for _, in := range b.Instrs {
				call, ok := in.(*ssa.Call)
				if !ok {
					continue
				}
				names := p.CalleeNames(call)
				switch {
				case matchName(names, "errors.Is"):
					t := p.T(call.Call.Args[1])
					tgt := t.Name
					if t.Op != "global" {
						tgt = t.String()
					}
					out = append(out, errTestSite{fn, call, "Is", tgt})
				case matchName(names, "errors.As"):
					x := underIface(call.Call.Args[1])
					out = append(out, errTestSite{fn, call, "As", typeShort(deref(x.Type()))})
				}
			}
		}
	}
	return out
}

// ErrIdentityRule records, for every selected test site, the obligation that the return chain
// behind the tested error preserves identity.
func (c *Check) ErrIdentityRule(sel func(s errTestSite) bool, minSites int) {
	p := c.p
	n := 0
	perFn := map[string]int{}
	for _, s := range p.errTestSites() {
		if !sel(s) {
			continue
		}
		n++
		ch := newErrChain(c)
		ch.val(s.Call.Call.Args[0], 6)
		fnName := p.Name(s.Fn)
		perFn[fnName+":"+s.Target]++
		construct := nthKey("errors."+s.Kind+":"+s.Target, perFn[fnName+":"+s.Target])
		var chain []string
		for f := range ch.Funcs {
			chain = append(chain, p.Name(f))
		}
		sort.Strings(chain)
		desc := fmt.Sprintf("the error tested against %s reaches the test with its chain intact (returned as is or wrapped with %%w) through %d in-module function(s)", s.Target, len(chain))
		if len(ch.Losses) == 0 {
			c.Hold(fnName, p.InstrPos(s.Call), construct, desc)
			continue
		}
		var why []string
		for _, l := range ch.Losses {
			why = append(why, p.InstrPos(l.At)+" in "+p.Name(l.Fn)+": "+l.Why)
		}
		sort.Strings(why)
		c.Fail(fnName, p.InstrPos(s.Call), construct, desc, strings.Join(why, "; "))
	}
	c.Req(n >= minSites, "-", "-", "test-sites", fmt.Sprintf("at least %d error-identity test sites are analysed", minSites), fmt.Sprintf("%d", n))
}
