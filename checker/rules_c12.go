package main

import (
	"fmt"
	"sort"
	"strings"

	"golang.org/x/tools/go/ssa"
)

const (
	fnReqImpl    = "(*mysql.SwitchHelper).GetRequiredWaitSlaveCount"
	fnQuorumImpl = "(*mysql.SwitchHelper).GetFailoverQuorum"
	fnCheckImpl  = "(*mysql.SwitchHelper).CheckFailoverQuorum"
)

func init() {
	register("C12", "proof",
		"The whole statement is discharged for ALL integers n >= 0 (list length), w >= 0 (configured count), p >= 0 (alive replicas): the three helpers are loop-free integer code; the analyser extracts their results from SSA as terms over n, w, p with + - /const min max and path conditions (callees inlined, if-rewrites of min/max handled as paths), "+
			"and proves each obligation by case-splitting min/max and n/2 (d with 2d <= n <= 2d+1) and Fourier–Motzkin elimination with integer tightening — the convex-polyhedra domain with disjunctive completion, inside the analyser. "+
			"Obligations: O1 R <= max(n-1,0); O2 (n>=2 ∧ w>=1 ⇒ R>=1) ∧ (n<=1 ⇒ R=0) ∧ (w=0 ⇒ R=0); O3 Q >= 1; O4 Q+R >= n (so every failover quorum meets every acknowledging set); O5 the check returns nil iff (semi-sync ⇒ p >= Q) ∧ (¬semi-sync ⇒ p >= 1); O6 0 <= R <= n. "+
			"(USE) keeps the proof attached to the program: the daemon's quorum decisions are calls of the checked helper, the interface has the one implementation, and the integer handed to the server's wait-count statement is the helper's result minus failed enables.",
		"nothing of the statement; assumes a non-negative configured count (the property's quantifier) and Go int = mathematical integers on [0, len]",
		runC12)
}

func runC12(c *Check) {
	p := c.p
	R := p.MustFunc(fnReqImpl)
	Q := p.MustFunc(fnQuorumImpl)
	K := p.MustFunc(fnCheckImpl)
	n, w, pp := sVar("n"), sVar("w"), sVar("p")
	bindFor := func(f *ssa.Function) (map[ssa.Value]*SymExpr, map[ssa.Value]*SymExpr) {
		bind, lens := map[ssa.Value]*SymExpr{}, map[ssa.Value]*SymExpr{}
		for _, pa := range f.Params {
			switch {
			case strings.HasPrefix(pa.Type().String(), "[]"):
				lens[pa] = n
			case pa.Type().String() == "int":
				bind[pa] = pp
			}
		}
		return bind, lens
	}
	// rename the field variable to w everywhere
	var ren func(e *SymExpr) *SymExpr
	ren = func(e *SymExpr) *SymExpr {
		if e == nil {
			return nil
		}
		if e.Op == "var" && e.Name == "f:rplSemiSyncMasterWaitForSlaveCount" {
			return w
		}
		return &SymExpr{Op: e.Op, K: e.K, Name: e.Name, A: ren(e.A), B: ren(e.B)}
	}
	renCases := func(cs []SymCase) []SymCase {
		for i := range cs {
			for j := range cs[i].Conds {
				cs[i].Conds[j] = Rel{ren(cs[i].Conds[j].A), cs[i].Conds[j].Op, ren(cs[i].Conds[j].B)}
			}
			for j := range cs[i].Ret {
				cs[i].Ret[j].Int = ren(cs[i].Ret[j].Int)
			}
		}
		return cs
	}
	exec := func(f *ssa.Function) []SymCase {
		bind, lens := bindFor(f)
		cs, err := p.SymExec(f, bind, lens, 0)
		if err != nil {
			c.Undecided(p.Name(f), p.Pos(f.Pos()), "symbolic-evaluation", "the helper is loop-free integer code the analyser can evaluate", err.Error())
			return nil
		}
		c.Hold(p.Name(f), p.Pos(f.Pos()), "symbolic-evaluation", fmt.Sprintf("evaluated to %d path case(s)", len(cs)))
		return renCases(cs)
	}
	base := []Rel{{n, ">=", sConst(0)}, {w, ">=", sConst(0)}, {pp, ">=", sConst(0)}}
	freeVars := func(rels []Rel, goal Rel) []string {
		set := map[string]bool{}
		var rec func(e *SymExpr)
		rec = func(e *SymExpr) {
			if e == nil {
				return
			}
			if e.Op == "var" {
				set[e.Name] = true
			}
			rec(e.A)
			rec(e.B)
		}
		for _, r := range append(rels, goal) {
			rec(r.A)
			rec(r.B)
		}
		var out []string
		for v := range set {
			out = append(out, v)
		}
		sort.Strings(out)
		return out
	}
	var proofs []map[string]any
	prove := func(id, fn string, hyps []Rel, goal Rel, what string) {
		all := append(append([]Rel{}, base...), hyps...)
		ok := Entails(all, goal)
		det := ""
		if !ok {
			if ce := CounterCase(freeVars(all, goal), all, goal, 9); ce != nil {
				det = fmt.Sprintf("counter-case %v falsifies %s", ce, goal)
			} else {
				det = "entailment not established for " + goal.String()
			}
		}
		var hs []string
		for _, h := range hyps {
			hs = append(hs, h.String())
		}
		proofs = append(proofs, map[string]any{"obligation": id, "hypotheses": hs, "goal": goal.String(), "proved": ok})
		c.Req(ok, fn, "-", id, what+": "+strings.Join(hs, " ∧ ")+" ⊨ "+goal.String(), det)
	}

	var rCases, qCases []SymCase
	c.Rule("C12.O1-O2-O6", func() {
		rCases = exec(R)
		for i, rc := range rCases {
			if len(rc.Ret) != 1 || rc.Ret[0].Kind != "int" {
				c.Undecided(fnReqImpl, "-", "result", "one integer result", "")
				continue
			}
			r := rc.Ret[0].Int
			k := func(o string) string { return fmt.Sprintf("%s[case %d: R=%s]", o, i+1, r) }
			prove(k("O1"), fnReqImpl, rc.Conds, Rel{r, "<=", sMax(sSub(n, sConst(1)), sConst(0))}, "never more acknowledgements than replicas in the list")
			prove(k("O2a"), fnReqImpl, append(append([]Rel{}, rc.Conds...), Rel{n, ">=", sConst(2)}, Rel{w, ">=", sConst(1)}), Rel{r, ">=", sConst(1)}, "at least one acknowledgement when the list has a replica and the configured count is positive")
			prove(k("O2b"), fnReqImpl, append(append([]Rel{}, rc.Conds...), Rel{n, "<=", sConst(1)}), Rel{r, "==", sConst(0)}, "zero when the list has no replica")
			prove(k("O2c"), fnReqImpl, append(append([]Rel{}, rc.Conds...), Rel{w, "==", sConst(0)}), Rel{r, "==", sConst(0)}, "zero when the configured count is zero")
			prove(k("O6lo"), fnReqImpl, rc.Conds, Rel{r, ">=", sConst(0)}, "the count is not negative")
			prove(k("O6hi"), fnReqImpl, rc.Conds, Rel{r, "<=", n}, "n - R cannot underflow")
		}
	})
	c.Rule("C12.O3-O4", func() {
		qCases = exec(Q)
		for i, qc := range qCases {
			if len(qc.Ret) != 1 || qc.Ret[0].Kind != "int" {
				c.Undecided(fnQuorumImpl, "-", "result", "one integer result", "")
				continue
			}
			q := qc.Ret[0].Int
			prove(fmt.Sprintf("O3[case %d: Q=%s]", i+1, q), fnQuorumImpl, qc.Conds, Rel{q, ">=", sConst(1)}, "the failover quorum is at least one")
			for j, rc := range rCases {
				if len(rc.Ret) != 1 || rc.Ret[0].Int == nil {
					continue
				}
				hy := append(append([]Rel{}, qc.Conds...), rc.Conds...)
				prove(fmt.Sprintf("O4[Q case %d, R case %d]", i+1, j+1), fnQuorumImpl, hy, Rel{sAdd(q, rc.Ret[0].Int), ">=", n}, "quorum + acknowledgements exceed the number of replicas: every failover quorum meets every acknowledging set")
			}
		}
		c.Req(len(rCases) > 0 && len(qCases) > 0, fnQuorumImpl, "-", "cases", "both helpers were evaluated", "")
	})
	c.Rule("C12.O5", func() {
		kc := exec(K)
		nSemi, nAsync := 0, 0
		for i, cs := range kc {
			if len(cs.Ret) != 1 {
				continue
			}
			semi, known := cs.Bools["f:SemiSync"]
			if !known {
				c.Undecided(fnCheckImpl, "-", fmt.Sprintf("case %d", i+1), "every path of the check fixes the semi-sync switch", "path does not test SemiSync")
				continue
			}
			switch {
			case semi:
				nSemi++
				for j, qc := range qCases {
					if len(qc.Ret) != 1 || qc.Ret[0].Int == nil {
						continue
					}
					hy := append(append([]Rel{}, cs.Conds...), qc.Conds...)
					if cs.Ret[0].Kind == "nil" {
						prove(fmt.Sprintf("O5[semi-sync, nil, path %d, Q case %d]", i+1, j+1), fnCheckImpl, hy, Rel{pp, ">=", qc.Ret[0].Int}, "with semi-sync the check passes only with p >= Q")
					} else if cs.Ret[0].Kind == "nonnil" {
						prove(fmt.Sprintf("O5[semi-sync, error, path %d, Q case %d]", i+1, j+1), fnCheckImpl, hy, Rel{pp, "<", qc.Ret[0].Int}, "with semi-sync the check fails only with p < Q")
					} else {
						c.Undecided(fnCheckImpl, "-", fmt.Sprintf("case %d", i+1), "the check returns nil or a fresh error", cs.Ret[0].Kind)
					}
				}
			default:
				nAsync++
				if cs.Ret[0].Kind == "nil" {
					prove(fmt.Sprintf("O5[async, nil, path %d]", i+1), fnCheckImpl, cs.Conds, Rel{pp, ">=", sConst(1)}, "without semi-sync the check passes only with an alive active replica")
				} else if cs.Ret[0].Kind == "nonnil" {
					prove(fmt.Sprintf("O5[async, error, path %d]", i+1), fnCheckImpl, cs.Conds, Rel{pp, "==", sConst(0)}, "without semi-sync the check fails only with no alive active replica")
				} else {
					c.Undecided(fnCheckImpl, "-", fmt.Sprintf("case %d", i+1), "the check returns nil or a fresh error", cs.Ret[0].Kind)
				}
			}
		}
		c.Req(nSemi >= 2 && nAsync >= 2, fnCheckImpl, "-", "paths", "the check has passing and failing paths for both modes", fmt.Sprintf("semi=%d async=%d", nSemi, nAsync))
	})
	c.extra["proofs"] = proofs

	c.Rule("C12.USE", func() {
		// the interface has exactly one implementation
		for _, m := range []string{"GetRequiredWaitSlaveCount", "GetFailoverQuorum", "CheckFailoverQuorum"} {
			impls := map[string]bool{}
			sites := 0
			for _, fn := range p.ModFuncs {
				for _, ci := range p.Calls(fn, "(mysql.ISwitchHelper)."+m) {
					sites++
					for _, cal := range p.Callees(ci) {
						impls[p.Name(cal)] = true
					}
				}
			}
			var is []string
			for k := range impls {
				is = append(is, k)
			}
			sort.Strings(is)
			if sites == 0 {
				continue
			}
			c.Req(len(is) == 1 && is[0] == "(*mysql.SwitchHelper)."+m, "(mysql.ISwitchHelper)."+m, "-", "single-implementation", "every interface call resolves to the proved implementation", strings.Join(is, ","))
		}
		// quorum decisions in the daemon go through the checked helper
		nq := 0
		for _, fn := range p.ModFuncs {
			if !strings.Contains(p.Name(fn), "app.") {
				continue
			}
			nq += len(p.Calls(fn, fnQuorum))
			for _, ci := range p.Calls(fn, "(mysql.ISwitchHelper).GetFailoverQuorum", fnQuorumImpl) {
				c.Fail(p.Name(fn), p.InstrPos(ci), "own-quorum-comparison", "the daemon does not compare against the quorum itself; it calls the checked helper", "")
			}
		}
		c.Req(nq >= 3, "internal/app", "-", "quorum-decisions", "the daemon's quorum decisions (failover approval, switchover approval, recount after freeze) call CheckFailoverQuorum", fmt.Sprintf("%d sites", nq))
		// the statement's argument
		A := p.MustFunc(fnAdjust)
		for _, ci := range p.Calls(A, "(*mysql.Node).SetSemiSyncWaitSlaveCount") {
			c.Req(ci.Common().Args[1] == ssa.Value(A.Params[3]), p.Name(A), p.InstrPos(ci), "wait-count:argument", "the count sent to the server is the count the caller computed", "")
		}
		U := p.MustFunc(fnUpdateAN)
		ufa := p.FA(U)
		for _, a := range p.Calls(U, fnAdjust) {
			cnt := p.T(a.Common().Args[3])
			okc := derivesOnly(cnt, func(x *Term) bool {
				if p.IsCall(x, fnReqCount) {
					return true
				}
				if x.Op == "bin" && x.Name == "-" && x.Args[1].IsConst("1") {
					in, ok := x.V.(ssa.Instruction)
					if !ok {
						return false
					}
					g, _ := ufa.Gated(in, p.ErrNonNil(fnEnableSlave))
					return g
				}
				return false
			})
			c.Req(okc, p.Name(U), p.InstrPos(a), "wait-count:source@"+fmt.Sprint(a.Block().Index), "the count handed to the master is GetRequiredWaitSlaveCount(...) minus failed enables only", "is "+cnt.String())
		}
	})
}
