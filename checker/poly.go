package main

// E6: symbolic evaluation of loop-free integer code and a small decision procedure
// for linear integer arithmetic with min/max/division-by-constant (case splitting +
// Fourier–Motzkin elimination with integer tightening). Part of the analyser; no
// external solver, nothing from the repository is executed.

import (
	"fmt"
	"go/constant"
	"go/token"
	"sort"
	"strings"

	"golang.org/x/tools/go/ssa"
)

// SymExpr is an integer expression tree.
type SymExpr struct {
	Op   string // const var add sub mulc divc min max
	K    int64
	Name string
	A, B *SymExpr
}

func sConst(k int64) *SymExpr     { return &SymExpr{Op: "const", K: k} }
func sVar(n string) *SymExpr      { return &SymExpr{Op: "var", Name: n} }
func sAdd(a, b *SymExpr) *SymExpr { return &SymExpr{Op: "add", A: a, B: b} }
func sSub(a, b *SymExpr) *SymExpr { return &SymExpr{Op: "sub", A: a, B: b} }
func sMin(a, b *SymExpr) *SymExpr { return &SymExpr{Op: "min", A: a, B: b} }
func sMax(a, b *SymExpr) *SymExpr { return &SymExpr{Op: "max", A: a, B: b} }

func (e *SymExpr) String() string {
	switch e.Op {
	case "const":
		return fmt.Sprint(e.K)
	case "var":
		return e.Name
	case "add":
		return "(" + e.A.String() + " + " + e.B.String() + ")"
	case "sub":
		return "(" + e.A.String() + " - " + e.B.String() + ")"
	case "mulc":
		return fmt.Sprintf("%d*%s", e.K, e.A)
	case "divc":
		return fmt.Sprintf("(%s / %d)", e.A, e.K)
	case "min":
		return "min(" + e.A.String() + ", " + e.B.String() + ")"
	case "max":
		return "max(" + e.A.String() + ", " + e.B.String() + ")"
	}
	return "?"
}

// Eval evaluates the expression under an assignment (used only to print a concrete
// counter-case of the extracted term when an entailment fails).
func (e *SymExpr) Eval(env map[string]int64) int64 {
	switch e.Op {
	case "const":
		return e.K
	case "var":
		return env[e.Name]
	case "add":
		return e.A.Eval(env) + e.B.Eval(env)
	case "sub":
		return e.A.Eval(env) - e.B.Eval(env)
	case "mulc":
		return e.K * e.A.Eval(env)
	case "divc":
		return e.A.Eval(env) / e.K // Go semantics: truncation
	case "min":
		a, b := e.A.Eval(env), e.B.Eval(env)
		if a < b {
			return a
		}
		return b
	case "max":
		a, b := e.A.Eval(env), e.B.Eval(env)
		if a > b {
			return a
		}
		return b
	}
	return 0
}

// Rel is a relation between expressions: A op B, op in < <= == != >= >.
type Rel struct {
	A  *SymExpr
	Op string
	B  *SymExpr
}

func (r Rel) String() string { return r.A.String() + " " + r.Op + " " + r.B.String() }

func (r Rel) Holds(env map[string]int64) bool {
	a, b := r.A.Eval(env), r.B.Eval(env)
	switch r.Op {
	case "<":
		return a < b
	case "<=":
		return a <= b
	case "==":
		return a == b
	case "!=":
		return a != b
	case ">=":
		return a >= b
	case ">":
		return a > b
	}
	return false
}

func (r Rel) Neg() Rel {
	n := map[string]string{"<": ">=", "<=": ">", "==": "!=", "!=": "==", ">=": "<", ">": "<="}
	return Rel{r.A, n[r.Op], r.B}
}

// ---------------------------------------------------------------------------
// linear constraints  sum(c_i x_i) + k >= 0

type lin struct {
	c map[string]int64
	k int64
}

func (l lin) clone() lin {
	n := lin{c: map[string]int64{}, k: l.k}
	for v, c := range l.c {
		n.c[v] = c
	}
	return n
}

func (l lin) addScaled(o lin, s int64) lin {
	n := l.clone()
	for v, c := range o.c {
		n.c[v] += s * c
		if n.c[v] == 0 {
			delete(n.c, v)
		}
	}
	n.k += s * o.k
	return n
}

func gcd(a, b int64) int64 {
	if a < 0 {
		a = -a
	}
	if b < 0 {
		b = -b
	}
	for b != 0 {
		a, b = b, a%b
	}
	return a
}

func floorDiv(a, b int64) int64 {
	q := a / b
	if (a%b != 0) && ((a < 0) != (b < 0)) {
		q--
	}
	return q
}

// tighten divides by the gcd of the coefficients, flooring the constant (sound over the integers).
func (l lin) tighten() lin {
	var g int64
	for _, c := range l.c {
		g = gcd(g, c)
	}
	if g <= 1 {
		return l
	}
	n := lin{c: map[string]int64{}, k: floorDiv(l.k, g)}
	for v, c := range l.c {
		n.c[v] = c / g
	}
	return n
}

// system under construction while linearising with case splits
type pcase struct {
	cons  []lin
	fresh int
}

func (pc *pcase) clone() *pcase {
	n := &pcase{fresh: pc.fresh}
	n.cons = append(n.cons, pc.cons...)
	return n
}

// linearise returns, for each case split, the linear form of e together with the case's constraints.
func linearise(e *SymExpr, pc *pcase, out func(lin, *pcase)) {
	switch e.Op {
	case "const":
		out(lin{c: map[string]int64{}, k: e.K}, pc)
	case "var":
		out(lin{c: map[string]int64{e.Name: 1}}, pc)
	case "add", "sub":
		linearise(e.A, pc, func(a lin, pa *pcase) {
			linearise(e.B, pa, func(b lin, pb *pcase) {
				s := int64(1)
				if e.Op == "sub" {
					s = -1
				}
				out(a.addScaled(b, s), pb)
			})
		})
	case "mulc":
		linearise(e.A, pc, func(a lin, pa *pcase) {
			out(lin{c: map[string]int64{}}.addScaled(a, e.K), pa)
		})
	case "divc":
		// d = a / K for a >= 0 (Go truncation = floor): K*d <= a <= K*d + K-1. For a < 0 the
		// other case: K*d >= a >= K*d - (K-1), d <= 0.
		linearise(e.A, pc, func(a lin, pa *pcase) {
			mk := func(neg bool) {
				pn := pa.clone()
				pn.fresh++
				d := fmt.Sprintf("$d%d", pn.fresh)
				dl := lin{c: map[string]int64{d: 1}}
				if !neg {
					pn.cons = append(pn.cons, a.clone())                                                                   // a >= 0
					pn.cons = append(pn.cons, a.addScaled(dl, -e.K))                                                       // a - K d >= 0
					pn.cons = append(pn.cons, lin{c: map[string]int64{}, k: e.K - 1}.addScaled(dl, e.K).addScaled(a, -1)) // K d + K-1 - a >= 0
				} else {
					pn.cons = append(pn.cons, lin{c: map[string]int64{}, k: -1}.addScaled(a, -1))                          // -a - 1 >= 0
					pn.cons = append(pn.cons, lin{c: map[string]int64{}}.addScaled(dl, e.K).addScaled(a, -1))              // K d - a >= 0
					pn.cons = append(pn.cons, a.addScaled(dl, -e.K).addScaled(lin{c: map[string]int64{}, k: e.K - 1}, 1)) // a - K d + K-1 >= 0
				}
				out(dl, pn)
			}
			mk(false)
			mk(true)
		})
	case "min", "max":
		linearise(e.A, pc, func(a lin, pa *pcase) {
			linearise(e.B, pa, func(b lin, pb *pcase) {
				// case 1: a <= b
				p1 := pb.clone()
				p1.cons = append(p1.cons, b.addScaled(a, -1)) // b - a >= 0
				// case 2: a >= b + 1
				p2 := pb.clone()
				p2.cons = append(p2.cons, a.addScaled(b, -1).addScaled(lin{c: map[string]int64{}, k: 1}, -1)) // a - b - 1 >= 0
				if e.Op == "min" {
					out(a, p1)
					out(b, p2)
				} else {
					out(b, p1)
					out(a, p2)
				}
			})
		})
	}
}

// relCases turns a relation into disjunctive cases of linear constraint sets.
func relCases(r Rel, pc *pcase, out func(*pcase)) {
	linearise(r.A, pc, func(a lin, pa *pcase) {
		linearise(r.B, pa, func(b lin, pb *pcase) {
			diff := b.addScaled(a, -1) // b - a
			one := lin{c: map[string]int64{}, k: 1}
			add := func(ls ...lin) {
				pn := pb.clone()
				pn.cons = append(pn.cons, ls...)
				out(pn)
			}
			switch r.Op {
			case "<=":
				add(diff)
			case "<":
				add(diff.addScaled(one, -1))
			case ">=":
				add(lin{c: map[string]int64{}}.addScaled(diff, -1))
			case ">":
				add(lin{c: map[string]int64{}}.addScaled(diff, -1).addScaled(one, -1))
			case "==":
				add(diff, lin{c: map[string]int64{}}.addScaled(diff, -1))
			case "!=":
				add(diff.addScaled(one, -1))
				add(lin{c: map[string]int64{}}.addScaled(diff, -1).addScaled(one, -1))
			}
		})
	})
}

// feasible decides (soundly for "infeasible") whether the system has an integer solution:
// Fourier–Motzkin elimination with gcd tightening. true = may be feasible.
func feasible(cons []lin) bool {
	sys := make([]lin, 0, len(cons))
	for _, c := range cons {
		sys = append(sys, c.tighten())
	}
	for iter := 0; iter < 64; iter++ {
		// trivial contradictions
		vars := map[string]bool{}
		for _, c := range sys {
			if len(c.c) == 0 && c.k < 0 {
				return false
			}
			for v := range c.c {
				vars[v] = true
			}
		}
		if len(vars) == 0 {
			return true
		}
		// pick the variable with the fewest pos*neg combinations
		var names []string
		for v := range vars {
			names = append(names, v)
		}
		sort.Strings(names)
		best, bestCost := "", int(^uint(0)>>1)
		for _, v := range names {
			pos, neg := 0, 0
			for _, c := range sys {
				if c.c[v] > 0 {
					pos++
				} else if c.c[v] < 0 {
					neg++
				}
			}
			if cost := pos * neg; cost < bestCost {
				best, bestCost = v, cost
			}
		}
		var pos, neg, rest []lin
		for _, c := range sys {
			switch {
			case c.c[best] > 0:
				pos = append(pos, c)
			case c.c[best] < 0:
				neg = append(neg, c)
			default:
				rest = append(rest, c)
			}
		}
		for _, a := range pos {
			for _, b := range neg {
				ca, cb := a.c[best], -b.c[best]
				g := gcd(ca, cb)
				n := lin{c: map[string]int64{}}.addScaled(a, cb/g).addScaled(b, ca/g)
				delete(n.c, best)
				rest = append(rest, n.tighten())
			}
		}
		if len(rest) > 4000 {
			return true // give up: undecided counts as "may be feasible"
		}
		sys = rest
	}
	return true
}

// Entails: hyps |= goal over the integers. Sound: true only if hyps ∧ ¬goal is infeasible in every case.
func Entails(hyps []Rel, goal Rel) bool {
	all := append(append([]Rel{}, hyps...), goal.Neg())
	ok := true
	var rec func(i int, pc *pcase)
	rec = func(i int, pc *pcase) {
		if !ok {
			return
		}
		if i == len(all) {
			if feasible(pc.cons) {
				ok = false
			}
			return
		}
		relCases(all[i], pc, func(pn *pcase) { rec(i+1, pn) })
	}
	rec(0, &pcase{})
	return ok
}

// CounterCase searches a small grid for an assignment satisfying hyps and violating goal
// (evaluating the extracted terms; only used to make a failed obligation diagnosable).
func CounterCase(vars []string, hyps []Rel, goal Rel, max int64) map[string]int64 {
	env := map[string]int64{}
	var rec func(i int) bool
	rec = func(i int) bool {
		if i == len(vars) {
			for _, h := range hyps {
				if !h.Holds(env) {
					return false
				}
			}
			return !goal.Holds(env)
		}
		for v := int64(0); v <= max; v++ {
			env[vars[i]] = v
			if rec(i + 1) {
				return true
			}
		}
		return false
	}
	if rec(0) {
		return env
	}
	return nil
}

// ---------------------------------------------------------------------------
// symbolic execution of loop-free functions

// SymCase is one path through a function.
type SymCase struct {
	Conds []Rel           // integer path conditions
	Bools map[string]bool // boolean inputs fixed on this path (e.g. field SemiSync)
	Ret   []SymRet
}

type SymRet struct {
	Int   *SymExpr
	Kind  string // "int" "nil" "nonnil" "bool:true" "bool:false" "other"
	Descr string
}

type symEnv struct {
	p      *Prog
	params map[ssa.Value]*SymExpr // bindings of parameters (ints) / slices (their length var)
	lens   map[ssa.Value]*SymExpr // slice value -> its length expression
	vars   map[string]bool
	depth  int
}

type symPath struct {
	conds []Rel
	bools map[string]bool
	prev  *ssa.BasicBlock
}

// SymExec enumerates the paths of fn. Slice parameters are represented by their
// length `len(<name>)`, integer parameters and integer/bool field loads by variables.
func (p *Prog) SymExec(fn *ssa.Function, bind map[ssa.Value]*SymExpr, lens map[ssa.Value]*SymExpr, depth int) ([]SymCase, error) {
	if depth > 4 {
		return nil, fmt.Errorf("inlining depth exceeded at %s", p.Name(fn))
	}
	// loop-free?
	for _, b := range fn.Blocks {
		for _, s := range b.Succs {
			if s.Dominates(b) {
				return nil, fmt.Errorf("%s has a loop (block %d -> %d)", p.Name(fn), b.Index, s.Index)
			}
		}
	}
	se := &symEnv{p: p, params: bind, lens: lens, vars: map[string]bool{}, depth: depth}
	var out []SymCase
	var err error
	var walk func(b *ssa.BasicBlock, sp symPath)
	walk = func(b *ssa.BasicBlock, sp symPath) {
		if err != nil {
			return
		}
		last := b.Instrs[len(b.Instrs)-1]
		switch x := last.(type) {
		case *ssa.Return:
			// results may depend on inlined callees with several paths: expand
			cases := []SymCase{{Conds: append([]Rel{}, sp.conds...), Bools: copyBools(sp.bools)}}
			for _, r := range x.Results {
				var next []SymCase
				alts, e := se.evalRet(r, b, sp)
				if e != nil {
					err = e
					return
				}
				for _, c := range cases {
					for _, a := range alts {
						nc := SymCase{Conds: append(append([]Rel{}, c.Conds...), a.conds...), Bools: copyBools(c.Bools), Ret: append(append([]SymRet{}, c.Ret...), a.ret)}
						for k, v := range a.bools {
							if old, ok := nc.Bools[k]; ok && old != v {
								nc.Bools = nil
								break
							}
							nc.Bools[k] = v
						}
						if nc.Bools != nil {
							next = append(next, nc)
						}
					}
				}
				cases = next
			}
			out = append(out, cases...)
		case *ssa.Jump:
			walk(b.Succs[0], symPath{sp.conds, sp.bools, b})
		case *ssa.If:
			for si, s := range b.Succs {
				nsp := symPath{append([]Rel{}, sp.conds...), copyBools(sp.bools), b}
				forks, e := se.assume(x.Cond, si == 0, b, nsp)
				if e != nil {
					err = e
					return
				}
				for _, f := range forks {
					f.prev = b
					walk(s, f)
				}
			}
		case *ssa.Panic:
			// not a return
		default:
			err = fmt.Errorf("unsupported terminator %T in %s", last, p.Name(fn))
		}
	}
	walk(fn.Blocks[0], symPath{bools: map[string]bool{}})
	return out, err
}

func copyBools(m map[string]bool) map[string]bool {
	n := map[string]bool{}
	for k, v := range m {
		n[k] = v
	}
	return n
}

type retAlt struct {
	conds []Rel
	bools map[string]bool
	ret   SymRet
}

func (se *symEnv) evalRet(v ssa.Value, b *ssa.BasicBlock, sp symPath) ([]retAlt, error) {
	p := se.p
	t := v.Type().String()
	switch {
	case t == "int" || t == "int64" || t == "int32":
		alts, err := se.intAlts(v, b, sp)
		if err != nil {
			return nil, err
		}
		var out []retAlt
		for _, a := range alts {
			out = append(out, retAlt{a.conds, a.bools, SymRet{Int: a.e, Kind: "int", Descr: a.e.String()}})
		}
		return out, nil
	case t == "error":
		if c, ok := v.(*ssa.Const); ok && c.Value == nil {
			return []retAlt{{ret: SymRet{Kind: "nil", Descr: "nil"}}}, nil
		}
		tt := p.T(v)
		if call := ResultOf(tt, -1); call != nil && p.IsCall(call, "fmt.Errorf", "errors.New") {
			return []retAlt{{ret: SymRet{Kind: "nonnil", Descr: "error"}}}, nil
		}
		// result of an inlined module callee
		if call, ok := v.(*ssa.Call); ok {
			if callee := call.Call.StaticCallee(); callee != nil && p.InModule(callee) {
				cases, err := se.inline(call, callee, b, sp)
				if err != nil {
					return nil, err
				}
				var out []retAlt
				for _, c := range cases {
					out = append(out, retAlt{c.Conds, c.Bools, c.Ret[0]})
				}
				return out, nil
			}
		}
		return nil, fmt.Errorf("unsupported error value %s", tt)
	case t == "bool":
		if c, ok := v.(*ssa.Const); ok && c.Value != nil {
			return []retAlt{{ret: SymRet{Kind: "bool:" + c.Value.ExactString()}}}, nil
		}
	}
	return []retAlt{{ret: SymRet{Kind: "other", Descr: p.T(v).String()}}}, nil
}

type intAlt struct {
	conds []Rel
	bools map[string]bool
	e     *SymExpr
}

// intAlts evaluates an integer SSA value on the current path. Phis are resolved by
// the path's predecessor; inlined callees may contribute several alternatives.
func (se *symEnv) intAlts(v ssa.Value, b *ssa.BasicBlock, sp symPath) ([]intAlt, error) {
	p := se.p
	one := func(e *SymExpr) ([]intAlt, error) { return []intAlt{{e: e}}, nil }
	combine := func(x, y ssa.Value, f func(a, b *SymExpr) *SymExpr) ([]intAlt, error) {
		as, err := se.intAlts(x, b, sp)
		if err != nil {
			return nil, err
		}
		bs, err := se.intAlts(y, b, sp)
		if err != nil {
			return nil, err
		}
		var out []intAlt
		for _, a := range as {
			for _, bb := range bs {
				out = append(out, intAlt{append(append([]Rel{}, a.conds...), bb.conds...), mergeBools(a.bools, bb.bools), f(a.e, bb.e)})
			}
		}
		return out, nil
	}
	switch x := v.(type) {
	case *ssa.Const:
		if x.Value != nil && x.Value.Kind() == constant.Int {
			k, _ := constant.Int64Val(x.Value)
			return one(sConst(k))
		}
	case *ssa.Parameter:
		if e, ok := se.params[x]; ok {
			return one(e)
		}
		return one(sVar("p:" + x.Name()))
	case *ssa.Convert:
		return se.intAlts(x.X, b, sp)
	case *ssa.ChangeType:
		return se.intAlts(x.X, b, sp)
	case *ssa.UnOp:
		if x.Op == token.MUL {
			if fa, ok := x.X.(*ssa.FieldAddr); ok {
				return one(sVar("f:" + afterDot(fieldName(fa.X.Type(), fa.Field))))
			}
		}
		if x.Op == token.SUB {
			return combine(x.X, x.X, func(a, _ *SymExpr) *SymExpr { return sSub(sConst(0), a) })
		}
	case *ssa.BinOp:
		switch x.Op {
		case token.ADD:
			return combine(x.X, x.Y, sAdd)
		case token.SUB:
			return combine(x.X, x.Y, sSub)
		case token.QUO:
			if c, ok := x.Y.(*ssa.Const); ok && c.Value != nil {
				k, _ := constant.Int64Val(c.Value)
				if k > 0 {
					return combine(x.X, x.X, func(a, _ *SymExpr) *SymExpr { return &SymExpr{Op: "divc", K: k, A: a} })
				}
			}
		case token.MUL:
			if c, ok := x.Y.(*ssa.Const); ok && c.Value != nil {
				k, _ := constant.Int64Val(c.Value)
				return combine(x.X, x.X, func(a, _ *SymExpr) *SymExpr { return &SymExpr{Op: "mulc", K: k, A: a} })
			}
			if c, ok := x.X.(*ssa.Const); ok && c.Value != nil {
				k, _ := constant.Int64Val(c.Value)
				return combine(x.Y, x.Y, func(a, _ *SymExpr) *SymExpr { return &SymExpr{Op: "mulc", K: k, A: a} })
			}
		}
	case *ssa.Phi:
		for i, pred := range x.Block().Preds {
			if pred == sp.prev && x.Block() == b {
				return se.intAlts(x.Edges[i], b, sp)
			}
		}
		return nil, fmt.Errorf("phi outside the current path at %s", p.InstrPos(x))
	case *ssa.Call:
		if bi, ok := x.Call.Value.(*ssa.Builtin); ok {
			switch bi.Name() {
			case "len":
				if e, ok := se.lens[x.Call.Args[0]]; ok {
					return one(e)
				}
				if pa, ok := x.Call.Args[0].(*ssa.Parameter); ok {
					return one(sVar("len:" + pa.Name()))
				}
			case "min":
				if len(x.Call.Args) == 2 {
					return combine(x.Call.Args[0], x.Call.Args[1], sMin)
				}
			case "max":
				if len(x.Call.Args) == 2 {
					return combine(x.Call.Args[0], x.Call.Args[1], sMax)
				}
			}
		}
		if callee := x.Call.StaticCallee(); callee != nil && p.InModule(callee) {
			cases, err := se.inline(x, callee, b, sp)
			if err != nil {
				return nil, err
			}
			var out []intAlt
			for _, c := range cases {
				if len(c.Ret) != 1 || c.Ret[0].Kind != "int" {
					return nil, fmt.Errorf("inlined %s does not return one integer", p.Name(callee))
				}
				out = append(out, intAlt{c.Conds, c.Bools, c.Ret[0].Int})
			}
			return out, nil
		}
	}
	return nil, fmt.Errorf("unsupported integer value %s (%T) at %s", p.T(v), v, p.Pos(v.Pos()))
}

func mergeBools(a, b map[string]bool) map[string]bool {
	n := map[string]bool{}
	for k, v := range a {
		n[k] = v
	}
	for k, v := range b {
		n[k] = v
	}
	return n
}

func (se *symEnv) inline(call *ssa.Call, callee *ssa.Function, b *ssa.BasicBlock, sp symPath) ([]SymCase, error) {
	bind := map[ssa.Value]*SymExpr{}
	lens := map[ssa.Value]*SymExpr{}
	for i, pa := range callee.Params {
		if i >= len(call.Call.Args) {
			continue
		}
		a := call.Call.Args[i]
		switch pa.Type().Underlying().String() {
		case "int", "int64":
			alts, err := se.intAlts(a, b, sp)
			if err != nil || len(alts) != 1 {
				return nil, fmt.Errorf("argument %d of %s is not a single integer expression", i, se.p.Name(callee))
			}
			bind[pa] = alts[0].e
		default:
			if strings.HasPrefix(pa.Type().String(), "[]") {
				if e, ok := se.lens[a]; ok {
					lens[pa] = e
				} else if ap, ok := a.(*ssa.Parameter); ok {
					lens[pa] = sVar("len:" + ap.Name())
				} else {
					return nil, fmt.Errorf("slice argument %d of %s is not a parameter", i, se.p.Name(callee))
				}
			}
		}
	}
	return se.p.SymExec(callee, bind, lens, se.depth+1)
}

// assume adds "cond == truth" to the path; it returns the resulting paths (none when the
// edge is infeasible by constants, several when an operand has alternatives).
func (se *symEnv) assume(cond ssa.Value, truth bool, b *ssa.BasicBlock, sp symPath) ([]symPath, error) {
	switch x := cond.(type) {
	case *ssa.Const:
		if (x.Value.ExactString() == "true") == truth {
			return []symPath{sp}, nil
		}
		return nil, nil
	case *ssa.UnOp:
		if x.Op == token.NOT {
			return se.assume(x.X, !truth, b, sp)
		}
		if x.Op == token.MUL {
			if fa, ok := x.X.(*ssa.FieldAddr); ok {
				name := "f:" + afterDot(fieldName(fa.X.Type(), fa.Field))
				if old, ok := sp.bools[name]; ok && old != truth {
					return nil, nil
				}
				sp.bools[name] = truth
				return []symPath{sp}, nil
			}
		}
	case *ssa.BinOp:
		ops := map[token.Token]string{token.LSS: "<", token.LEQ: "<=", token.EQL: "==", token.NEQ: "!=", token.GEQ: ">=", token.GTR: ">"}
		if op, ok := ops[x.Op]; ok {
			as, err := se.intAlts(x.X, b, sp)
			if err != nil {
				return nil, err
			}
			bs, err := se.intAlts(x.Y, b, sp)
			if err != nil {
				return nil, err
			}
			var out []symPath
			for _, a := range as {
				for _, bb := range bs {
					r := Rel{a.e, op, bb.e}
					if !truth {
						r = r.Neg()
					}
					n := symPath{append(append(append(append([]Rel{}, sp.conds...), a.conds...), bb.conds...), r), mergeBools(mergeBools(sp.bools, a.bools), bb.bools), sp.prev}
					out = append(out, n)
				}
			}
			return out, nil
		}
	}
	return nil, fmt.Errorf("unsupported branch condition %s at %s", se.p.T(cond), se.p.Pos(cond.Pos()))
}
