package main

// The coordination wrappers (internal/app/app_dcs_impl.go) and the statement / client helpers
// below them. Every property reads or writes the coordination service through these thin
// functions; the property rules above them assume "the wrapper named SetX overwrites X and says
// so when it fails". Five contract rules, reported under the id of each property that uses the
// wrapper (shared rule APPDCS) and under C15 for all of them:
//
//  W1 EFFECTS   the (operation, key) set of every wrapper equals the frozen table below (read and
//               confirmed against the sources; a wrapper that loses its overwrite, gains a write
//               or changes its key is a different wrapper);
//  W2 FAILPROP  from a "call failed and the failure is not a tolerated sentinel" edge no success
//               return is reachable (a wrapper never turns a failed call into success);
//  W3 ALLWRITES in a wrapper that only writes, every write site precedes every success return;
//  W4 SENTINELS the sentinels a wrapper branches on are exactly those of its contract (create-if-absent
//               tolerates 'exists', a read with a default tolerates 'not found', two also 'malformed');
//  W5 NOTRANS   the error a wrapper returns is nil, the failed call's own error or a %w-wrap of it
//               — never another sentinel (listed exceptions).

import (
	"fmt"
	"sort"
	"strings"

	"golang.org/x/tools/go/ssa"
)

type wrapperSpec struct {
	Effects []string // "Op(key)"
	Props   []string // properties that depend on it (C15 always)
}

var appDCSWrappers = map[string]wrapperSpec{
	"ClearRecovery":                   {[]string{"Delete(recovery/*)"}, []string{"C11"}},
	"CreateCurrentSwitchover":         {[]string{"Create(switch)"}, []string{"C05", "C06"}},
	"DeleteActiveNodes":               {[]string{"Delete(active_nodes)"}, []string{"C04", "C09"}},
	"DeleteCurrentSwitchover":         {[]string{"Delete(switch)"}, []string{"C06"}},
	"DeleteMaintenance":               {[]string{"Delete(maintenance)"}, []string{"C09"}},
	"FetchCascadeNodeConfigurations":  {[]string{"GetChildren(cascade_nodes)", "Get(cascade_nodes/*)"}, []string{"C16"}},
	"GetActiveNodes":                  {[]string{"Get(active_nodes)"}, []string{"C01", "C04", "C05"}},
	"GetClusterCascadeFqdnsFromDcs":   {[]string{"GetChildren(cascade_nodes)"}, []string{"C16"}},
	"GetCurrentSwitchover":            {[]string{"Get(switch)"}, []string{"C05", "C06", "C07"}},
	"GetHealthState":                  {[]string{"Get(health/*)"}, []string{"C05"}},
	"GetHostsOnRecovery":              {[]string{"GetChildren(recovery)"}, []string{"C04", "C11"}},
	"GetLastRejectedSwitchover":       {[]string{"Get(last_rejected_switch)"}, []string{"C06"}},
	"GetLastSwitchover":               {[]string{"Get(last_switch)"}, []string{"C05", "C06"}},
	"GetMaintenance":                  {[]string{"Get(maintenance)"}, []string{"C09"}},
	"GetMasterHostFromDcs":            {[]string{"Get(master)"}, []string{"C07", "C09", "C10"}},
	"GetNodeConfiguration":            {[]string{"Get(ha_nodes/*)"}, []string{"C14"}},
	"GetOrCreateLastShutdownNodeTime": {[]string{"Get(last_shutdown_node_time)", "Create(last_shutdown_node_time)"}, []string{"C17"}},
	"GetReplMonTS":                    {[]string{"Get(master_repl_mon_ts)"}, []string{"C01"}},
	"GetResetupStatus":                {[]string{"Get(resetup_status/*)"}, []string{"C17"}},
	"IsRecoveryNeeded":                {[]string{"Get(recovery/*)"}, []string{"C10", "C11"}},
	"SetActiveNodes":                  {[]string{"Set(active_nodes)"}, []string{"C04", "C11"}},
	"SetCurrentSwitchover":            {[]string{"Set(switch)"}, []string{"C06"}},
	"SetHealthState":                  {[]string{"SetEphemeral(health/*)"}, []string{"C05"}},
	"SetLastRejectedSwitchover":       {[]string{"Set(last_rejected_switch)"}, []string{"C06"}},
	"SetLastSwitchover":               {[]string{"Set(last_switch)"}, []string{"C05", "C06"}},
	"SetLowSpace":                     {[]string{"Set(low_space)"}, []string{"C18"}},
	"SetMaintenance":                  {[]string{"Set(maintenance)"}, []string{"C09"}},
	"SetMasterHost":                   {[]string{"Set(master)"}, []string{"C07", "C09", "C10"}},
	"SetRecovery":                     {[]string{"Create(recovery)", "Create(recovery/*)"}, []string{"C07", "C10", "C11"}},
	"SetReplMonTS":                    {[]string{"Create(master_repl_mon_ts)", "Set(master_repl_mon_ts)"}, []string{"C01"}},
	"SetResetupStatus":                {[]string{"Create(resetup_status)", "Set(resetup_status/*)"}, []string{"C17"}},
	"UpdateLastShutdownNodeTime":      {[]string{"Set(last_shutdown_node_time)"}, []string{"C17"}},
}

// wrappers allowed to turn a sentinel into a default value (W2/W5 exceptions are per sentinel, confirmed by reading)
var wrapperTolerates = map[string][]string{
	"GetActiveNodes":                  {"dcs.ErrNotFound", "dcs.ErrMalformed"}, // no list yet / unreadable list = empty list
	"GetClusterCascadeFqdnsFromDcs":   {"dcs.ErrNotFound"},
	"GetHostsOnRecovery":              {"dcs.ErrNotFound"},
	"GetMasterHostFromDcs":            {"dcs.ErrNotFound"},
	"GetReplMonTS":                    {"dcs.ErrNotFound"},
	"GetOrCreateLastShutdownNodeTime": {"dcs.ErrNotFound"},
	"SetRecovery":                     {"dcs.ErrExists"},
	"SetResetupStatus":                {"dcs.ErrExists"},
	"SetReplMonTS":                    {"dcs.ErrExists"},
}

func isDCSInvoke(ci ssa.CallInstruction) (string, bool) {
	cc := ci.Common()
	if cc.IsInvoke() && typeShort(cc.Value.Type()) == "dcs.DCS" && dcsOps[cc.Method.Name()] {
		return cc.Method.Name(), true
	}
	return "", false
}

// errOfCall: the error result value(s) of a call instruction.
func errValues(ci ssa.CallInstruction) []ssa.Value {
	v, ok := ci.(ssa.Value)
	if !ok {
		return nil
	}
	res := ci.Common().Signature().Results()
	if res.Len() == 1 && isErrorType(res.At(0).Type()) {
		return []ssa.Value{v}
	}
	var out []ssa.Value
	if v.Referrers() != nil {
		for _, r := range *v.Referrers() {
			if ex, ok := r.(*ssa.Extract); ok && isErrorType(ex.Type()) {
				out = append(out, ex)
			}
		}
	}
	return out
}

func checkAppDCSWrappers(c *Check) {
	p := c.p
	var names []string
	for n := range appDCSWrappers {
		names = append(names, n)
	}
	sort.Strings(names)
	// the table is complete: every method of *appDCS with a coordination effect is in it
	for _, fn := range p.ModFuncs {
		n := p.Name(fn)
		if !strings.HasPrefix(n, "(*app.appDCS).") || strings.Contains(n, "$") {
			continue
		}
		m := strings.TrimPrefix(n, "(*app.appDCS).")
		if _, ok := appDCSWrappers[m]; ok {
			continue
		}
		has := false
		for _, e := range c.eff.Collect(fn, WalkOpts{}) {
			if e.Kind == "DCS" {
				has = true
			}
		}
		if has && c.Prop == "C15" {
			c.Fail(n, p.Pos(fn.Pos()), "wrapper:unknown", "every coordination wrapper is in the contract table", "new wrapper "+m)
		}
	}
	nw := 0
	for _, m := range names {
		spec := appDCSWrappers[m]
		if c.Prop != "C15" && !contains(spec.Props, c.Prop) {
			continue
		}
		nw++
		F := p.MustFunc("(*app.appDCS)." + m)
		fa := p.FA(F)
		name := p.Name(F)
		// W1
		got := map[string]bool{}
		for _, e := range c.eff.Collect(F, WalkOpts{}) {
			if e.Kind == "DCS" {
				got[fmt.Sprintf("%s(%s)", e.Op, e.Key)] = true
			}
		}
		var gs []string
		for g := range got {
			gs = append(gs, g)
		}
		sort.Strings(gs)
		want := append([]string{}, spec.Effects...)
		sort.Strings(want)
		c.Req(strings.Join(gs, " ") == strings.Join(want, " "), name, p.Pos(F.Pos()), "W1:effects", "the wrapper performs exactly its operations on its key: "+strings.Join(want, ", "), "performs "+strings.Join(gs, ", "))
		errIdx := F.Signature.Results().Len() - 1
		hasErr := errIdx >= 0 && isErrorType(F.Signature.Results().At(errIdx).Type())
		if !hasErr {
			continue
		}
		// the coordination calls of the wrapper
		var calls []ssa.CallInstruction
		for _, b := range F.Blocks {
			for _, in := range b.Instrs {
				if ci, ok := in.(ssa.CallInstruction); ok {
					if _, ok := isDCSInvoke(ci); ok {
						calls = append(calls, ci)
					}
				}
			}
		}
		// W2: a failure that is not a tolerated sentinel never ends in a success return
		tolerated := func(l Lit) bool {
			if !l.Pos || !p.IsCall(l.T, "errors.Is") || len(l.T.Args) != 2 || l.T.Args[1].Op != "global" {
				return false
			}
			return contains(wrapperTolerates[m], l.T.Args[1].Name)
		}
		isSuccessRet := func(in ssa.Instruction) bool {
			r, ok := in.(*ssa.Return)
			if !ok || errIdx >= len(r.Results) {
				return false
			}
			k, _ := c.valKind(fa, r, r.Results[errIdx])
			return k == "const:nil" || k == "nil"
		}
		nfail := 0
		for _, b := range F.Blocks {
			for si := range b.Succs {
				for _, l := range fa.EdgeLits(b, si) {
					if l.Pos || l.T.Op != "isnil" {
						continue
					}
					if l.T.Args[0].V == nil || !isErrorType(l.T.Args[0].V.Type()) {
						continue
					}
					r := ResultOf(l.T.Args[0], -1)
					if r == nil || r.In == nil {
						continue
					}
					ci, ok := r.In.(ssa.CallInstruction)
					if !ok {
						continue
					}
					if _, ok := isDCSInvoke(ci); !ok {
						continue
					}
					nfail++
					path, _ := fa.ReachFromEdge(b, si, isSuccessRet, ReachOpts{Cut: []LitPat{tolerated}})
					c.Req(path == nil, name, p.InstrPos(blockIf(b)), nthKey("W2:failure-is-reported", nfail), "once a coordination call failed with anything but a sentinel this wrapper tolerates ("+strings.Join(wrapperTolerates[m], ", ")+"), no success return is reachable", "path to a nil return: "+fa.PathString(path))
				}
			}
		}
		// every coordination call's error is either returned as is or branched on
		for i, ci := range calls {
			used := false
			for _, ev := range errValues(ci) {
				if ev.Referrers() == nil {
					continue
				}
				for _, r := range *ev.Referrers() {
					switch u := r.(type) {
					case *ssa.Return, *ssa.BinOp, *ssa.Phi, *ssa.Store, *ssa.MakeInterface:
						used = true
					case ssa.CallInstruction:
						if matchName(p.CalleeNames(u), "errors.Is", "errors.As", "fmt.Errorf") {
							used = true
						}
					}
				}
			}
			op, _ := isDCSInvoke(ci)
			c.Req(used, name, p.InstrPos(ci), nthKey("W2:error-consumed:"+op, i+1), "the error of the coordination call is returned or tested, not dropped", "")
		}
		// W3: pure writers perform all their writes before reporting success
		pureWriter := len(calls) > 0
		for _, ci := range calls {
			op, _ := isDCSInvoke(ci)
			if !isWriteOp(op) {
				pureWriter = false
			}
		}
		if pureWriter && len(calls) > 1 {
			for i, rs := range c.SuccessSites(F, errIdx, "nil") {
				for j, ci := range calls {
					// the success site may itself be `return a.dcs.Set(...)`: the returned call is the last write
					if rs.Val == ci.(ssa.Value) {
						continue
					}
					ok, path := fa.PrecededBy(rs.At, func(in ssa.Instruction) bool { return in == ci.(ssa.Instruction) })
					op, _ := isDCSInvoke(ci)
					c.Req(ok, name, p.InstrPos(rs.At), fmt.Sprintf("W3:success#%d-after-write#%d:%s", i+1, j+1, op), "success is reported only after every write of the wrapper was issued (no early success that skips the later write)", "path: "+fa.PathString(path))
				}
			}
		}
		// W4: the sentinels the wrapper branches on are exactly the ones its contract tolerates
		tested := map[string]bool{}
		for _, b := range F.Blocks {
			for _, in := range b.Instrs {
				if call, ok := in.(*ssa.Call); ok && matchName(p.CalleeNames(call), "errors.Is") {
					if t := p.T(call.Call.Args[1]); t.Op == "global" {
						tested[t.Name] = true
					}
				}
			}
		}
		var ts []string
		for t := range tested {
			ts = append(ts, t)
		}
		sort.Strings(ts)
		wt := append([]string{}, wrapperTolerates[m]...)
		sort.Strings(wt)
		c.Req(strings.Join(ts, " ") == strings.Join(wt, " "), name, p.Pos(F.Pos()), "W4:sentinels", "the wrapper distinguishes exactly the sentinels of its contract ("+strings.Join(wt, ", ")+"): the one its operation can produce — create: exists; get/children: not found (and malformed where listed)", "tests "+strings.Join(ts, ", "))
		// W6: in a create-if-absent wrapper EVERY create tolerates 'exists' (a re-run after a crash finds the key present)
		if contains(wrapperTolerates[m], "dcs.ErrExists") {
			for i, ci := range calls {
				op, _ := isDCSInvoke(ci)
				if op != "Create" && op != "CreateEphemeral" {
					continue
				}
				tol := false
				for _, ev := range errValues(ci) {
					if ev.Referrers() == nil {
						continue
					}
					for _, r := range *ev.Referrers() {
						if call, ok := r.(*ssa.Call); ok && matchName(p.CalleeNames(call), "errors.Is") {
							if t := p.T(call.Call.Args[1]); t.Op == "global" && t.Name == "dcs.ErrExists" {
								tol = true
							}
						}
					}
				}
				c.Req(tol, name, p.InstrPos(ci), nthKey("W6:create-is-idempotent", i+1), "every create of a create-if-absent wrapper tolerates 'exists': the wrapper is re-run by the next manager after a crash and must succeed on what the first run left", "")
			}
		}
		// W5: what is returned as error
		for i, rs := range c.RetSites(F, errIdx) {
			t := p.T(rs.Val)
			bad := ""
			for _, a := range t.Alts() {
				if a.Op == "global" && strings.Contains(a.Name, "Err") {
					bad = a.Name
				}
			}
			c.Req(bad == "", name, p.InstrPos(rs.At), nthKey("W5:no-translation", i+1), "the error handed up is the failed call's own (possibly %w-wrapped), never another sentinel: callers distinguish 'missing' from 'unreadable' from 'unreachable' by it", "returns the sentinel "+bad)
		}
	}
	c.Req(nw >= 1, "internal/app/app_dcs_impl.go", "-", "wrapper:instances", "wrappers used by this property are examined", fmt.Sprintf("%d", nw))
}

func init() {
	props := map[string]bool{"C15": true}
	for _, w := range appDCSWrappers {
		for _, p := range w.Props {
			props[p] = true
		}
	}
	var ps []string
	for p := range props {
		ps = append(ps, p)
	}
	sort.Strings(ps)
	sharedRules = append(sharedRules, sharedRule{
		Suffix: "APPDCS",
		Props:  ps,
		Body:   checkAppDCSWrappers,
		Doc:    "(APPDCS) contract of the coordination wrappers this property goes through: exact (operation, key) set per wrapper against a frozen table, a failed call that is not a tolerated sentinel never ends in a success return, pure writers issue every write before reporting success, the returned error is the call's own, the sentinels it branches on are exactly those of its contract",
	})
}
