package main

// Value descriptors ("terms"): a structural, name-resolved view of SSA values that
// rules match on. Locals' names never appear; callees, fields, constants, parameters
// and globals do, through go/types objects.

import (
	"fmt"
	"go/constant"
	"go/token"
	"go/types"
	"strings"

	"golang.org/x/tools/go/ssa"
)

type Term struct {
	Op   string // call const param field extract bin not neg phi cell index lookup len slice global alloc closure func free rangekey rangeval recv load append convert cycle other
	Name string
	Args []*Term
	V    ssa.Value
	Call *ssa.CallCommon // for Op == "call"
	In   ssa.Instruction // defining instruction if any
}

type termBuilder struct {
	p      *Prog
	memo   map[ssa.Value]*Term
	stores map[*ssa.Alloc][]ssa.Value // values stored into a cell anywhere in its closure tree
	fstore map[*ssa.Alloc]map[string][]ssa.Value
	done   map[*ssa.Function]bool
}

func (p *Prog) tb() *termBuilder {
	if p.fa == nil {
		p.fa = map[*ssa.Function]*FuncAnalysis{}
	}
	if tbSingleton[p] == nil {
		tbSingleton[p] = &termBuilder{p: p, memo: map[ssa.Value]*Term{}, stores: map[*ssa.Alloc][]ssa.Value{}, fstore: map[*ssa.Alloc]map[string][]ssa.Value{}, done: map[*ssa.Function]bool{}}
	}
	return tbSingleton[p]
}

var tbSingleton = map[*Prog]*termBuilder{}

// T returns the term of a value.
func (p *Prog) T(v ssa.Value) *Term { return p.tb().term(v) }

func top(fn *ssa.Function) *ssa.Function {
	for fn.Parent() != nil {
		fn = fn.Parent()
	}
	return fn
}

// resolveAddr follows free variables to the allocation they were bound to.
func (tb *termBuilder) resolveAddr(v ssa.Value) ssa.Value {
	for i := 0; i < 8; i++ {
		fv, ok := v.(*ssa.FreeVar)
		if !ok {
			return v
		}
		fn := fv.Parent()
		mc := tb.p.Parent[fn]
		if mc == nil {
			return v
		}
		idx := -1
		for j, f := range fn.FreeVars {
			if f == fv {
				idx = j
			}
		}
		if idx < 0 || idx >= len(mc.Bindings) {
			return v
		}
		v = mc.Bindings[idx]
	}
	return v
}

func (tb *termBuilder) indexStores(fn *ssa.Function) {
	t := top(fn)
	if tb.done[t] {
		return
	}
	tb.done[t] = true
	for _, f := range Closures(t) {
		for _, b := range f.Blocks {
			for _, in := range b.Instrs {
				st, ok := in.(*ssa.Store)
				if !ok {
					continue
				}
				addr := tb.resolveAddr(st.Addr)
				switch a := addr.(type) {
				case *ssa.Alloc:
					tb.stores[a] = append(tb.stores[a], st.Val)
				case *ssa.FieldAddr:
					base := tb.resolveAddr(a.X)
					if al, ok := base.(*ssa.Alloc); ok {
						if tb.fstore[al] == nil {
							tb.fstore[al] = map[string][]ssa.Value{}
						}
						fname := fieldName(a.X.Type(), a.Field)
						tb.fstore[al][fname] = append(tb.fstore[al][fname], st.Val)
					}
				}
			}
		}
	}
}

// CellStores lists the values ever stored to an allocation (flow-insensitive,
// across the function and its closures).
func (p *Prog) CellStores(a *ssa.Alloc) []ssa.Value {
	tb := p.tb()
	tb.indexStores(a.Parent())
	return tb.stores[a]
}

// FieldStores lists values stored into field f of a local struct allocation.
func (p *Prog) FieldStores(a *ssa.Alloc, f string) []ssa.Value {
	tb := p.tb()
	tb.indexStores(a.Parent())
	out := tb.fstore[a][f]
	if len(out) == 0 {
		// composite literal built in a temporary and copied as a whole
		for _, w := range tb.stores[a] {
			if ld, ok := w.(*ssa.UnOp); ok && ld.Op == token.MUL {
				if a2, ok := tb.resolveAddr(ld.X).(*ssa.Alloc); ok && a2 != a {
					out = append(out, p.FieldStores(a2, f)...)
				}
			}
		}
	}
	return out
}

func fieldName(t types.Type, idx int) string {
	t = deref(t)
	st, ok := t.Underlying().(*types.Struct)
	if !ok || idx >= st.NumFields() {
		return fmt.Sprintf("?%d", idx)
	}
	return typeShort(t) + "." + st.Field(idx).Name()
}

func deref(t types.Type) types.Type {
	if pt, ok := t.Underlying().(*types.Pointer); ok {
		return pt.Elem()
	}
	return t
}

func typeShort(t types.Type) string {
	return short(types.TypeString(t, nil))
}

func (tb *termBuilder) term(v ssa.Value) *Term {
	if v == nil {
		return &Term{Op: "other", Name: "nil-value"}
	}
	if t, ok := tb.memo[v]; ok {
		if t == nil {
			return &Term{Op: "cycle", V: v}
		}
		return t
	}
	tb.memo[v] = nil
	t := tb.build(v)
	if t.V == nil {
		t.V = v
	}
	if in, ok := v.(ssa.Instruction); ok && t.In == nil {
		t.In = in
	}
	tb.memo[v] = t
	return t
}

func (tb *termBuilder) build(v ssa.Value) *Term {
	p := tb.p
	switch x := v.(type) {
	case *ssa.Const:
		if x.Value == nil {
			if isNilable(x.Type()) {
				return &Term{Op: "const", Name: "nil"}
			}
			return &Term{Op: "const", Name: "zero:" + typeShort(x.Type())}
		}
		if x.Value.Kind() == constant.String {
			return &Term{Op: "const", Name: constant.StringVal(x.Value)}
		}
		return &Term{Op: "const", Name: x.Value.ExactString()}
	case *ssa.Parameter:
		idx := -1
		for i, pa := range x.Parent().Params {
			if pa == x {
				idx = i
			}
		}
		return &Term{Op: "param", Name: fmt.Sprintf("%d", idx)}
	case *ssa.FreeVar:
		r := tb.resolveAddr(x)
		if r != x {
			return tb.term(r)
		}
		return &Term{Op: "free", Name: x.Name()}
	case *ssa.Function:
		return &Term{Op: "func", Name: p.Name(x)}
	case *ssa.Global:
		return &Term{Op: "globaladdr", Name: short(x.String())}
	case *ssa.Builtin:
		return &Term{Op: "builtin", Name: x.Name()}
	case *ssa.Alloc:
		return &Term{Op: "alloc", Name: typeShort(deref(x.Type()))}
	case *ssa.MakeClosure:
		t := &Term{Op: "closure", Name: p.Name(x.Fn.(*ssa.Function))}
		return t
	case *ssa.Call:
		return tb.callTerm(&x.Call, x)
	case *ssa.Extract:
		// v, ok := m[k]: v is the plain lookup
		if lk, isLk := x.Tuple.(*ssa.Lookup); isLk && lk.CommaOk && x.Index == 0 {
			return &Term{Op: "lookup", Args: []*Term{tb.term(lk.X), tb.term(lk.Index)}}
		}
		tup := tb.term(x.Tuple)
		// range iteration: extract of next
		if nx, ok := x.Tuple.(*ssa.Next); ok {
			if rg, ok := nx.Iter.(*ssa.Range); ok {
				switch x.Index {
				case 1:
					return &Term{Op: "rangekey", Args: []*Term{tb.term(rg.X)}}
				case 2:
					return &Term{Op: "rangeval", Args: []*Term{tb.term(rg.X)}}
				}
			}
			return &Term{Op: "extract", Name: fmt.Sprintf("%d", x.Index), Args: []*Term{tup}}
		}
		return &Term{Op: "extract", Name: fmt.Sprintf("%d", x.Index), Args: []*Term{tup}}
	case *ssa.Next:
		return &Term{Op: "next", Args: []*Term{tb.term(x.Iter)}}
	case *ssa.Range:
		return &Term{Op: "range", Args: []*Term{tb.term(x.X)}}
	case *ssa.BinOp:
		return &Term{Op: "bin", Name: x.Op.String(), Args: []*Term{tb.term(x.X), tb.term(x.Y)}}
	case *ssa.UnOp:
		switch x.Op {
		case token.NOT:
			return &Term{Op: "not", Args: []*Term{tb.term(x.X)}}
		case token.SUB:
			return &Term{Op: "neg", Args: []*Term{tb.term(x.X)}}
		case token.ARROW:
			return &Term{Op: "recv", Args: []*Term{tb.term(x.X)}}
		case token.MUL:
			return tb.loadTerm(x)
		}
		return &Term{Op: "other", Name: x.Op.String(), Args: []*Term{tb.term(x.X)}}
	case *ssa.Phi:
		t := &Term{Op: "phi"}
		for _, e := range x.Edges {
			t.Args = append(t.Args, tb.term(e))
		}
		return t
	case *ssa.FieldAddr:
		return &Term{Op: "fieldaddr", Name: fieldName(x.X.Type(), x.Field), Args: []*Term{tb.term(x.X)}}
	case *ssa.Field:
		return &Term{Op: "field", Name: fieldName(x.X.Type(), x.Field), Args: []*Term{tb.term(x.X)}}
	case *ssa.IndexAddr:
		return &Term{Op: "indexaddr", Args: []*Term{tb.term(x.X), tb.term(x.Index)}}
	case *ssa.Index:
		return &Term{Op: "index", Args: []*Term{tb.term(x.X), tb.term(x.Index)}}
	case *ssa.Lookup:
		// `for k := range m { v := m[k]` is `for k, v := range m` (the map is not written in this function)
		if ex, ok := x.Index.(*ssa.Extract); ok && ex.Index == 1 && !x.CommaOk {
			if nx, ok := ex.Tuple.(*ssa.Next); ok {
				if rg, ok := nx.Iter.(*ssa.Range); ok && rg.X == x.X && !mapWrittenIn(x.Parent(), x.X) {
					return &Term{Op: "rangeval", Args: []*Term{tb.term(rg.X)}}
				}
			}
		}
		return &Term{Op: "lookup", Args: []*Term{tb.term(x.X), tb.term(x.Index)}}
	case *ssa.Slice:
		t := &Term{Op: "slice", Args: []*Term{tb.term(x.X)}}
		if x.Low != nil {
			t.Args = append(t.Args, tb.term(x.Low))
		} else {
			t.Args = append(t.Args, &Term{Op: "const", Name: "0"})
		}
		if x.High != nil {
			t.Args = append(t.Args, tb.term(x.High))
		}
		return t
	case *ssa.MakeInterface:
		return tb.term(x.X)
	case *ssa.ChangeType:
		return tb.term(x.X)
	case *ssa.ChangeInterface:
		return tb.term(x.X)
	case *ssa.Convert:
		return &Term{Op: "convert", Name: typeShort(x.Type()), Args: []*Term{tb.term(x.X)}}
	case *ssa.TypeAssert:
		return &Term{Op: "typeassert", Name: typeShort(x.AssertedType), Args: []*Term{tb.term(x.X)}}
	case *ssa.MakeMap:
		return &Term{Op: "makemap", Name: typeShort(x.Type())}
	case *ssa.MakeSlice:
		return &Term{Op: "makeslice", Name: typeShort(x.Type()), Args: []*Term{tb.term(x.Len)}}
	case *ssa.MakeChan:
		return &Term{Op: "makechan", Name: typeShort(x.Type()), Args: []*Term{tb.term(x.Size)}}
	case *ssa.SliceToArrayPointer:
		return tb.term(x.X)
	}
	return &Term{Op: "other", Name: fmt.Sprintf("%T", v)}
}

func isNilable(t types.Type) bool {
	switch t.Underlying().(type) {
	case *types.Pointer, *types.Interface, *types.Map, *types.Slice, *types.Chan, *types.Signature:
		return true
	}
	if b, ok := t.Underlying().(*types.Basic); ok && b.Kind() == types.UntypedNil {
		return true
	}
	return false
}

func (tb *termBuilder) loadTerm(x *ssa.UnOp) *Term {
	addr := tb.resolveAddr(x.X)
	switch a := addr.(type) {
	case *ssa.Alloc:
		tb.indexStores(a.Parent())
		sts := tb.stores[a]
		if len(sts) == 1 {
			// a variable assigned exactly once is that value
			return tb.term(sts[0])
		}
		t := &Term{Op: "cell", Name: a.Comment}
		for _, s := range sts {
			t.Args = append(t.Args, tb.term(s))
		}
		return t
	case *ssa.FieldAddr:
		base := tb.resolveAddr(a.X)
		if al, ok := base.(*ssa.Alloc); ok {
			// field of a local struct: expose the stored values as alternatives
			tb.indexStores(al.Parent())
			fname := fieldName(a.X.Type(), a.Field)
			baseT := tb.term(al)
			if whole := tb.stores[al]; len(whole) == 1 {
				baseT = tb.term(whole[0]) // struct copied once from another value
			} else if len(whole) > 1 {
				baseT = &Term{Op: "cell", Name: al.Comment, V: al}
				for _, s := range whole {
					baseT.Args = append(baseT.Args, tb.term(s))
				}
			}
			t := &Term{Op: "field", Name: fname, Args: []*Term{baseT}}
			return t
		}
		return &Term{Op: "field", Name: fieldName(a.X.Type(), a.Field), Args: []*Term{tb.term(a.X)}}
	case *ssa.IndexAddr:
		return &Term{Op: "index", Args: []*Term{tb.term(a.X), tb.term(a.Index)}}
	case *ssa.Global:
		return &Term{Op: "global", Name: short(a.String())}
	}
	return &Term{Op: "load", Args: []*Term{tb.term(x.X)}}
}

// CalleeNames returns the names a call site may be referred to by: the static
// callee, or "(iface).Method" plus every callee the VTA call graph resolves.
func (p *Prog) CalleeNames(site ssa.CallInstruction) []string {
	names := p.calleeNames0(site)
	if len(p.fwdAlias) > 0 {
		for _, n := range names {
			names = append(names, p.fwdAlias[n]...)
		}
	}
	return names
}

func (p *Prog) calleeNames0(site ssa.CallInstruction) []string {
	c := site.Common()
	if c.IsInvoke() {
		names := []string{"(" + typeShort(c.Value.Type()) + ")." + c.Method.Name()}
		for _, fn := range p.Callees(site) {
			names = append(names, p.Name(fn))
		}
		return names
	}
	if fn := c.StaticCallee(); fn != nil {
		n := p.Name(fn)
		names := []string{n}
		if fn.Origin() != nil {
			names = append(names, p.Name(fn.Origin()))
		}
		return names
	}
	if b, ok := c.Value.(*ssa.Builtin); ok {
		return []string{"builtin." + b.Name()}
	}
	var names []string
	for _, fn := range p.Callees(site) {
		names = append(names, p.Name(fn))
	}
	if len(names) == 0 {
		names = []string{"<dynamic>"}
	}
	return names
}

// Callees resolves a call site through the VTA call graph.
func (p *Prog) Callees(site ssa.CallInstruction) []*ssa.Function {
	if fn := site.Common().StaticCallee(); fn != nil {
		return []*ssa.Function{fn}
	}
	n := p.CG.Nodes[site.Parent()]
	if n == nil {
		return nil
	}
	var out []*ssa.Function
	seen := map[*ssa.Function]bool{}
	for _, e := range n.Out {
		if e.Site == site && !seen[e.Callee.Func] {
			seen[e.Callee.Func] = true
			out = append(out, e.Callee.Func)
		}
	}
	return out
}

func (tb *termBuilder) callTerm(c *ssa.CallCommon, in ssa.CallInstruction) *Term {
	p := tb.p
	if b, ok := c.Value.(*ssa.Builtin); ok {
		t := &Term{Op: b.Name(), Call: c}
		for _, a := range c.Args {
			t.Args = append(t.Args, tb.term(a))
		}
		return t
	}
	names := p.CalleeNames(in)
	t := &Term{Op: "call", Name: names[0], Call: c}
	if c.IsInvoke() {
		t.Args = append(t.Args, tb.term(c.Value))
	}
	for _, a := range c.Args {
		t.Args = append(t.Args, tb.term(a))
	}
	// time.Now().Sub(x) is the definition of time.Since(x): one spelling for both
	if names[0] == "(time.Time).Sub" && len(t.Args) == 2 && t.Args[0].Op == "call" && t.Args[0].Name == "time.Now" {
		t.Name = "time.Since"
		t.Args = t.Args[1:]
	}
	return t
}

// String renders a term with bounded depth (for reports and debugging).
func (t *Term) String() string { return t.str(5) }

func (t *Term) str(d int) string {
	if t == nil {
		return "<nil>"
	}
	if d == 0 {
		return "…"
	}
	var as []string
	for _, a := range t.Args {
		as = append(as, a.str(d-1))
	}
	switch t.Op {
	case "const":
		return fmt.Sprintf("%q", t.Name)
	case "param":
		return "p" + t.Name
	case "call":
		return t.Name + "(" + strings.Join(as, ", ") + ")"
	case "field":
		if len(as) == 1 {
			return as[0] + "." + afterDot(t.Name)
		}
	case "bin":
		if len(as) == 2 {
			return "(" + as[0] + " " + t.Name + " " + as[1] + ")"
		}
	case "not":
		return "!" + strings.Join(as, "")
	case "extract":
		return strings.Join(as, "") + "#" + t.Name
	case "global":
		return t.Name
	}
	s := t.Op
	if t.Name != "" {
		s += ":" + t.Name
	}
	if len(as) > 0 {
		s += "(" + strings.Join(as, ", ") + ")"
	}
	return s
}

func afterDot(s string) string {
	if i := strings.LastIndex(s, "."); i >= 0 {
		return s[i+1:]
	}
	return s
}

// ---------------------------------------------------------------------------
// Matching helpers

// Alts expands phi / cell alternatives (transitively, bounded) into the set of
// underlying terms a value may be.
func (t *Term) Alts() []*Term {
	var out []*Term
	seen := map[*Term]bool{}
	var rec func(x *Term, d int)
	rec = func(x *Term, d int) {
		if x == nil || seen[x] || d > 12 {
			return
		}
		seen[x] = true
		if x.Op == "cycle" {
			// back reference to a value whose term was under construction: resolve it now
			if x.V != nil {
				for _, tb := range tbSingleton {
					if full, ok := tb.memo[x.V]; ok && full != nil && !seen[full] {
						rec(full, d+1)
					}
				}
			}
			return
		}
		if x.Op == "phi" || x.Op == "cell" {
			if len(x.Args) == 0 {
				out = append(out, x)
			}
			for _, a := range x.Args {
				rec(a, d+1)
			}
			return
		}
		out = append(out, x)
	}
	rec(t, 0)
	return out
}

// IsCall reports whether t is a call whose callee has one of the given names.
func (p *Prog) IsCall(t *Term, names ...string) bool {
	if t == nil || t.Op != "call" || t.Call == nil {
		return false
	}
	var site ssa.CallInstruction
	if ci, ok := t.In.(ssa.CallInstruction); ok {
		site = ci
	}
	var have []string
	if site != nil {
		have = append(p.CalleeNames(site), t.Name)
	} else {
		have = []string{t.Name}
	}
	for _, h := range have {
		for _, n := range names {
			if h == n {
				return true
			}
		}
	}
	return false
}

// ResultOf returns the call term that v is result #idx of (idx<0: any), looking
// through extract; nil if v is not a call result.
func ResultOf(t *Term, idx int) *Term {
	if t == nil {
		return nil
	}
	if t.Op == "call" && (idx <= 0) {
		// single-result call
		if t.Call != nil && t.Call.Signature().Results().Len() == 1 {
			return t
		}
		if idx < 0 {
			return t
		}
	}
	if t.Op == "extract" && len(t.Args) == 1 && t.Args[0].Op == "call" {
		if idx < 0 || t.Name == fmt.Sprintf("%d", idx) {
			return t.Args[0]
		}
	}
	return nil
}

// Contains reports whether sub occurs in t (by value identity), bounded depth.
func (t *Term) Contains(pred func(*Term) bool) bool {
	seen := map[*Term]bool{}
	var rec func(x *Term, d int) bool
	rec = func(x *Term, d int) bool {
		if x == nil || seen[x] || d > 14 {
			return false
		}
		seen[x] = true
		if x.Op == "cycle" && x.V != nil {
			for _, tb := range tbSingleton {
				if full, ok := tb.memo[x.V]; ok && full != nil {
					return rec(full, d+1)
				}
			}
		}
		if pred(x) {
			return true
		}
		for _, a := range x.Args {
			if rec(a, d+1) {
				return true
			}
		}
		return false
	}
	return rec(t, 0)
}

// FieldOf: t is a load of field `name` (short "pkg.Type.Field" or just "Field").
func (t *Term) IsField(name string) bool {
	if t == nil || t.Op != "field" {
		return false
	}
	return t.Name == name || afterDot(t.Name) == name
}

func (t *Term) IsConst(val string) bool { return t != nil && t.Op == "const" && t.Name == val }

func mapWrittenIn(fn *ssa.Function, m ssa.Value) bool {
	if fn == nil {
		return true
	}
	for _, b := range fn.Blocks {
		for _, in := range b.Instrs {
			switch x := in.(type) {
			case *ssa.MapUpdate:
				if x.Map == m {
					return true
				}
			case *ssa.Call:
				if bi, ok := x.Call.Value.(*ssa.Builtin); ok && (bi.Name() == "delete" || bi.Name() == "clear") && len(x.Call.Args) > 0 && x.Call.Args[0] == m {
					return true
				}
			}
		}
	}
	return false
}
