package main

import (
	"fmt"
	"math/big"
	"go/token"
	"go/types"
	"regexp"
	"sort"
	"strings"

	"golang.org/x/tools/go/ssa"
)

const (
	fnRun       = "(*app.App).Run"
	fnManager   = "(*app.App).stateManager"
	fnCandidate = "(*app.App).stateCandidate"
	fnLost      = "(*app.App).stateLost"
	fnMaint     = "(*app.App).stateMaintenance"
	fnFirstRun  = "(*app.App).stateFirstRun"
	fnSwitch    = "(*app.App).performSwitchover"
	fnAppLock   = "(*app.App).AcquireLock"
	fnDcsLock   = "(dcs.DCS).AcquireLock"
)

type Root struct {
	Class string // handler background zk worker
	Fn    *ssa.Function
	Name  string
}

// DaemonRoots discovers the daemon's concurrent entry points by role:
// the state handlers from the map built in Run, the goroutines started by Run,
// and the coordination client's event loop and timer callback.
func (c *Check) DaemonRoots() []Root {
	p := c.p
	run := p.MustFunc(fnRun)
	var roots []Root
	seen := map[*ssa.Function]bool{}
	add := func(class string, fn *ssa.Function) {
		if fn == nil || seen[fn] {
			return
		}
		seen[fn] = true
		roots = append(roots, Root{class, fn, p.Name(fn)})
	}
	for _, b := range run.Blocks {
		for _, in := range b.Instrs {
			switch x := in.(type) {
			case *ssa.MapUpdate:
				if mc, ok := x.Value.(*ssa.MakeClosure); ok {
					// bound method value app.stateX: the wrapper calls the method
					w := mc.Fn.(*ssa.Function)
					target := boundTarget(w)
					if target != nil {
						add("handler", target)
					} else {
						add("handler", w)
					}
				} else if f, ok := x.Value.(*ssa.Function); ok {
					add("handler", f)
				}
			case *ssa.Go:
				if f := x.Call.StaticCallee(); f != nil {
					add("background", f)
				}
			}
		}
	}
	if f := p.Func("(*dcs.zkDCS).handleEvents"); f != nil {
		add("zk", f)
	}
	// timer callbacks: closures passed to time.AfterFunc anywhere in the module
	for _, fn := range p.ModFuncs {
		for _, ci := range p.Calls(fn, "time.AfterFunc") {
			if mc, ok := ci.Common().Args[1].(*ssa.MakeClosure); ok {
				add("zk", mc.Fn.(*ssa.Function))
			}
		}
	}
	sort.Slice(roots, func(i, j int) bool { return roots[i].Name < roots[j].Name })
	return roots
}

// boundTarget returns the method a $bound wrapper forwards to.
func boundTarget(w *ssa.Function) *ssa.Function {
	if !strings.HasSuffix(w.Name(), "$bound") {
		return nil
	}
	for _, b := range w.Blocks {
		for _, in := range b.Instrs {
			if ci, ok := in.(ssa.CallInstruction); ok {
				if f := ci.Common().StaticCallee(); f != nil {
					return f
				}
			}
		}
	}
	return nil
}

// LockGate: the literal "AcquireLock(<manager lock>) returned true".
func (c *Check) LockGate() LitPat {
	p := c.p
	mgr, _ := p.ConstString("internal/app", "pathManagerLock")
	return func(l Lit) bool {
		if !l.Pos {
			return false
		}
		call := ResultOf(l.T, -1)
		if call == nil || !p.IsCall(call, fnAppLock, fnDcsLock) {
			return false
		}
		// last argument is the lock path
		a := call.Args[len(call.Args)-1]
		return a.IsConst(mgr)
	}
}

func isWriteOp(op string) bool {
	switch op {
	case "Create", "CreateEphemeral", "Set", "SetEphemeral", "Delete":
		return true
	}
	return false
}

func matchAny(s string, res ...string) bool {
	for _, r := range res {
		if regexp.MustCompile("^(" + r + ")$").MatchString(s) {
			return true
		}
	}
	return false
}

// callInstr returns the call instruction a literal's term is the result of.
func callInstr(l Lit) ssa.CallInstruction {
	t := ResultOf(l.T, -1)
	if t == nil && l.T.Op == "isnil" && len(l.T.Args) == 1 {
		for _, a := range l.T.Args[0].Alts() {
			if r := ResultOf(a, -1); r != nil {
				t = r
				break
			}
		}
	}
	if t == nil {
		return nil
	}
	ci, _ := t.In.(ssa.CallInstruction)
	return ci
}

// retKind classifies result #idx of a return instruction.
//   "const:<v>"   constant (nil / true / false / other)
//   "nonnil"      freshly built error (fmt.Errorf, errors.New) or a value returned under v != nil
//   "nil"         value returned under v == nil
//   "call"        result of a call (delegation); the call term is returned
//   "unknown"
func (c *Check) retKind(fa *FuncAnalysis, r *ssa.Return, idx int) (string, *Term) {
	if idx >= len(r.Results) {
		return "unknown", nil
	}
	return c.valKind(fa, r, r.Results[idx])
}

// pkgConst resolves a constant of any loaded package (e.g. zk.FlagEphemeral).
func (p *Prog) pkgConst(path, name string) (string, bool) {
	var found *types.Const
	for _, pk := range p.SSA.AllPackages() {
		if pk.Pkg.Path() == path {
			if c, ok := pk.Pkg.Scope().Lookup(name).(*types.Const); ok {
				found = c
			}
		}
	}
	if found == nil {
		return "", false
	}
	return found.Val().ExactString(), true
}

func nthKey(base string, n int) string { return fmt.Sprintf("%s#%d", base, n) }

// effectIs helpers
func sqlMutating(e Effect) bool {
	return e.Kind == "SQL" && (e.Key == "TOPOLOGY" || e.Key == "SETTING" || e.Key == "?" || e.Key == "UNKNOWN")
}

func dcsWrite(e Effect) bool { return e.Kind == "DCS" && isWriteOp(e.Op) }

// RetSite is one way a function can return: the Return instruction, or — when
// the function has deferred calls and go/ssa spills results to a cell — the store
// that sets the result.
type RetSite struct {
	At  ssa.Instruction
	Val ssa.Value
}

func (c *Check) RetSites(fn *ssa.Function, idx int) []RetSite {
	var out []RetSite
	for _, r := range Returns(fn) {
		if idx >= len(r.Results) {
			continue
		}
		v := r.Results[idx]
		if ld, ok := v.(*ssa.UnOp); ok && ld.Op.String() == "*" {
			if al, ok := ld.X.(*ssa.Alloc); ok && al.Parent() == fn {
				n := 0
				for _, b := range fn.Blocks {
					for _, in := range b.Instrs {
						if st, ok := in.(*ssa.Store); ok && st.Addr == ssa.Value(al) {
							out = append(out, RetSite{st, st.Val})
							n++
						}
					}
				}
				if n > 0 {
					continue
				}
			}
		}
		out = append(out, RetSite{r, v})
	}
	return out
}

// valKind classifies a returned value at a site (see retKind).
func (c *Check) valKind(fa *FuncAnalysis, at ssa.Instruction, v ssa.Value) (string, *Term) {
	p := c.p
	t := p.T(v)
	if t.Op == "const" {
		return "const:" + t.Name, t
	}
	alts := t.Alts()
	allNew := len(alts) > 0
	for _, a := range alts {
		call := ResultOf(a, -1)
		if a.Op == "global" && p.sentinelError(a) {
			continue
		}
		if call == nil || !p.IsCall(call, "fmt.Errorf", "errors.New") {
			allNew = false
		}
	}
	if allNew {
		return "nonnil", t
	}
	same := func(pos bool) LitPat {
		return func(l Lit) bool { return l.T.Op == "isnil" && l.Pos == pos && l.T.Args[0].V == v }
	}
	if ok, _ := fa.Gated(at, same(false)); ok {
		return "nonnil", t
	}
	if ok, _ := fa.Gated(at, same(true)); ok {
		return "nil", t
	}
	if call := ResultOf(t, -1); call != nil {
		return "call", call
	}
	return "unknown", t
}

// SuccessSites returns the sites at which result #idx may be the success value
// ("nil" or "true"); definite-failure sites are skipped.
func (c *Check) SuccessSites(fn *ssa.Function, idx int, success string) []RetSite {
	fa := c.p.FA(fn)
	var out []RetSite
	for _, rs := range c.RetSites(fn, idx) {
		if !fa.Reachable(rs.At) {
			continue
		}
		kind, _ := c.valKind(fa, rs.At, rs.Val)
		switch {
		case kind == "const:"+success:
			out = append(out, rs)
		case strings.HasPrefix(kind, "const:"):
			// other constant: failure
		case kind == "nonnil" && success == "nil":
		case kind == "nil" && success == "nil":
			out = append(out, rs)
		default:
			out = append(out, rs) // call / unknown: may be success
		}
	}
	return out
}

// Gate records the obligation "target is gated by any-of pats".
func (c *Check) Gate(fa *FuncAnalysis, target ssa.Instruction, construct, desc string, pats ...LitPat) bool {
	// `return f(x)`: where the target returns a call's own error result, "f returned nil" holds by definition whenever
	// this return is a success — the same fact an `if err := f(x); err != nil { return err }; return nil` would put on the edge
	if r, isRet := target.(*ssa.Return); isRet {
		for _, v := range r.Results {
			if !isErrorType(v.Type()) {
				continue
			}
			t := c.p.T(v)
			for _, a := range t.Alts() {
				if ResultOf(a, -1) == nil {
					continue
				}
				syn := Lit{&Term{Op: "isnil", Args: []*Term{a}, V: v}, true}
				for _, pat := range pats {
					if pat(syn) && len(t.Alts()) == 1 {
						return c.Req(true, c.p.Name(fa.Fn), c.p.InstrPos(target), construct, desc, "")
					}
				}
			}
		}
	}
	ok, path := fa.Gated(target, pats...)
	if c.Tier == "thorough" {
		c.countPaths(fa, target, pats)
	}
	if ok && !fa.Reachable(target) {
		// a gate that can never be passed (constant-false condition) is not the property holding: the guarded behaviour is gone
		return c.Req(false, c.p.Name(fa.Fn), c.p.InstrPos(target), construct, desc, "the gated statement is unreachable (its guard is constantly false)")
	}
	return c.Req(ok, c.p.Name(fa.Fn), c.p.InstrPos(target), construct, desc, "ungated path: "+fa.PathString(path))
}

func sameValue(a, b *Term) bool {
	if a == nil || b == nil || a.V == nil || b.V == nil {
		return false
	}
	if a.V == b.V {
		return true
	}
	// the same element read twice: xs[i] and xs[i] with the same slice value and the same index value
	if (a.Op == "index" || a.Op == "load") && a.Op == b.Op {
		ia, ib := a, b
		if a.Op == "load" && len(a.Args) == 1 && len(b.Args) == 1 {
			ia, ib = a.Args[0], b.Args[0]
		}
		if (ia.Op == "index" || ia.Op == "indexaddr") && ia.Op == ib.Op && len(ia.Args) == 2 && len(ib.Args) == 2 &&
			ia.Args[0].V != nil && ia.Args[0].V == ib.Args[0].V && ia.Args[1].V != nil && ia.Args[1].V == ib.Args[1].V {
			return true
		}
	}
	// two calls of the same stable getter on the same receiver (`node.Host()` evaluated twice) are the same value
	ca, ok1 := a.V.(*ssa.Call)
	cb, ok2 := b.V.(*ssa.Call)
	if ok1 && ok2 && len(ca.Call.Args) == 1 && len(cb.Call.Args) == 1 {
		fa, fb := ca.Call.StaticCallee(), cb.Call.StaticCallee()
		if fa != nil && fa == fb && stableGetter(fa) && ca.Call.Args[0] == cb.Call.Args[0] {
			return true
		}
	}
	return false
}

var stableGetterCache = map[*ssa.Function]bool{}

// stableGetter: a method whose body is `return recv.f` (possibly through a pointer) where no function of the module stores
// to field f of that struct type except into a struct it has just allocated (constructors, composite literals).
func stableGetter(fn *ssa.Function) bool {
	if v, ok := stableGetterCache[fn]; ok {
		return v
	}
	res := func() bool {
		p := stableGlobalsProg
		if p == nil || len(fn.Blocks) != 1 || fn.Signature.Recv() == nil || fn.Signature.Results().Len() != 1 {
			return false
		}
		type fld struct {
			t string
			i int
		}
		var read []fld
		for _, in := range fn.Blocks[0].Instrs {
			switch x := in.(type) {
			case *ssa.FieldAddr:
				read = append(read, fld{x.X.Type().String(), x.Field})
			case *ssa.Field:
				read = append(read, fld{"*" + x.X.Type().String(), x.Field})
			case *ssa.UnOp:
				if x.Op != token.MUL {
					return false
				}
			case *ssa.Return, *ssa.DebugRef:
			default:
				return false
			}
		}
		if len(read) == 0 {
			return false
		}
		for _, f := range p.ModFuncs {
			for _, b := range f.Blocks {
				for _, in := range b.Instrs {
					st, ok := in.(*ssa.Store)
					if !ok {
						continue
					}
					fad, ok := st.Addr.(*ssa.FieldAddr)
					if !ok {
						continue
					}
					for _, r := range read {
						if fad.Field == r.i && fad.X.Type().String() == r.t {
							if _, fresh := fad.X.(*ssa.Alloc); !fresh {
								return false
							}
						}
					}
				}
			}
		}
		return true
	}()
	stableGetterCache[fn] = res
	return res
}

// derivesOnly: every alternative of t satisfies pred.
func derivesOnly(t *Term, pred func(*Term) bool) bool {
	alts := t.Alts()
	if len(alts) == 0 {
		return false
	}
	for _, a := range alts {
		if !pred(a) {
			return false
		}
	}
	return true
}

// recvArg returns the value of the receiver (arg 0 for static method calls, the
// interface value for invokes) and the remaining arguments.
func recvArgs(ci ssa.CallInstruction) (ssa.Value, []ssa.Value) {
	c := ci.Common()
	if c.IsInvoke() {
		return c.Value, c.Args
	}
	if len(c.Args) > 0 && c.Signature().Recv() != nil {
		return c.Args[0], c.Args[1:]
	}
	return nil, c.Args
}

// sentinelError: t loads a package-level error variable that is initialised once,
// in its package initialiser, with errors.New / fmt.Errorf (hence non-nil).
func (p *Prog) sentinelError(t *Term) bool {
	ld, ok := t.V.(*ssa.UnOp)
	if !ok {
		return false
	}
	g, ok := ld.X.(*ssa.Global)
	if !ok {
		return false
	}
	n, good := 0, 0
	for _, fn := range p.ModFuncs {
		for _, b := range fn.Blocks {
			for _, in := range b.Instrs {
				st, ok := in.(*ssa.Store)
				if !ok || st.Addr != ssa.Value(g) {
					continue
				}
				n++
				if fn.Name() == "init" {
					if call := ResultOf(p.T(st.Val), -1); call != nil && p.IsCall(call, "errors.New", "fmt.Errorf") {
						good++
					}
				}
			}
		}
	}
	return n == 1 && good == 1
}

// countPaths (thorough tier): the number of acyclic entry→target paths of the function's CFG
// (back edges removed) and how many of them cross a good edge — by dynamic programming over the
// DAG, so the count is exact without enumerating. A gate holds iff the two numbers are equal on
// the acyclic skeleton; the numbers go to the evidence as the size of the space the rule covers.
func (c *Check) countPaths(fa *FuncAnalysis, target ssa.Instruction, pats []LitPat) {
	fn := fa.Fn
	if len(fn.Blocks) == 0 {
		return
	}
	tb := target.Block()
	good := func(b *ssa.BasicBlock, si int) bool {
		for _, l := range fa.EdgeLits(b, si) {
			for _, p := range pats {
				if p(l) {
					return true
				}
			}
			for _, p := range fa.p.AlwaysCut {
				if p(l) {
					return true
				}
			}
		}
		return false
	}
	// total[b], clean[b]: number of acyclic paths entry→b (all / crossing no good edge)
	type cnt struct{ total, clean *big.Int }
	memo := map[*ssa.BasicBlock]*cnt{}
	onStack := map[*ssa.BasicBlock]bool{}
	var rec func(b *ssa.BasicBlock) *cnt
	rec = func(b *ssa.BasicBlock) *cnt {
		if m, ok := memo[b]; ok {
			return m
		}
		r := &cnt{big.NewInt(0), big.NewInt(0)}
		if b == fn.Blocks[0] {
			r.total.SetInt64(1)
			r.clean.SetInt64(1)
			memo[b] = r
			return r
		}
		onStack[b] = true
		for _, pr := range b.Preds {
			if onStack[pr] || b.Dominates(pr) {
				continue // back edge
			}
			pc := rec(pr)
			for si, s := range pr.Succs {
				if s != b {
					continue
				}
				r.total.Add(r.total, pc.total)
				if !good(pr, si) {
					r.clean.Add(r.clean, pc.clean)
				}
			}
		}
		delete(onStack, b)
		memo[b] = r
		return r
	}
	r := rec(tb)
	if c.paths == nil {
		c.paths = big.NewInt(0)
		c.pathsGated = big.NewInt(0)
	}
	c.paths.Add(c.paths, r.total)
	c.pathsGated.Add(c.pathsGated, new(big.Int).Sub(r.total, r.clean))
	c.pathTargets++
}

// cmpTerm reads a boolean VALUE term as a comparison in normal form: ops "<", "<=", "==", "!=" (a op b); `>`/`>=` are
// swapped, `!(…)` is pushed inside. `count >= req`, `req <= count` and `!(count < req)` all give (req, count, "<=").
func cmpTerm(t *Term) (a, b *Term, op string, ok bool) {
	neg := false
	for t != nil && t.Op == "not" && len(t.Args) == 1 {
		neg = !neg
		t = t.Args[0]
	}
	if t == nil || t.Op != "bin" || len(t.Args) != 2 {
		return nil, nil, "", false
	}
	a, b, op = t.Args[0], t.Args[1], t.Name
	switch op {
	case ">":
		a, b, op = b, a, "<"
	case ">=":
		a, b, op = b, a, "<="
	case "<", "<=", "==", "!=":
	default:
		return nil, nil, "", false
	}
	if neg {
		switch op {
		case "<": // !(a < b) = b <= a
			a, b, op = b, a, "<="
		case "<=":
			a, b, op = b, a, "<"
		case "==":
			op = "!="
		case "!=":
			op = "=="
		}
	}
	return a, b, op, true
}
