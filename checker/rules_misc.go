package main

// Smaller producer rules added after the second round of seeded changes.

import (
	"fmt"
	"go/types"
	"reflect"
	"strings"

	"golang.org/x/tools/go/ssa"
)

// ROWSERR: a single-row reader answers "no row" (sql.ErrNoRows — which GetReplicaStatus turns into "this node is a
// master") only after rows.Err() said the result set ended cleanly.
func checkRowsErr(c *Check) {
	p := c.p
	n := 0
	for _, top := range p.ModFuncs {
		if top.Parent() != nil || !inFile(p, top, "internal/mysql/node.go") {
			continue
		}
		for _, f := range Closures(top) {
			fa := p.FA(f)
			for _, b := range f.Blocks {
				for _, in := range b.Instrs {
					ld, ok := in.(*ssa.UnOp)
					if !ok || ld.Op.String() != "*" {
						continue
					}
					g, ok := ld.X.(*ssa.Global)
					if !ok || g.Name() != "ErrNoRows" {
						continue
					}
					// only where it is PRODUCED (assigned / returned), not where it is compared
					produced := false
					for _, r := range *ld.Referrers() {
						switch r.(type) {
						case *ssa.Phi, *ssa.Store, *ssa.Return:
							produced = true
						}
					}
					if !produced {
						continue
					}
					n++
					c.Gate(fa, in, nthKey("norows-after-rows.Err", n), "'no row' is answered only after rows.Err() returned nil: a result set that broke off is an error, not an empty answer (an empty replica status means 'this node is a master')", func(l Lit) bool {
						if !l.Pos || l.T.Op != "isnil" {
							return false
						}
						r := ResultOf(l.T.Args[0], -1)
						return r != nil && strings.HasSuffix(r.Name, "Rows).Err")
					})
				}
			}
		}
	}
	c.Req(n >= 2, "internal/mysql/node.go", "-", "norows:sites", "single-row readers found", fmt.Sprintf("%d", n))
}

// PARALLEL: the fan-out helper records an entry for every input, nil results included (callers count nil entries).
func checkRunParallel(c *Check) {
	p := c.p
	F := p.MustFunc("util.RunParallel")
	fa := p.FA(F)
	n := 0
	for _, b := range F.Blocks {
		for _, in := range b.Instrs {
			mu, ok := in.(*ssa.MapUpdate)
			if !ok {
				continue
			}
			n++
			// not conditional on the value: the only branch on the way is the loop itself
			cond := false
			for _, bb := range F.Blocks {
				iff := blockIf(bb)
				if iff == nil || !bb.Dominates(b) {
					continue
				}
				if bo, ok := iff.Cond.(*ssa.BinOp); ok {
					t := p.T(bo)
					if t.Contains(func(x *Term) bool { return x.IsField("err") || x.IsConst("nil") }) {
						cond = true
					}
				}
			}
			c.Req(!cond, p.Name(F), p.InstrPos(mu), "parallel:total", "the result map gets an entry for every input, whatever the closure answered (the liveness probe counts the nil entries)", "the store is conditional on the result")
			_ = fa
		}
	}
	c.Req(n == 1, p.Name(F), "-", "parallel:store", "one store into the result map", fmt.Sprintf("%d", n))
	// as many receives as inputs
	okLoop := false
	for _, b := range F.Blocks {
		for _, in := range b.Instrs {
			if u, ok := in.(*ssa.UnOp); ok && u.Op.String() == "<-" {
				okLoop = true
			}
		}
	}
	c.Req(okLoop, p.Name(F), "-", "parallel:receive", "results are received from the workers", "")
}

// LOOPALL: a per-host loop that must visit every host has no exit other than exhaustion.
func loopExits(fn *ssa.Function) (loops int, exits []ssa.Instruction) {
	for _, h := range fn.Blocks {
		var latches []*ssa.BasicBlock
		for _, pr := range h.Preds {
			if h.Dominates(pr) {
				latches = append(latches, pr)
			}
		}
		if len(latches) == 0 {
			continue
		}
		loops++
		body := map[*ssa.BasicBlock]bool{h: true}
		var stack []*ssa.BasicBlock
		for _, l := range latches {
			if !body[l] {
				body[l] = true
				stack = append(stack, l)
			}
		}
		for len(stack) > 0 {
			b := stack[len(stack)-1]
			stack = stack[:len(stack)-1]
			for _, pr := range b.Preds {
				if !body[pr] {
					body[pr] = true
					stack = append(stack, pr)
				}
			}
		}
		for b := range body {
			if b == h {
				continue
			}
			for _, s := range b.Succs {
				if !body[s] {
					exits = append(exits, b.Instrs[len(b.Instrs)-1])
				}
			}
			if _, ok := b.Instrs[len(b.Instrs)-1].(*ssa.Return); ok {
				exits = append(exits, b.Instrs[len(b.Instrs)-1])
			}
		}
	}
	return
}

func checkLoopAll(c *Check, fname string, wantLoops int, why string) {
	p := c.p
	F := p.MustFunc(fname)
	loops, exits := loopExits(F)
	c.Req(loops == wantLoops, p.Name(F), p.Pos(F.Pos()), "loop:count", fmt.Sprintf("%d per-host loop(s)", wantLoops), fmt.Sprintf("%d", loops))
	if len(exits) == 0 {
		c.Hold(p.Name(F), p.Pos(F.Pos()), "loop:no-early-exit", why)
		return
	}
	for i, e := range exits {
		c.Fail(p.Name(F), p.InstrPos(e), nthKey("loop:no-early-exit", i+1), why, "the loop is left from its body here (break / return)")
	}
}

// BOUNDWIDEN: the async allowed lag only ever widens the priority-choice bound.
func checkBoundWiden(c *Check) {
	p := c.p
	N := p.MustFunc("mysql.NewSwitchHelper")
	fa := p.FA(N)
	n := 0
	// the value stored is a phi of PriorityChoiceMaxLag and AsyncAllowedLag: the edge bringing AsyncAllowedLag carries lt(PriorityChoiceMaxLag, AsyncAllowedLag)
	for _, b := range N.Blocks {
		for _, in := range b.Instrs {
			ph, ok := in.(*ssa.Phi)
			if !ok {
				continue
			}
			for i, e := range ph.Edges {
				if !p.T(e).IsField("AsyncAllowedLag") {
					continue
				}
				n++
				pred := b.Preds[i]
				// every path to the end of pred carries the comparison and the async flag
				last := pred.Instrs[len(pred.Instrs)-1]
				c.Gate(fa, last, nthKey("bound:async-only-widens", n), "async_allowed_lag replaces the priority-choice bound only when it is larger", func(l Lit) bool {
					a, bb, op, ok := Cmp(l)
					return ok && ((op == "<" && a.IsField("PriorityChoiceMaxLag") && bb.IsField("AsyncAllowedLag")) || (op == ">" && a.IsField("AsyncAllowedLag") && bb.IsField("PriorityChoiceMaxLag")))
				})
				c.Gate(fa, last, nthKey("bound:async-mode", n), "… and only in async mode", FieldLit(true, "ASync"))
			}
		}
	}
	c.Req(n >= 1, p.Name(N), "-", "bound:async-edge", "the constructor's async widening is found", fmt.Sprintf("%d", n))
}

// COW: a daemon state that was handed out is never written again: every store to a DaemonState field goes to an
// object allocated in the same function.
func checkDaemonStateCOW(c *Check) {
	p := c.p
	F := p.MustFunc("(*app.App).getLocalDaemonState")
	n := 0
	for _, f := range Closures(F) {
		for _, b := range f.Blocks {
			for _, in := range b.Instrs {
				st, ok := in.(*ssa.Store)
				if !ok {
					continue
				}
				fa, ok := st.Addr.(*ssa.FieldAddr)
				if !ok || !strings.Contains(fieldName(fa.X.Type(), fa.Field), "DaemonState.") {
					continue
				}
				n++
				_, fresh := fa.X.(*ssa.Alloc)
				c.Req(fresh, p.Name(f), p.InstrPos(in), nthKey("cow:"+afterDot(fieldName(fa.X.Type(), fa.Field)), n), "the daemon state is filled into a fresh object; the cached one was handed to the health checker and the state maps, which read it outside the daemon mutex", "written through "+p.T(fa.X).String())
			}
		}
	}
	c.Req(n >= 3, p.Name(F), "-", "cow:stores", "field stores found", fmt.Sprintf("%d", n))
}

// FRESH: ParseGtidSet hands out a set nobody else holds (callers Update() it in place).
func checkFreshGtidSet(c *Check) {
	p := c.p
	F := p.MustFunc("mysql/gtids.ParseGtidSet")
	n := 0
	for _, rs := range c.RetSites(F, 0) {
		n++
		t := p.T(rs.Val)
		bad := t.Contains(func(x *Term) bool { return x.Op == "global" || x.Op == "globaladdr" })
		lib := t.Contains(func(x *Term) bool { return x.Op == "call" && strings.Contains(x.Name, "ParseGTIDSet") })
		c.Req(!bad && lib, p.Name(F), p.InstrPos(rs.At), nthKey("fresh:result", n), "every parse returns a set of its own, built by the library's parser: position collection merges the retrieved set into it in place, so a shared empty set would leak from one host to the next", "returns "+t.String())
	}
	c.Req(n >= 1, p.Name(F), "-", "fresh:returns", "return sites", "")
}

// FRESHDEST: a decode destination inside a per-host loop is declared inside the loop.
func checkFreshDecodeDest(c *Check, fname string) {
	p := c.p
	F := p.MustFunc(fname)
	loops := map[*ssa.BasicBlock]bool{}
	for _, h := range F.Blocks {
		for _, pr := range h.Preds {
			if h.Dominates(pr) {
				loops[h] = true
			}
		}
	}
	n := 0
	for _, b := range F.Blocks {
		for _, in := range b.Instrs {
			ci, ok := in.(ssa.CallInstruction)
			if !ok {
				continue
			}
			op, isDcs := isDCSInvoke(ci)
			if !isDcs || op != "Get" {
				continue
			}
			var head *ssa.BasicBlock
			for h := range loops {
				if h.Dominates(b) && h != b {
					head = h
				}
			}
			if head == nil {
				continue
			}
			n++
			dest := underIface(ci.Common().Args[1])
			al, ok := dest.(*ssa.Alloc)
			c.Req(ok && head.Dominates(al.Block()) && al.Block() != head, p.Name(F), p.InstrPos(ci), nthKey("decode:fresh-per-host", n), "the destination a host's record is decoded into is a new variable per host: a record that lacks a field must not inherit the previous host's value", "destination "+p.T(dest).String())
		}
	}
	c.Req(n >= 1, p.Name(F), "-", "decode:sites", "decode sites inside the loop", "")
}

// WIRING: the background loops every property assumes are running are started by Run, unconditionally or under exactly
// the configuration switch that owns them, after the cluster handle exists.
func checkRunWiring(c *Check) {
	p := c.p
	R := p.MustFunc("(*app.App).Run")
	fa := p.FA(R)
	want := map[string]string{ // loop → gate ("" = unconditional)
		"(*app.App).healthChecker":         "",
		"(*app.App).recoveryChecker":       "",
		"(*app.App).replicationLagChecker": "",
		"(*app.App).stateFileHandler":      "",
		"(*app.App).externalCAFileChecker": "ExternalReplicationType",
		"(*app.App).replMonWriter":         "ReplMon",
	}
	seen := map[string]bool{}
	for _, b := range R.Blocks {
		for _, in := range b.Instrs {
			g, ok := in.(*ssa.Go)
			if !ok {
				continue
			}
			callee := g.Call.StaticCallee()
			if callee == nil {
				continue
			}
			name := p.Name(callee)
			name = strings.TrimSuffix(name, "$bound")
			gate, known := want[name]
			if !known {
				continue
			}
			seen[name] = true
			// conditions on the way: every If that dominates the statement and whose other branch skips it
			var conds []string
			for _, bb := range R.Blocks {
				iff := blockIf(bb)
				if iff == nil || !bb.Dominates(b) || bb == b {
					continue
				}
				// does the other successor reach the end of Run's start-up without this go statement? (it is a guard of it)
				for si := range bb.Succs {
					if reaches(bb.Succs[si], b) {
						continue
					}
					t := p.T(iff.Cond)
					conds = append(conds, t.String())
				}
			}
			if gate == "" {
				// only error exits of the start-up may precede it: every guarding condition is an error test
				okc := true
				for _, cd := range conds {
					if !strings.Contains(cd, "nil") && !strings.Contains(cd, "#1") {
						okc = false
					}
				}
				c.Req(okc, p.Name(R), p.InstrPos(in), "wiring:"+afterDot(name), "the loop is started unconditionally (only a failed start-up step precedes it)", "guarded by "+strings.Join(conds, " ; "))
			} else {
				has := false
				for _, cd := range conds {
					if strings.Contains(cd, gate) {
						has = true
					}
				}
				c.Req(has, p.Name(R), p.InstrPos(in), "wiring:"+afterDot(name), "the loop is started under its own configuration switch ("+gate+")", "guarded by "+strings.Join(conds, " ; "))
			}
			ok2, path := fa.PrecededBy(in, isCallTo(p, "(*app.App).newDBCluster"))
			c.Req(ok2, p.Name(R), p.InstrPos(in), "wiring:"+afterDot(name)+":after-cluster", "the loop starts after the cluster handle was created", "path: "+fa.PathString(path))
		}
	}
	for name := range want {
		c.Req(seen[name], p.Name(R), "-", "wiring:"+afterDot(name)+":started", "Run starts the loop", "no go statement for it")
	}
}

func init() {
	sharedRules = append(sharedRules,
		sharedRule{Suffix: "WIRING", Props: []string{"C02", "C05", "C11", "C15", "C20"}, Body: checkRunWiring, Doc: "(WIRING) Run starts the health, recovery, lag and state-file loops unconditionally and the CA-file and repl_mon loops under their own configuration switch, all after the cluster handle exists"},
		sharedRule{Suffix: "ROWSERR", Props: []string{"C01", "C04", "C09", "C11", "C13", "C20"}, Body: checkRowsErr, Doc: "(ROWSERR) a single-row reader answers 'no row' only after rows.Err() returned nil"},
		sharedRule{Suffix: "PARALLEL", Props: []string{"C01", "C03", "C08"}, Body: checkRunParallel, Doc: "(PARALLEL) the fan-out helper records an entry for every input, nil results included"},
		sharedRule{Suffix: "LOOPALL", Props: []string{"C04"}, Body: func(c *Check) {
			checkLoopAll(c, "(*app.App).disableSemiSyncOnSlaves", 2, "acknowledgement is switched off on EVERY host that leaves the list: a failure on one host does not end the loop (the others would stay ackers outside the published list)")
		}, Doc: "(LOOPALL) the loops that switch acknowledgement off have no exit other than exhaustion"},
		sharedRule{Suffix: "BOUNDWIDEN", Props: []string{"C14"}, Body: checkBoundWiden, Doc: "(BOUNDWIDEN) async_allowed_lag replaces the priority-choice bound only in async mode and only when larger"},
		sharedRule{Suffix: "COW", Props: []string{"C20"}, Body: checkDaemonStateCOW, Doc: "(COW) the cached daemon state is replaced, never modified in place"},
		sharedRule{Suffix: "FRESHSET", Props: []string{"C13", "C01"}, Body: checkFreshGtidSet, Doc: "(FRESHSET) every GTID parse returns a set of its own"},
		sharedRule{Suffix: "FRESHDEST", Props: []string{"C16"}, Body: func(c *Check) { checkFreshDecodeDest(c, "(*app.appDCS).FetchCascadeNodeConfigurations") }, Doc: "(FRESHDEST) a cascade record is decoded into a variable declared per host"},
	)
}

// CACHEKEY: the lock cache is keyed by the full path everywhere (a delete under another key is a no-op and leaves "held").
func checkLockCacheKey(c *Check) {
	p := c.p
	n := 0
	for _, fn := range p.ModFuncs {
		if !inFile(p, fn, "internal/dcs/zk.go") {
			continue
		}
		for _, ci := range p.Calls(fn, "(*sync.Map).Load", "(*sync.Map).Store", "(*sync.Map).Delete", "(*sync.Map).LoadOrStore", "(*sync.Map).LoadAndDelete") {
			recv := p.T(ci.Common().Args[0])
			if !recv.Contains(func(x *Term) bool { return x.IsField("lockHeld") || (x.Op == "fieldaddr" && afterDot(x.Name) == "lockHeld") }) {
				continue
			}
			n++
			k := p.T(underIface(ci.Common().Args[1]))
			okk := p.IsCall(k, "(*dcs.zkDCS).buildFullPath") && len(k.Args) == 2 && k.Args[1].Op == "param"
			c.Req(okk, p.Name(fn), p.InstrPos(ci), nthKey("cachekey:"+afterDot(p.CalleeNames(ci)[0]), n), "the lock cache is read, written and cleared under the same key, the full path of the lock (a delete under the bare path removes nothing and the next acquire answers 'held' from the cache)", "key is "+k.String())
		}
	}
	c.Req(n >= 5, "internal/dcs/zk.go", "-", "cachekey:sites", "lock cache accesses found", fmt.Sprintf("%d", n))
}

func init() {
	sharedRules = append(sharedRules, sharedRule{Suffix: "CACHEKEY", Props: []string{"C03", "C06", "C15"}, Body: checkLockCacheKey, Doc: "(CACHEKEY) every access to the lock cache uses buildFullPath(path) as its key"})
}

// ADAPTERSENT: the sentinels each method of the optimisation registry adapter tolerates (read against the source).
var adapterSentinels = map[string][]string{
	"(*app/dcs.OptimizationDCSAdapter).initDcs":     {"dcs.ErrExists"},
	"(*app/dcs.OptimizationDCSAdapter).GetHosts":    nil,
	"(*app/dcs.OptimizationDCSAdapter).SetState":    nil,
	"(*app/dcs.OptimizationDCSAdapter).GetState":    {"dcs.ErrNotFound"}, // an unreadable record is an error, not "not registered"
	"(*app/dcs.OptimizationDCSAdapter).DeleteHosts": {"dcs.ErrNotFound"},
	"(*app/dcs.OptimizationDCSAdapter).CreateHosts": {"dcs.ErrExists"},
}

func checkAdapterSentinels(c *Check) {
	p := c.p
	for name, want := range adapterSentinels {
		F := p.MustFunc(name)
		tested := map[string]bool{}
		for _, f := range Closures(F) {
			for _, b := range f.Blocks {
				for _, in := range b.Instrs {
					if call, ok := in.(*ssa.Call); ok && matchName(p.CalleeNames(call), "errors.Is") {
						if t := p.T(call.Call.Args[1]); t.Op == "global" {
							tested[t.Name] = true
						}
					}
				}
			}
		}
		var ts []string
		for t := range tested {
			ts = append(ts, t)
		}
		sortStrings(ts)
		w := append([]string{}, want...)
		sortStrings(w)
		c.Req(strings.Join(ts, " ") == strings.Join(w, " "), name, p.Pos(F.Pos()), "adapter:sentinels", "the registry adapter tolerates exactly the sentinels of its contract ("+strings.Join(w, ", ")+"): a record that cannot be decoded is an error — treating it as 'not registered' hides a relaxed host from the sync", "tests "+strings.Join(ts, ", "))
	}
}

func sortStrings(s []string) {
	for i := 1; i < len(s); i++ {
		for j := i; j > 0 && s[j] < s[j-1]; j-- {
			s[j], s[j-1] = s[j-1], s[j]
		}
	}
}

// SETTINGSARGS: each durability statement is bound to the settings field of the same name.
func checkSettingsArgs(c *Check) {
	p := c.p
	want := map[string]string{"level": "InnodbFlushLogAtTrxCommit", "sync_binlog": "SyncBinlog"}
	n := 0
	for _, fname := range []string{"(*mysql.Node).SetReplicationSettings", "(*mysql.Node).SetDefaultReplicationSettings"} {
		F := p.MustFunc(fname)
		for _, b := range F.Blocks {
			for _, in := range b.Instrs {
				mu, ok := in.(*ssa.MapUpdate)
				if !ok {
					continue
				}
				k := p.T(mu.Key)
				f, ok := want[k.Name]
				if !ok || k.Op != "const" {
					continue
				}
				n++
				v := p.T(underIface(mu.Value))
				c.Req(mentions(p, v, f), p.Name(F), p.InstrPos(mu), nthKey("settings:"+k.Name, n), "the statement parameter :"+k.Name+" is bound to the settings field "+f, "bound to "+v.String())
			}
		}
		// and each parameter map goes to its own statement
		for _, ci := range p.Calls(F, "(*mysql.Node).exec") {
			q := p.T(ci.Common().Args[1])
			arg := ci.Common().Args[2]
			keys := map[string]bool{}
			if mm, ok := arg.(*ssa.MakeMap); ok {
				for _, r := range *mm.Referrers() {
					if mu, ok := r.(*ssa.MapUpdate); ok {
						keys[p.T(mu.Key).Name] = true
					}
				}
			}
			switch q.Name {
			case "set_innodb_flush_log_at_trx_commit":
				c.Req(keys["level"] && len(keys) == 1, p.Name(F), p.InstrPos(ci), "settings:stmt:flush", "the flush-log statement receives :level", fmt.Sprint(keys))
			case "set_sync_binlog":
				c.Req(keys["sync_binlog"] && len(keys) == 1, p.Name(F), p.InstrPos(ci), "settings:stmt:sync_binlog", "the sync_binlog statement receives :sync_binlog", fmt.Sprint(keys))
			}
		}
	}
	c.Req(n >= 4, "internal/mysql/node.go", "-", "settings:bindings", "parameter bindings found", fmt.Sprintf("%d", n))
}

// HEALTHTICK: every tick of the health loop publishes the record (no path from the tick back to the select skips the write).
func checkHealthTick(c *Check) {
	p := c.p
	H := p.MustFunc("(*app.App).healthChecker")
	fa := p.FA(H)
	var sel *ssa.Select
	for _, b := range H.Blocks {
		for _, in := range b.Instrs {
			if s, ok := in.(*ssa.Select); ok {
				sel = s
			}
		}
	}
	if sel == nil {
		panic(AnchorError{"select in healthChecker"})
	}
	write := p.Calls(H, "(*app.App).SetHealthState")
	if !c.Req(len(write) == 1, p.Name(H), "-", "health:write-site", "one site publishes the record", fmt.Sprintf("%d", len(write))) {
		return
	}
	collect := p.Calls(H, "(*app.App).getLocalNodeState")
	if !c.Req(len(collect) == 1, p.Name(H), "-", "health:collect-site", "one site collects the local state", "") {
		return
	}
	// from the collection, the next select (next tick) is reachable only through the write
	path, _ := fa.ReachAfter(collect[0], func(in ssa.Instruction) bool { return in == ssa.Instruction(sel) }, ReachOpts{Barrier: func(in ssa.Instruction) bool { return in == write[0].(ssa.Instruction) }})
	c.Req(path == nil, p.Name(H), p.InstrPos(write[0]), "health:every-tick-writes", "every tick publishes the health record: the record is ephemeral and vanishes with the session, so a 'nothing changed, skip the write' shortcut leaves a live mysync without a record after a session expiry", "path from the collection to the next tick without the write: "+fa.PathString(path))
	// the record written is the one just collected, for this host
	a := write[0].Common().Args
	c.Req(p.T(a[1]).IsField("Hostname") && p.T(a[2]).V == collect[0].(ssa.Value), p.Name(H), p.InstrPos(write[0]), "health:record", "the record published is this host's, just collected", "")
}

// DURATIONS: a duration default is a multiple of a time unit (a bare integer is nanoseconds).
func checkDurationDefaults(c *Check) {
	p := c.p
	D := p.MustFunc("config.DefaultConfig")
	n := 0
	for _, b := range D.Blocks {
		for _, in := range b.Instrs {
			st, ok := in.(*ssa.Store)
			if !ok {
				continue
			}
			f, ok := st.Addr.(*ssa.FieldAddr)
			if !ok {
				continue
			}
			if st.Val.Type().String() != "time.Duration" {
				continue
			}
			k, ok := st.Val.(*ssa.Const)
			if !ok || k.Value == nil {
				continue
			}
			n++
			v, _ := constantInt(k)
			c.Req(v == 0 || v >= 1_000_000, p.Name(D), p.InstrPos(in), "duration:"+afterDot(fieldName(f.X.Type(), f.Field)), "a duration default is zero or at least a millisecond: a bare number without a unit is nanoseconds (a 60 ns deadline has expired before the statement is sent)", fmt.Sprintf("%d ns", v))
		}
	}
	c.Req(n >= 25, p.Name(D), "-", "duration:defaults", "duration defaults found", fmt.Sprintf("%d", n))
}

// CONFIGTAGS: the key a field is read from in the YAML file is the key it is documented under.
func checkConfigTags(c *Check) {
	p := c.p
	pk := p.Pkg("internal/config")
	n := 0
	for _, name := range pk.Types.Scope().Names() {
		tn, ok := pk.Types.Scope().Lookup(name).(*types.TypeName)
		if !ok {
			continue
		}
		st, ok := tn.Type().Underlying().(*types.Struct)
		if !ok {
			continue
		}
		for i := 0; i < st.NumFields(); i++ {
			tag := reflect.StructTag(st.Tag(i))
			ct, hasC := tag.Lookup("config")
			if !hasC {
				continue
			}
			ct = strings.Split(ct, ",")[0]
			yt, hasY := tag.Lookup("yaml")
			eff := strings.ToLower(st.Field(i).Name())
			if hasY {
				eff = strings.Split(yt, ",")[0]
			}
			n++
			c.Req(eff == ct, "config."+name, p.Pos(st.Field(i).Pos()), "tag:"+name+"."+st.Field(i).Name(), "the YAML key of a configuration field is its documented key: without a yaml tag the decoder uses the lower-cased field name, which differs as soon as the key has an underscore (the setting is then silently ignored and the default applies)", "read from '"+eff+"', documented as '"+ct+"'")
		}
	}
	c.Req(n >= 80, "internal/config", "-", "tag:fields", "configuration fields found", fmt.Sprintf("%d", n))
}

// SNAPSHOTARGS: a function that takes both state maps receives them in the same roles at every call site.
func checkSnapshotArgs(c *Check) {
	p := c.p
	na := newNilAnalysis(c)
	n := 0
	for _, fn := range na.funcs {
		var mapParams []int
		for i, pa := range fn.Params {
			if isStateMapType(pa.Type()) {
				mapParams = append(mapParams, i)
			}
		}
		if len(mapParams) < 2 {
			continue
		}
		sites := na.callSites[fn]
		for _, idx := range mapParams {
			var kinds []string
			for _, cs := range sites {
				if idx >= len(cs.Args) || cs.Args[idx] == nil {
					continue
				}
				if na.isSecondSnapshot(cs.Caller, cs.Args[idx], 0) {
					kinds = append(kinds, "health-records")
				} else {
					kinds = append(kinds, "collected")
				}
			}
			same := true
			for _, k := range kinds {
				if k != kinds[0] {
					same = false
				}
			}
			if len(kinds) == 0 {
				continue
			}
			n++
			if !same {
				if why, ok := snapshotExceptions[fmt.Sprintf("%s#%d", p.Name(fn), idx)]; ok {
					c.Hold(p.Name(fn), p.Pos(fn.Pos()), fmt.Sprintf("snapshot-arg#%d:exception", idx), "listed exception: "+why)
					continue
				}
			}
			c.Req(same, p.Name(fn), p.Pos(fn.Pos()), fmt.Sprintf("snapshot-arg#%d", idx), "each state-map parameter receives the same kind of snapshot (collected from the servers / read from the health records) at every call site: the disk-space guard, the keep-alive rule and the failure clock read fields that only the health records carry", strings.Join(kinds, ", "))
		}
	}
	c.Req(n >= 6, "internal/app", "-", "snapshot-args", "two-map functions found", fmt.Sprintf("%d", n))
}

var snapshotExceptions = map[string]string{
	"(*app.App).updateActiveNodes#2": "the switchover procedure rebuilds the list right after the promotion from a freshly collected state and has no health records at hand; the keep-alive rule then simply finds nobody alive in them",
	"(*app.App).calcActiveNodes#2":   "same call chain",
}

// REFRESH: state is collected from a registry that was refreshed first.
func checkRegistryRefresh(c *Check) {
	p := c.p
	n := 0
	for _, fname := range []string{"(*app.App).stateManager", "(*app.App).leaveMaintenance", "(*app.App).stateCandidate"} {
		F := p.MustFunc(fname)
		fa := p.FA(F)
		for _, ci := range p.Calls(F, "(*app.App).getClusterStateFromDB", "(*app.App).getClusterStateFromDcs") {
			// only the first collection of the function needs it (later ones re-read inside the same iteration)
			if ok, _ := fa.PrecededBy(ci, isCallTo(p, "(*app.App).getClusterStateFromDB")); ok && !p.siteIs(ci, "(*app.App).getClusterStateFromDB") {
				continue
			}
			if ok, _ := fa.PrecededBy(ci, func(in ssa.Instruction) bool {
				return in != ci.(ssa.Instruction) && isCallTo(p, "(*app.App).getClusterStateFromDB")(in)
			}); ok {
				continue
			}
			n++
			okp, path := fa.PrecededBy(ci, isCallTo(p, "(*mysql.Cluster).UpdateHostsInfo"))
			c.Req(okp, p.Name(F), p.InstrPos(ci), nthKey("refresh:"+afterDot(fname), n), "the host registry is refreshed before the cluster state is collected: hosts added, removed or turned into cascade replicas since the last refresh — also during maintenance, whose handler never refreshes — are seen in their new role", "path: "+fa.PathString(path))
		}
	}
	c.Req(n >= 2, "internal/app", "-", "refresh:sites", "first collections found", fmt.Sprintf("%d", n))
}

// CLITRANSITION: the operator's --failover flag decides the kind of request filed: "failover" exactly when it is set.
func checkCliTransition(c *Check) {
	p := c.p
	F := p.MustFunc("(*app.App).CliSwitch")
	fa := p.FA(F)
	flagIdx := ""
	for i, prm := range F.Params {
		if prm.Name() == "failover" || (isBoolType(prm.Type()) && flagIdx == "") {
			flagIdx = fmt.Sprint(i)
		}
	}
	flag := func(pos bool) LitPat {
		return func(l Lit) bool { return l.Pos == pos && isParam(l.T, flagIdx) }
	}
	seen := map[string]int{}
	n := 0
	for _, b := range F.Blocks {
		for _, in := range b.Instrs {
			st, ok := in.(*ssa.Store)
			if !ok {
				continue
			}
			fad, ok := st.Addr.(*ssa.FieldAddr)
			if !ok || fieldName(fad.X.Type(), fad.Field) != "app.Switchover.MasterTransition" {
				continue
			}
			n++
			type alt struct {
				v    *Term
				lits []Lit
			}
			var alts []alt
			if ph, isPhi := st.Val.(*ssa.Phi); isPhi {
				for i, e := range ph.Edges {
					alts = append(alts, alt{p.T(e), fa.incomingLits(ph.Block(), i, 0)})
				}
			} else {
				alts = []alt{{p.T(st.Val), nil}}
			}
			for _, a := range alts {
				var want bool
				switch {
				case a.v.IsConst("failover"):
					want = true
				case a.v.IsConst("switchover"):
					want = false
				default:
					c.Fail(p.Name(F), p.InstrPos(st), nthKey("cli-transition", n), "the transition filed by the CLI is one of the two known constants", "stores "+a.v.String())
					continue
				}
				seen[a.v.Name]++
				okg := false
				for _, l := range a.lits {
					okg = okg || flag(want)(l)
				}
				if !okg {
					okg, _ = fa.Gated(st, flag(want))
				}
				c.Req(okg, p.Name(F), p.InstrPos(st), nthKey("cli-transition:"+a.v.Name, n), "the request is filed as a forced failover exactly when the operator asked for one (a forced failover filed as a planned switch is blocked by light maintenance, counted against the attempts limit and waits for the dead master)", "")
			}
		}
	}
	c.Req(seen["failover"] >= 1 && seen["switchover"] >= 1, p.Name(F), "-", "cli-transition:both", "both kinds of request can be filed", fmt.Sprintf("%v", seen))
}

func init() {
	sharedRules = append(sharedRules,
		sharedRule{Suffix: "CLITRANSITION", Props: []string{"C06", "C09"}, Body: checkCliTransition, Doc: "(CLITRANSITION) the CLI files a forced failover exactly when --failover was given"},
		sharedRule{Suffix: "ADAPTERSENT", Props: []string{"C19"}, Body: checkAdapterSentinels, Doc: "(ADAPTERSENT) the optimisation registry adapter tolerates exactly the sentinels of its contract"},
		sharedRule{Suffix: "SETTINGSARGS", Props: []string{"C19"}, Body: checkSettingsArgs, Doc: "(SETTINGSARGS) each durability statement is bound to the settings field of the same name"},
		sharedRule{Suffix: "HEALTHTICK", Props: []string{"C05", "C15"}, Body: checkHealthTick, Doc: "(HEALTHTICK) every tick of the health loop publishes this host's freshly collected record"},
		sharedRule{Suffix: "DURATIONS", Props: []string{"C08", "C18"}, Body: checkDurationDefaults, Doc: "(DURATIONS) every duration default is zero or at least a millisecond"},
		sharedRule{Suffix: "CONFIGTAGS", Props: []string{"C04", "C05", "C12", "C17", "C18"}, Body: checkConfigTags, Doc: "(CONFIGTAGS) the YAML key a configuration field is read from is its documented key"},
		sharedRule{Suffix: "SNAPSHOTARGS", Props: []string{"C18", "C04", "C05"}, Body: checkSnapshotArgs, Doc: "(SNAPSHOTARGS) each state-map parameter receives the same kind of snapshot at every call site"},
		sharedRule{Suffix: "REFRESH", Props: []string{"C09", "C16", "C10"}, Body: checkRegistryRefresh, Doc: "(REFRESH) the host registry is refreshed before the cluster state is collected"},
	)
}

// TIMINGS: the failure clocks are per (kind, host): every accessor reads or writes exactly the entry of the kind and host given.
func checkTimings(c *Check) {
	p := c.p
	n := 0
	for _, m := range []string{"Get", "Set", "SetIfZero", "Clean"} {
		F := p.MustFunc("(*app.Timings)." + m)
		for _, b := range F.Blocks {
			for _, in := range b.Instrs {
				switch x := in.(type) {
				case *ssa.MapUpdate:
					n++
					inner := p.T(x.Map)
					okm := inner.Op == "lookup" && inner.Args[0].IsField("m") && isParam(inner.Args[1], "1")
					c.Req(okm && isParam(p.T(x.Key), "2"), p.Name(F), p.InstrPos(in), nthKey("timings:write:"+m, n), "a clock is written at exactly (kind, host) given", "writes "+inner.String()+"["+p.T(x.Key).String()+"]")
					if m == "Clean" {
						c.Req(strings.HasPrefix(p.T(x.Value).Name, "zero:") || p.T(x.Value).Op == "load" || p.T(x.Value).Op == "alloc" || p.T(x.Value).Op == "const", p.Name(F), p.InstrPos(in), "timings:clean:zero", "cleaning stores the zero time", "stores "+p.T(x.Value).String())
					}
				case *ssa.Lookup:
					if p.T(x.X).Op == "lookup" {
						n++
						inner := p.T(x.X)
						c.Req(inner.Args[0].IsField("m") && isParam(inner.Args[1], "1") && isParam(p.T(x.Index), "2"), p.Name(F), p.InstrPos(in), nthKey("timings:read:"+m, n), "a clock is read at exactly (kind, host) given", "")
					}
				case *ssa.Call:
					if bi, ok := x.Call.Value.(*ssa.Builtin); ok && (bi.Name() == "clear" || bi.Name() == "delete") {
						c.Fail(p.Name(F), p.InstrPos(in), "timings:"+m+":"+bi.Name(), "an accessor touches one entry only: the other hosts' clocks of the same kind keep running (clearing them restarts every inactivation / failover delay on each tick)", "calls "+bi.Name())
					}
				}
			}
		}
	}
	c.Req(n >= 5, "internal/app/timings.go", "-", "timings:accesses", "clock accesses found", fmt.Sprintf("%d", n))
}

func init() {
	sharedRules = append(sharedRules, sharedRule{Suffix: "TIMINGS", Props: []string{"C04", "C05", "C08"}, Body: checkTimings, Doc: "(TIMINGS) the failure clocks are read and written at exactly the (kind, host) entry given; nothing clears a whole kind"})
}
