package main

// Smaller producer rules added after the second round of seeded changes.

import (
	"fmt"
	"strings"

	"golang.org/x/tools/go/ssa"
)

// ROWSERR: a single-row reader answers "no row" (sql.ErrNoRows — which GetReplicaStatus turns into "this node is a
// master") only after rows.Err() said the result set ended cleanly.
func checkRowsErr(c *Check) {
	p := c.p
	n := 0
	for _, top := range p.ModFuncs {
		if top.Parent() != nil || !inFile(p, top, "internal/mysql/node.go") {
			continue
		}
		for _, f := range Closures(top) {
			fa := p.FA(f)
			for _, b := range f.Blocks {
				for _, in := range b.Instrs {
					ld, ok := in.(*ssa.UnOp)
					if !ok || ld.Op.String() != "*" {
						continue
					}
					g, ok := ld.X.(*ssa.Global)
					if !ok || g.Name() != "ErrNoRows" {
						continue
					}
					// only where it is PRODUCED (assigned / returned), not where it is compared
					produced := false
					for _, r := range *ld.Referrers() {
						switch r.(type) {
						case *ssa.Phi, *ssa.Store, *ssa.Return:
							produced = true
						}
					}
					if !produced {
						continue
					}
					n++
					c.Gate(fa, in, nthKey("norows-after-rows.Err", n), "'no row' is answered only after rows.Err() returned nil: a result set that broke off is an error, not an empty answer (an empty replica status means 'this node is a master')", func(l Lit) bool {
						if !l.Pos || l.T.Op != "isnil" {
							return false
						}
						r := ResultOf(l.T.Args[0], -1)
						return r != nil && strings.HasSuffix(r.Name, "Rows).Err")
					})
				}
			}
		}
	}
	c.Req(n >= 2, "internal/mysql/node.go", "-", "norows:sites", "single-row readers found", fmt.Sprintf("%d", n))
}

// PARALLEL: the fan-out helper records an entry for every input, nil results included (callers count nil entries).
func checkRunParallel(c *Check) {
	p := c.p
	F := p.MustFunc("util.RunParallel")
	fa := p.FA(F)
	n := 0
	for _, b := range F.Blocks {
		for _, in := range b.Instrs {
			mu, ok := in.(*ssa.MapUpdate)
			if !ok {
				continue
			}
			n++
			// not conditional on the value: the only branch on the way is the loop itself
			cond := false
			for _, bb := range F.Blocks {
				iff := blockIf(bb)
				if iff == nil || !bb.Dominates(b) {
					continue
				}
				if bo, ok := iff.Cond.(*ssa.BinOp); ok {
					t := p.T(bo)
					if t.Contains(func(x *Term) bool { return x.IsField("err") || x.IsConst("nil") }) {
						cond = true
					}
				}
			}
			c.Req(!cond, p.Name(F), p.InstrPos(mu), "parallel:total", "the result map gets an entry for every input, whatever the closure answered (the liveness probe counts the nil entries)", "the store is conditional on the result")
			_ = fa
		}
	}
	c.Req(n == 1, p.Name(F), "-", "parallel:store", "one store into the result map", fmt.Sprintf("%d", n))
	// as many receives as inputs
	okLoop := false
	for _, b := range F.Blocks {
		for _, in := range b.Instrs {
			if u, ok := in.(*ssa.UnOp); ok && u.Op.String() == "<-" {
				okLoop = true
			}
		}
	}
	c.Req(okLoop, p.Name(F), "-", "parallel:receive", "results are received from the workers", "")
}

// LOOPALL: a per-host loop that must visit every host has no exit other than exhaustion.
func loopExits(fn *ssa.Function) (loops int, exits []ssa.Instruction) {
	for _, h := range fn.Blocks {
		var latches []*ssa.BasicBlock
		for _, pr := range h.Preds {
			if h.Dominates(pr) {
				latches = append(latches, pr)
			}
		}
		if len(latches) == 0 {
			continue
		}
		loops++
		body := map[*ssa.BasicBlock]bool{h: true}
		var stack []*ssa.BasicBlock
		for _, l := range latches {
			if !body[l] {
				body[l] = true
				stack = append(stack, l)
			}
		}
		for len(stack) > 0 {
			b := stack[len(stack)-1]
			stack = stack[:len(stack)-1]
			for _, pr := range b.Preds {
				if !body[pr] {
					body[pr] = true
					stack = append(stack, pr)
				}
			}
		}
		for b := range body {
			if b == h {
				continue
			}
			for _, s := range b.Succs {
				if !body[s] {
					exits = append(exits, b.Instrs[len(b.Instrs)-1])
				}
			}
			if _, ok := b.Instrs[len(b.Instrs)-1].(*ssa.Return); ok {
				exits = append(exits, b.Instrs[len(b.Instrs)-1])
			}
		}
	}
	return
}

func checkLoopAll(c *Check, fname string, wantLoops int, why string) {
	p := c.p
	F := p.MustFunc(fname)
	loops, exits := loopExits(F)
	c.Req(loops == wantLoops, p.Name(F), p.Pos(F.Pos()), "loop:count", fmt.Sprintf("%d per-host loop(s)", wantLoops), fmt.Sprintf("%d", loops))
	if len(exits) == 0 {
		c.Hold(p.Name(F), p.Pos(F.Pos()), "loop:no-early-exit", why)
		return
	}
	for i, e := range exits {
		c.Fail(p.Name(F), p.InstrPos(e), nthKey("loop:no-early-exit", i+1), why, "the loop is left from its body here (break / return)")
	}
}

// BOUNDWIDEN: the async allowed lag only ever widens the priority-choice bound.
func checkBoundWiden(c *Check) {
	p := c.p
	N := p.MustFunc("mysql.NewSwitchHelper")
	fa := p.FA(N)
	n := 0
	// the value stored is a phi of PriorityChoiceMaxLag and AsyncAllowedLag: the edge bringing AsyncAllowedLag carries lt(PriorityChoiceMaxLag, AsyncAllowedLag)
	for _, b := range N.Blocks {
		for _, in := range b.Instrs {
			ph, ok := in.(*ssa.Phi)
			if !ok {
				continue
			}
			for i, e := range ph.Edges {
				if !p.T(e).IsField("AsyncAllowedLag") {
					continue
				}
				n++
				pred := b.Preds[i]
				// every path to the end of pred carries the comparison and the async flag
				last := pred.Instrs[len(pred.Instrs)-1]
				c.Gate(fa, last, nthKey("bound:async-only-widens", n), "async_allowed_lag replaces the priority-choice bound only when it is larger", func(l Lit) bool {
					a, bb, op, ok := Cmp(l)
					return ok && ((op == "<" && a.IsField("PriorityChoiceMaxLag") && bb.IsField("AsyncAllowedLag")) || (op == ">" && a.IsField("AsyncAllowedLag") && bb.IsField("PriorityChoiceMaxLag")))
				})
				c.Gate(fa, last, nthKey("bound:async-mode", n), "… and only in async mode", FieldLit(true, "ASync"))
			}
		}
	}
	c.Req(n >= 1, p.Name(N), "-", "bound:async-edge", "the constructor's async widening is found", fmt.Sprintf("%d", n))
}

// COW: a daemon state that was handed out is never written again: every store to a DaemonState field goes to an
// object allocated in the same function.
func checkDaemonStateCOW(c *Check) {
	p := c.p
	F := p.MustFunc("(*app.App).getLocalDaemonState")
	n := 0
	for _, f := range Closures(F) {
		for _, b := range f.Blocks {
			for _, in := range b.Instrs {
				st, ok := in.(*ssa.Store)
				if !ok {
					continue
				}
				fa, ok := st.Addr.(*ssa.FieldAddr)
				if !ok || !strings.Contains(fieldName(fa.X.Type(), fa.Field), "DaemonState.") {
					continue
				}
				n++
				_, fresh := fa.X.(*ssa.Alloc)
				c.Req(fresh, p.Name(f), p.InstrPos(in), nthKey("cow:"+afterDot(fieldName(fa.X.Type(), fa.Field)), n), "the daemon state is filled into a fresh object; the cached one was handed to the health checker and the state maps, which read it outside the daemon mutex", "written through "+p.T(fa.X).String())
			}
		}
	}
	c.Req(n >= 3, p.Name(F), "-", "cow:stores", "field stores found", fmt.Sprintf("%d", n))
}

// FRESH: ParseGtidSet hands out a set nobody else holds (callers Update() it in place).
func checkFreshGtidSet(c *Check) {
	p := c.p
	F := p.MustFunc("mysql/gtids.ParseGtidSet")
	n := 0
	for _, rs := range c.RetSites(F, 0) {
		n++
		t := p.T(rs.Val)
		bad := t.Contains(func(x *Term) bool { return x.Op == "global" || x.Op == "globaladdr" })
		lib := t.Contains(func(x *Term) bool { return x.Op == "call" && strings.Contains(x.Name, "ParseGTIDSet") })
		c.Req(!bad && lib, p.Name(F), p.InstrPos(rs.At), nthKey("fresh:result", n), "every parse returns a set of its own, built by the library's parser: position collection merges the retrieved set into it in place, so a shared empty set would leak from one host to the next", "returns "+t.String())
	}
	c.Req(n >= 1, p.Name(F), "-", "fresh:returns", "return sites", "")
}

// FRESHDEST: a decode destination inside a per-host loop is declared inside the loop.
func checkFreshDecodeDest(c *Check, fname string) {
	p := c.p
	F := p.MustFunc(fname)
	loops := map[*ssa.BasicBlock]bool{}
	for _, h := range F.Blocks {
		for _, pr := range h.Preds {
			if h.Dominates(pr) {
				loops[h] = true
			}
		}
	}
	n := 0
	for _, b := range F.Blocks {
		for _, in := range b.Instrs {
			ci, ok := in.(ssa.CallInstruction)
			if !ok {
				continue
			}
			op, isDcs := isDCSInvoke(ci)
			if !isDcs || op != "Get" {
				continue
			}
			var head *ssa.BasicBlock
			for h := range loops {
				if h.Dominates(b) && h != b {
					head = h
				}
			}
			if head == nil {
				continue
			}
			n++
			dest := underIface(ci.Common().Args[1])
			al, ok := dest.(*ssa.Alloc)
			c.Req(ok && head.Dominates(al.Block()) && al.Block() != head, p.Name(F), p.InstrPos(ci), nthKey("decode:fresh-per-host", n), "the destination a host's record is decoded into is a new variable per host: a record that lacks a field must not inherit the previous host's value", "destination "+p.T(dest).String())
		}
	}
	c.Req(n >= 1, p.Name(F), "-", "decode:sites", "decode sites inside the loop", "")
}

// WIRING: the background loops every property assumes are running are started by Run, unconditionally or under exactly
// the configuration switch that owns them, after the cluster handle exists.
func checkRunWiring(c *Check) {
	p := c.p
	R := p.MustFunc("(*app.App).Run")
	fa := p.FA(R)
	want := map[string]string{ // loop → gate ("" = unconditional)
		"(*app.App).healthChecker":         "",
		"(*app.App).recoveryChecker":       "",
		"(*app.App).replicationLagChecker": "",
		"(*app.App).stateFileHandler":      "",
		"(*app.App).externalCAFileChecker": "ExternalReplicationType",
		"(*app.App).replMonWriter":         "ReplMon",
	}
	seen := map[string]bool{}
	for _, b := range R.Blocks {
		for _, in := range b.Instrs {
			g, ok := in.(*ssa.Go)
			if !ok {
				continue
			}
			callee := g.Call.StaticCallee()
			if callee == nil {
				continue
			}
			name := p.Name(callee)
			name = strings.TrimSuffix(name, "$bound")
			gate, known := want[name]
			if !known {
				continue
			}
			seen[name] = true
			// conditions on the way: every If that dominates the statement and whose other branch skips it
			var conds []string
			for _, bb := range R.Blocks {
				iff := blockIf(bb)
				if iff == nil || !bb.Dominates(b) || bb == b {
					continue
				}
				// does the other successor reach the end of Run's start-up without this go statement? (it is a guard of it)
				for si := range bb.Succs {
					if reaches(bb.Succs[si], b) {
						continue
					}
					t := p.T(iff.Cond)
					conds = append(conds, t.String())
				}
			}
			if gate == "" {
				// only error exits of the start-up may precede it: every guarding condition is an error test
				okc := true
				for _, cd := range conds {
					if !strings.Contains(cd, "nil") && !strings.Contains(cd, "#1") {
						okc = false
					}
				}
				c.Req(okc, p.Name(R), p.InstrPos(in), "wiring:"+afterDot(name), "the loop is started unconditionally (only a failed start-up step precedes it)", "guarded by "+strings.Join(conds, " ; "))
			} else {
				has := false
				for _, cd := range conds {
					if strings.Contains(cd, gate) {
						has = true
					}
				}
				c.Req(has, p.Name(R), p.InstrPos(in), "wiring:"+afterDot(name), "the loop is started under its own configuration switch ("+gate+")", "guarded by "+strings.Join(conds, " ; "))
			}
			ok2, path := fa.PrecededBy(in, isCallTo(p, "(*app.App).newDBCluster"))
			c.Req(ok2, p.Name(R), p.InstrPos(in), "wiring:"+afterDot(name)+":after-cluster", "the loop starts after the cluster handle was created", "path: "+fa.PathString(path))
		}
	}
	for name := range want {
		c.Req(seen[name], p.Name(R), "-", "wiring:"+afterDot(name)+":started", "Run starts the loop", "no go statement for it")
	}
}

func init() {
	sharedRules = append(sharedRules,
		sharedRule{Suffix: "WIRING", Props: []string{"C02", "C05", "C11", "C15", "C20"}, Body: checkRunWiring, Doc: "(WIRING) Run starts the health, recovery, lag and state-file loops unconditionally and the CA-file and repl_mon loops under their own configuration switch, all after the cluster handle exists"},
		sharedRule{Suffix: "ROWSERR", Props: []string{"C01", "C13", "C20"}, Body: checkRowsErr, Doc: "(ROWSERR) a single-row reader answers 'no row' only after rows.Err() returned nil"},
		sharedRule{Suffix: "PARALLEL", Props: []string{"C01", "C08"}, Body: checkRunParallel, Doc: "(PARALLEL) the fan-out helper records an entry for every input, nil results included"},
		sharedRule{Suffix: "LOOPALL", Props: []string{"C04"}, Body: func(c *Check) {
			checkLoopAll(c, "(*app.App).disableSemiSyncOnSlaves", 2, "acknowledgement is switched off on EVERY host that leaves the list: a failure on one host does not end the loop (the others would stay ackers outside the published list)")
		}, Doc: "(LOOPALL) the loops that switch acknowledgement off have no exit other than exhaustion"},
		sharedRule{Suffix: "BOUNDWIDEN", Props: []string{"C14"}, Body: checkBoundWiden, Doc: "(BOUNDWIDEN) async_allowed_lag replaces the priority-choice bound only in async mode and only when larger"},
		sharedRule{Suffix: "COW", Props: []string{"C20"}, Body: checkDaemonStateCOW, Doc: "(COW) the cached daemon state is replaced, never modified in place"},
		sharedRule{Suffix: "FRESHSET", Props: []string{"C13", "C01"}, Body: checkFreshGtidSet, Doc: "(FRESHSET) every GTID parse returns a set of its own"},
		sharedRule{Suffix: "FRESHDEST", Props: []string{"C16"}, Body: func(c *Check) { checkFreshDecodeDest(c, "(*app.appDCS).FetchCascadeNodeConfigurations") }, Doc: "(FRESHDEST) a cascade record is decoded into a variable declared per host"},
	)
}

// CACHEKEY: the lock cache is keyed by the full path everywhere (a delete under another key is a no-op and leaves "held").
func checkLockCacheKey(c *Check) {
	p := c.p
	n := 0
	for _, fn := range p.ModFuncs {
		if !inFile(p, fn, "internal/dcs/zk.go") {
			continue
		}
		for _, ci := range p.Calls(fn, "(*sync.Map).Load", "(*sync.Map).Store", "(*sync.Map).Delete", "(*sync.Map).LoadOrStore", "(*sync.Map).LoadAndDelete") {
			recv := p.T(ci.Common().Args[0])
			if !recv.Contains(func(x *Term) bool { return x.IsField("lockHeld") || (x.Op == "fieldaddr" && afterDot(x.Name) == "lockHeld") }) {
				continue
			}
			n++
			k := p.T(underIface(ci.Common().Args[1]))
			okk := p.IsCall(k, "(*dcs.zkDCS).buildFullPath") && len(k.Args) == 2 && k.Args[1].Op == "param"
			c.Req(okk, p.Name(fn), p.InstrPos(ci), nthKey("cachekey:"+afterDot(p.CalleeNames(ci)[0]), n), "the lock cache is read, written and cleared under the same key, the full path of the lock (a delete under the bare path removes nothing and the next acquire answers 'held' from the cache)", "key is "+k.String())
		}
	}
	c.Req(n >= 5, "internal/dcs/zk.go", "-", "cachekey:sites", "lock cache accesses found", fmt.Sprintf("%d", n))
}

func init() {
	sharedRules = append(sharedRules, sharedRule{Suffix: "CACHEKEY", Props: []string{"C03", "C06", "C15"}, Body: checkLockCacheKey, Doc: "(CACHEKEY) every access to the lock cache uses buildFullPath(path) as its key"})
}
