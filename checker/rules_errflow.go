package main

// Error flow in the layers whose job is to report failures (engine E10, second half):
//  RETRY   the retry helpers of the coordination client hand out exactly the connection call's error:
//          their result variable has one assignment, from that call (no second assignment that turns a
//          particular failure into success, no shadowing declaration that leaves it unassigned);
//  DROPPED in the statement layer (internal/mysql/node.go), the coordination client (internal/dcs/zk.go)
//          and the optimisation adapters (internal/app/dcs), the error of every fallible call is returned
//          by the enclosing function, tested in a branch, or logged through the logger — passing it to
//          a tracing helper alone is not handling it;
//  FAILRET in the adapters, from a "call failed and not a tolerated sentinel" edge no success return is reachable.

import (
	"fmt"
	"strings"

	"golang.org/x/tools/go/ssa"
)

func inFile(p *Prog, fn *ssa.Function, suffixes ...string) bool {
	pos := fn.Pos()
	if !pos.IsValid() {
		return false
	}
	f := p.Fset.Position(pos).Filename
	for _, s := range suffixes {
		if strings.HasSuffix(f, s) || strings.Contains(f, s) {
			return true
		}
	}
	return false
}

// flowsToReturn: v (an error value) can be what top-level function F returns as its error, through phis, cells and %w wraps.
func (c *Check) flowsToReturn(F *ssa.Function, v ssa.Value) bool {
	p := c.p
	res := F.Signature.Results()
	if res.Len() == 0 || !isErrorType(res.At(res.Len()-1).Type()) {
		return false
	}
	for _, rs := range c.RetSites(F, res.Len()-1) {
		t := p.T(rs.Val)
		if t.Contains(func(x *Term) bool { return x.V == v }) {
			return true
		}
	}
	return false
}

func checkRetryHelpers(c *Check) {
	p := c.p
	n := 0
	for _, fn := range p.ModFuncs {
		name := p.Name(fn)
		if !strings.HasPrefix(name, "(*dcs.zkDCS).retry") || strings.Contains(name, "$") || name == "(*dcs.zkDCS).retryRequest" || name == "(*dcs.zkDCS).retryRequestInternal" {
			continue
		}
		res := fn.Signature.Results()
		if res.Len() == 0 || !isErrorType(res.At(res.Len()-1).Type()) {
			continue
		}
		n++
		// the named error result
		var cell *ssa.Alloc
		for _, r := range Returns(fn) {
			if ld, ok := r.Results[len(r.Results)-1].(*ssa.UnOp); ok {
				if al, ok := ld.X.(*ssa.Alloc); ok {
					cell = al
				}
			}
		}
		if cell == nil {
			allNil := true
			for _, r := range Returns(fn) {
				if !p.T(r.Results[len(r.Results)-1]).IsConst("nil") {
					allNil = false
				}
			}
			if allNil {
				c.Fail(name, p.Pos(fn.Pos()), "retry:result-is-the-call's-error", "the helper's error result is assigned exactly once, from the connection call", "the result is never assigned (a shadowing declaration inside the closure?): the helper always reports success")
			} else {
				c.Undecided(name, p.Pos(fn.Pos()), "retry:result", "the retry helper returns its named error result", "")
			}
			continue
		}
		sts := p.CellStores(cell)
		okAll := len(sts) >= 1
		var desc []string
		for _, s := range sts {
			t := p.T(s)
			r := ResultOf(t, -1)
			ok := r != nil && strings.Contains(r.Name, "zk.Conn)")
			if !ok {
				okAll = false
			}
			desc = append(desc, t.String())
		}
		c.Req(okAll && len(sts) == 1, name, p.Pos(fn.Pos()), "retry:result-is-the-call's-error", "the helper's error result is assigned exactly once, from the connection call (what the caller maps to 'exists' / 'not found' / success is the server's own answer)", fmt.Sprintf("%d assignment(s): %s", len(sts), strings.Join(desc, " ; ")))
	}
	c.Req(n >= 5, "internal/dcs/zk.go", "-", "retry:helpers", "retry helpers found", fmt.Sprintf("%d", n))
}

// droppedErrors: (E-b) over the functions selected.
func checkDroppedErrors(c *Check, sel func(fn *ssa.Function) bool, min int, exceptions map[string]string) {
	p := c.p
	n := 0
	for _, top := range p.ModFuncs {
		if top.Parent() != nil || !sel(top) {
			continue
		}
		if strings.HasSuffix(p.Fset.Position(top.Pos()).Filename, "_test.go") {
			continue
		}
		for _, f := range Closures(top) {
			for _, b := range f.Blocks {
				for _, in := range b.Instrs {
					ci, ok := in.(ssa.CallInstruction)
					if !ok {
						continue
					}
					if _, isGo := in.(*ssa.Go); isGo {
						continue
					}
					if _, isDefer := in.(*ssa.Defer); isDefer {
						continue
					}
					evs := errValues(ci)
					sig := ci.Common().Signature()
					if sig.Results().Len() == 0 || !isErrorType(sig.Results().At(sig.Results().Len()-1).Type()) {
						continue
					}
					callee := p.CalleeNames(ci)[0]
					if strings.HasPrefix(callee, "fmt.") || strings.HasPrefix(callee, "errors.") || strings.HasSuffix(callee, ").Close") {
						continue // closing errors are discarded by idiom (`_ = rows.Close()`): nothing was asked of the handle any more
					}
					n++
					key := p.Name(f) + ":" + afterDot(callee)
					handled := false
					for _, ev := range evs {
						if c.consumed(top, f, ev, 0) {
							handled = true
						}
					}
					if !handled {
						if why, ok := exceptions[key]; ok {
							c.Hold(p.Name(f), p.InstrPos(in), "dropped:"+afterDot(callee)+":exception", "listed exception: "+why)
							continue
						}
					}
					c.Req(handled, p.Name(f), p.InstrPos(in), nthKey("dropped:"+afterDot(callee), n), "the error of a fallible call is returned by the enclosing function, tested or logged — not dropped or only traced", "error of "+callee+" is not used")
				}
			}
		}
	}
	c.Req(n >= min, "-", "-", "dropped:calls", "fallible calls examined", fmt.Sprintf("%d", n))
}

// consumed: the error value is returned (by f, or by the top function through a cell), tested, or logged.
func (c *Check) consumed(top, f *ssa.Function, ev ssa.Value, depth int) bool {
	p := c.p
	if depth > 3 || ev.Referrers() == nil {
		return false
	}
	for _, r := range *ev.Referrers() {
		switch u := r.(type) {
		case *ssa.Return:
			return true
		case *ssa.BinOp, *ssa.If:
			return true
		case *ssa.Phi:
			if c.consumed(top, f, u, depth+1) {
				return true
			}
		case *ssa.MakeInterface:
			if c.consumed(top, f, u, depth+1) {
				return true
			}
		case *ssa.ChangeInterface:
			if c.consumed(top, f, u, depth+1) {
				return true
			}
		case *ssa.Store:
			// a variable: any load that is consumed
			addr := p.tb().resolveAddr(u.Addr)
			if al, ok := addr.(*ssa.Alloc); ok {
				for _, g := range Closures(top) {
					for _, b := range g.Blocks {
						for _, in := range b.Instrs {
							if ld, ok := in.(*ssa.UnOp); ok && ld.Op.String() == "*" && p.tb().resolveAddr(ld.X) == ssa.Value(al) {
								if c.consumed(top, g, ld, depth+1) {
									return true
								}
							}
						}
					}
				}
			} else {
				return true // stored into a structure: handed on
			}
		case ssa.CallInstruction:
			names := p.CalleeNames(u)
			if matchName(names, "errors.Is", "errors.As", "fmt.Errorf", "errors.Join") {
				return true
			}
			for _, nm := range names {
				if strings.Contains(nm, "zerolog") || strings.HasPrefix(nm, "util.") || strings.Contains(nm, "IsError") || nm == "os.IsNotExist" || nm == "os.IsExist" {
					return true
				}
			}
			// sent on / appended to something
			if b, ok := u.Common().Value.(*ssa.Builtin); ok && b.Name() == "append" {
				return true
			}
		case *ssa.Send, *ssa.MapUpdate:
			return true
		case *ssa.IndexAddr:
			return true
		}
	}
	return false
}

// STMTFAIL: in the statement layer, once a statement (or the helper that runs it) failed with anything the function does
// not explicitly recognise (errors.Is / errors.As / an IsError* classifier), the function does not answer success.
func checkStmtFailures(c *Check) {
	p := c.p
	n := 0
	for _, F := range p.ModFuncs {
		if F.Parent() != nil || !inFile(p, F, "internal/mysql/node.go") {
			continue
		}
		res := F.Signature.Results()
		if res.Len() == 0 || !isErrorType(res.At(res.Len()-1).Type()) {
			continue
		}
		errIdx := res.Len() - 1
		fa := p.FA(F)
		name := p.Name(F)
		isSuccessRet := func(in ssa.Instruction) bool {
			r, ok := in.(*ssa.Return)
			if !ok || errIdx >= len(r.Results) {
				return false
			}
			k, _ := c.valKind(fa, r, r.Results[errIdx])
			return k == "const:nil" || k == "nil"
		}
		recognised := func(l Lit) bool {
			if !l.Pos || l.T.Op != "call" {
				return false
			}
			return p.IsCall(l.T, "errors.Is", "errors.As") || strings.Contains(l.T.Name, "IsError") || strings.HasPrefix(l.T.Name, "os.Is")
		}
		for _, b := range F.Blocks {
			for si := range b.Succs {
				for _, l := range fa.EdgeLits(b, si) {
					if l.Pos || l.T.Op != "isnil" || l.T.Args[0].V == nil || !isErrorType(l.T.Args[0].V.Type()) {
						continue
					}
					r := ResultOf(l.T.Args[0], -1)
					if r == nil || r.In == nil {
						continue
					}
					ci, ok := r.In.(ssa.CallInstruction)
					if !ok {
						continue
					}
					callee := p.CalleeNames(ci)[0]
					n++
					path, _ := fa.ReachFromEdge(b, si, isSuccessRet, ReachOpts{Cut: []LitPat{recognised}})
					if path != nil {
						if why, ok := stmtFailExceptions[name+":"+afterDot(callee)]; ok {
							c.Hold(name, p.InstrPos(blockIf(b)), nthKey("stmtfail:exception", n), "listed exception: "+why)
							continue
						}
					}
					c.Req(path == nil, name, p.InstrPos(blockIf(b)), nthKey("stmtfail:"+afterDot(callee), n), "a failed statement is not answered with success unless the failure is one the function explicitly recognises (errors.Is / errors.As / IsError*): an unknown lag, status or flag is an error, not a default", "path to a nil return: "+fa.PathString(path))
				}
			}
		}
	}
	c.Req(n >= 40, "internal/mysql/node.go", "-", "stmtfail:edges", "failure edges examined", fmt.Sprintf("%d", n))
}

var stmtFailExceptions = map[string]string{
	"(*mysql.Node).ReenableEventsRetry:ReenableEvents":  "retry loop: a failed attempt is followed by the next one (event re-enabling after promotion; no property gate reads it)",
	"(*mysql.Node).UpdateExternalCAFile:queryRowMogrify": "no external replication settings row = nothing to do (external CA file maintenance, outside the properties)",
}

func checkAdapterFailures(c *Check) {
	p := c.p
	n := 0
	for _, F := range p.ModFuncs {
		if F.Parent() != nil || !(inFile(p, F, "internal/app/dcs/") || inFile(p, F, "internal/app/optimization/")) || strings.HasSuffix(p.Fset.Position(F.Pos()).Filename, "_test.go") {
			continue
		}
		res := F.Signature.Results()
		if res.Len() == 0 || !isErrorType(res.At(res.Len()-1).Type()) {
			continue
		}
		errIdx := res.Len() - 1
		fa := p.FA(F)
		name := p.Name(F)
		isSuccessRet := func(in ssa.Instruction) bool {
			r, ok := in.(*ssa.Return)
			if !ok || errIdx >= len(r.Results) {
				return false
			}
			k, _ := c.valKind(fa, r, r.Results[errIdx])
			return k == "const:nil" || k == "nil"
		}
		tolerated := func(l Lit) bool {
			return l.Pos && p.IsCall(l.T, "errors.Is") && len(l.T.Args) == 2 && l.T.Args[1].Op == "global"
		}
		for _, b := range F.Blocks {
			for si := range b.Succs {
				for _, l := range fa.EdgeLits(b, si) {
					if l.Pos || l.T.Op != "isnil" {
						continue
					}
					if l.T.Args[0].V == nil || !isErrorType(l.T.Args[0].V.Type()) {
						continue
					}
					r := ResultOf(l.T.Args[0], -1)
					if r == nil || r.In == nil {
						continue
					}
					ci, ok := r.In.(ssa.CallInstruction)
					if !ok {
						continue
					}
					_, isDcs := isDCSInvoke(ci)
					if !isDcs && !ci.Common().IsInvoke() {
						continue // registry calls and calls on a node / registry interface
					}
					n++
					path, _ := fa.ReachFromEdge(b, si, isSuccessRet, ReachOpts{Cut: []LitPat{tolerated}})
					if path != nil {
						if why, ok := failretExceptions[name+":"+afterDot(p.CalleeNames(ci)[0])]; ok {
							c.Hold(name, p.InstrPos(blockIf(b)), nthKey("failret:exception", n), "listed exception: "+why)
							continue
						}
					}
					c.Req(path == nil, name, p.InstrPos(blockIf(b)), nthKey("failret:"+afterDot(p.CalleeNames(ci)[0]), n), "once a coordination call of the adapter failed with anything but a tolerated sentinel, no success return is reachable (the registry and what callers believe about it stay in step)", "path to a nil return: "+fa.PathString(path))
				}
			}
		}
	}
	c.Req(n >= 4, "internal/app/dcs", "-", "failret:edges", "failure edges of adapter calls examined", fmt.Sprintf("%d", n))
}

func init() {
	sharedRules = append(sharedRules,
		sharedRule{Suffix: "RETRY", Props: []string{"C03", "C15"}, Body: checkRetryHelpers,
			Doc: "(RETRY) the retry helpers of the coordination client assign their error result exactly once, from the connection call"},
		sharedRule{Suffix: "STMTERR", Props: []string{"C06", "C08", "C10", "C14", "C20"}, Body: func(c *Check) {
			checkDroppedErrors(c, func(fn *ssa.Function) bool { return inFile(c.p, fn, "internal/mysql/node.go") }, 80, droppedExceptions)
			checkStmtFailures(c)
		}, Doc: "(STMTERR) in the statement layer the error of every fallible call is returned, tested or logged — never dropped or only traced (a statement that failed is reported as failed)"},
		sharedRule{Suffix: "CLIENTERR", Props: []string{"C15"}, Body: func(c *Check) {
			checkDroppedErrors(c, func(fn *ssa.Function) bool { return inFile(c.p, fn, "internal/dcs/zk.go") }, 30, droppedExceptions)
		}, Doc: "(CLIENTERR) the same for the coordination client"},
		sharedRule{Suffix: "ADAPTERERR", Props: []string{"C19"}, Body: func(c *Check) {
			checkDroppedErrors(c, func(fn *ssa.Function) bool { return inFile(c.p, fn, "internal/app/dcs/") }, 8, droppedExceptions)
			checkAdapterFailures(c)
		}, Doc: "(ADAPTERERR) the optimisation adapters drop no error and never turn a failed registry call into success"},
	)
}

// explicit discards confirmed by reading (key: function:callee)
var droppedExceptions = map[string]string{
	"(*mysql.Node).SetReadOnlyWithForce$1:exec": "`_ = n.exec(queryKillQuery…)`: killing a session that is already gone fails by design; the loop retries every second",
}

var failretExceptions = map[string]string{
	"(*app/optimization.Controller).DisableAll:GetReplicationSettings": "a master that cannot be asked falls back to the safe settings (mysql.SafeReplicationSettings): restoring goes on",
	"(*app/optimization.Controller).Disable:GetReplicationSettings":    "same fallback",
}
