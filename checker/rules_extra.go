package main

// Rules added after the independently seeded changes (DESIGN.md section 11): each closes a
// blind spot that a confirmed seeded defect went through. They are ordinary rules of their
// property (same engines, same obligation format).

import (
	"fmt"
	"go/types"
	"strings"

	"golang.org/x/tools/go/ssa"
)

func isReturn(in ssa.Instruction) bool { _, ok := in.(*ssa.Return); return ok }

func isParam(t *Term, idx string) bool { return t != nil && t.Op == "param" && t.Name == idx }

// ---------------------------------------------------------------------------------------
// C02: the two fencing orders that only the single-fault statement needs
// ---------------------------------------------------------------------------------------

func extraC02(c *Check) {
	p := c.p
	c.Rule("C02.RELEASE", func() {
		R := p.MustFunc(fnStopOnMas)
		fa := p.FA(R)
		name := p.Name(R)
		offs := p.Calls(R, "(*mysql.Node).SetOffline")
		dis := p.Calls(R, "(*mysql.Node).SemiSyncDisable")
		if !c.Req(len(offs) == 1 && len(dis) == 1, name, p.Pos(R.Pos()), "release:sites", "one offline statement and one semi-sync disable", fmt.Sprintf("%d/%d", len(offs), len(dis))) {
			return
		}
		for _, ci := range []ssa.CallInstruction{offs[0], dis[0]} {
			c.Req(isParam(p.T(ci.Common().Args[0]), "1"), name, p.InstrPos(ci), "release:node:"+ci.Common().StaticCallee().Name(), "the statement goes to the node handed in", "")
		}
		c.Gate(fa, dis[0], "release:offline-before-disable", "semi-sync is switched off (which wakes commits blocked on an acknowledgement) only after the clients were cut off by offline mode, so a blocked commit is never acknowledged by a fenced master", p.NilErr("(*mysql.Node).SetOffline"))
		for i, rs := range c.SuccessSites(R, 0, "nil") {
			c.Gate(fa, rs.At, nthKey("release:nil-after-both", i+1), "success is reported only after both statements succeeded", p.NilErr("(*mysql.Node).SemiSyncDisable"))
		}
	})
	c.Rule("C02.NOLOSS", func() {
		// the one step of the single-fault statement's "every acknowledged transaction is present on that master" that is
		// a gate of this procedure: nothing is promoted before the catch-up wait on it answered true without error —
		// also when the promoted host already is the most recent one (it may hold the acknowledged tail only in its relay log)
		P, target := promotionTarget(c)
		fa := p.FA(P)
		c.Gate(fa, target, "promotion:caught-up", "promotion is gated by the catch-up wait answering true, whichever host was chosen", func(l Lit) bool {
			r := ResultOf(l.T, 0)
			return l.Pos && r != nil && p.IsCall(r, fnWait)
		})
		c.Gate(fa, target, "promotion:catchup-noerr", "… and returning no error", p.NilErr(fnWait))
	})
	c.Rule("C02.FENCE-OLD", func() {
		P, target := promotionTarget(c)
		fa := p.FA(P)
		ro := freezeCalls(c, P, "set_readonly(_no_super)?")
		if len(ro) == 0 {
			panic(AnchorError{"read-only freeze phase"})
		}
		errs := ro[0].(ssa.Value)
		// the per-host result of the read-only freeze looked up for the old master (parameter 4)
		isLk := func(t *Term) bool {
			return t != nil && t.Op == "lookup" && len(t.Args) == 2 && t.Args[0].V == errs && isParam(t.Args[1], "4")
		}
		notPresent := func(l Lit) bool {
			return !l.Pos && l.T.Op == "extract" && l.T.Name == "1" && isLk(l.T.Args[0])
		}
		errNil := func(l Lit) bool {
			if !l.Pos || l.T.Op != "isnil" {
				return false
			}
			a := l.T.Args[0]
			return isLk(a) || (a.Op == "extract" && a.Name == "0" && isLk(a.Args[0]))
		}
		failover := func(l Lit) bool {
			return l.Pos && l.T.Op == "eq" && l.T.Args[0].IsField("MasterTransition") && isParam(l.T.Args[0].Args[0], "3") && l.T.Args[1].IsConst("failover")
		}
		c.Gate(fa, target, "promotion:old-master-fenced-unless-failover",
			"nothing is promoted while an alive old master could not be made read-only, unless the request is a failover: every path to the promotion saw 'old master not in the frozen list', 'its read-only result is nil' or 'transition == failover' (an unset transition, as written by the worker, counts as a planned switch)",
			notPresent, errNil, failover)
		// and the rejecting branch ends in the terminal bookkeeping with an error (C06.NODOUBLE covers the error)
		n := 0
		for _, b := range P.Blocks {
			for si := range b.Succs {
				for _, l := range fa.EdgeLits(b, si) {
					if !l.Pos && l.T.Op == "eq" && l.T.Args[0].IsField("MasterTransition") && l.T.Args[1].IsConst("failover") {
						// only the test that sits below "the old master's read-only result is an error"
						errSeen := func(l Lit) bool {
							if l.Pos || l.T.Op != "isnil" {
								return false
							}
							a := l.T.Args[0]
							return isLk(a) || (a.Op == "extract" && a.Name == "0" && isLk(a.Args[0]))
						}
						if g, _ := fa.Gated(blockIf(b), errSeen); !g {
							continue
						}
						n++
						path, _ := fa.ReachFromEdge(b, si, isReturn, ReachOpts{Barrier: isCallTo(p, "(*app.App).FinishSwitchover")})
						c.Req(path == nil, p.Name(P), p.InstrPos(blockIf(b)), nthKey("reject:reaches-bookkeeping", n), "the rejection is recorded before the procedure returns", "path: "+fa.PathString(path))
					}
				}
			}
		}
		c.Req(n >= 1, p.Name(P), "-", "reject:branch", "the rejecting branch exists", fmt.Sprintf("%d", n))
	})
}

// ---------------------------------------------------------------------------------------
// C04: the master adjustment establishes BOTH halves of clause (b)
// ---------------------------------------------------------------------------------------

func extraC04(c *Check) {
	p := c.p
	c.Rule("C04.ADJUST", func() {
		A := p.MustFunc("(*app.App).adjustSemiSyncOnMaster")
		fa := p.FA(A)
		name := p.Name(A)
		const (
			fnSetCnt = "(*mysql.Node).SetSemiSyncWaitSlaveCount"
			fnEnable = "(*mysql.Node).SemiSyncSetMaster"
			fnDis    = "(*mysql.Node).SemiSyncDisable"
		)
		cntParam := func(t *Term) bool { return isParam(t, "3") }
		zero := func(pos bool) LitPat {
			return func(l Lit) bool {
				return l.Pos == pos && l.T.Op == "eq" && ((cntParam(l.T.Args[0]) && l.T.Args[1].IsConst("0")) || (cntParam(l.T.Args[1]) && l.T.Args[0].IsConst("0")))
			}
		}
		cntEqual := func(l Lit) bool {
			if !l.Pos || l.T.Op != "eq" {
				return false
			}
			a, b := l.T.Args[0], l.T.Args[1]
			return (a.IsField("WaitSlaveCount") && cntParam(b)) || (b.IsField("WaitSlaveCount") && cntParam(a))
		}
		enabled := func(pos bool) LitPat { return FieldLit(pos, "MasterEnabled") }
		sites := c.SuccessSites(A, 0, "nil")
		c.Req(len(sites) >= 1, name, p.Pos(A.Pos()), "adjust:success-sites", "the adjustment has a success return", "")
		for i, rs := range sites {
			c.Gate(fa, rs.At, nthKey("adjust:count-established", i+1), "for a non-zero count, success means the master's wait count equals the requested one: it already did, or setting it succeeded",
				zero(true), cntEqual, p.NilErr(fnSetCnt))
			c.Gate(fa, rs.At, nthKey("adjust:enabled-established", i+1), "for a non-zero count, success means semi-sync is on at the master: it already was, or enabling it succeeded",
				zero(true), enabled(true), p.NilErr(fnEnable))
			c.Gate(fa, rs.At, nthKey("adjust:zero-disables", i+1), "for a zero count, success means semi-sync is off at the master: it already was, or disabling it succeeded",
				zero(false), enabled(false), p.NilErr(fnDis))
		}
		for _, ci := range p.Calls(A, fnSetCnt) {
			c.Req(cntParam(p.T(ci.Common().Args[1])), name, p.InstrPos(ci), "adjust:count-arg", "the count written is the requested one", "")
		}
		for _, ci := range p.Calls(A, fnSetCnt, fnEnable, fnDis) {
			c.Req(isParam(p.T(ci.Common().Args[0]), "1"), name, p.InstrPos(ci), "adjust:node:"+ci.Common().StaticCallee().Name()+"@"+strings.TrimPrefix(p.InstrPos(ci), "internal/app/app.go:"), "the statement goes to the node handed in", "")
		}
	})
}

// ---------------------------------------------------------------------------------------
// C08: the stuck-commit test can see what the forced read-only returned
// ---------------------------------------------------------------------------------------

func extraC08(c *Check) {
	p := c.p
	c.Rule("C08.ERRID", func() {
		L := p.MustFunc(fnLost)
		in := map[*ssa.Function]bool{}
		for _, f := range Closures(L) {
			in[f] = true
		}
		c.ErrIdentityRule(func(s errTestSite) bool { return in[s.Fn] }, 2)
		// … and the statement executor is ON that chain: the deadline / lock-wait error it produces is what is tested
		for _, s := range p.errTestSites() {
			if !in[s.Fn] {
				continue
			}
			ch := newErrChain(c)
			ch.val(s.Call.Call.Args[0], 8)
			has := false
			for f := range ch.Funcs {
				if p.Name(f) == "(*mysql.Node).execWithTimeout" {
					has = true
				}
			}
			c.Req(has, p.Name(s.Fn), p.InstrPos(s.Call), "errors."+s.Kind+":"+s.Target+":from-executor", "the tested error can be the one the statement executor returned for the read-only statement (not a later, generic 'has not switched' error)", "the executor is not on the return chain")
		}
	})
}

// ---------------------------------------------------------------------------------------
// C10: the registry forgets every host that left the coordination service's lists
// ---------------------------------------------------------------------------------------

func extraC10(c *Check) {
	p := c.p
	c.Rule("C10.SYNC", func() {
		for _, spec := range []struct{ fn, field string }{
			{"(*mysql.Cluster).updateHAHostsInfo", "haNodes"},
			{"(*mysql.Cluster).updateCascadeHostsInfo", "cascadeNodes"},
		} {
			F := p.MustFunc(spec.fn)
			fa := p.FA(F)
			name := p.Name(F)
			isDelete := func(in ssa.Instruction) bool {
				call, ok := in.(*ssa.Call)
				if !ok {
					return false
				}
				b, ok := call.Call.Value.(*ssa.Builtin)
				return ok && b.Name() == "delete" && p.T(call.Call.Args[0]).IsField(spec.field)
			}
			ndel := 0
			for _, b := range F.Blocks {
				for _, in := range b.Instrs {
					if isDelete(in) {
						ndel++
						call := in.(*ssa.Call)
						k := p.T(call.Call.Args[1])
						c.Req(k.Op == "rangekey" && k.Args[0].IsField(spec.field), name, p.InstrPos(in), "delete:key", "the entry deleted is the one being examined", "key is "+k.String())
					}
				}
			}
			c.Req(ndel >= 1, name, p.Pos(F.Pos()), "delete:site", "the refresh removes entries from "+spec.field, "")
			// the edge "registered host is not in the fresh list": every way on to the next entry or to a nil return deletes it
			n := 0
			for _, b := range F.Blocks {
				for si := range b.Succs {
					for _, l := range fa.EdgeLits(b, si) {
						if l.Pos || l.T.Op != "extract" || l.T.Name != "1" || l.T.Args[0].Op != "lookup" {
							continue
						}
						key := l.T.Args[0].Args[1]
						if key.Op != "rangekey" || !key.Args[0].IsField(spec.field) {
							continue
						}
						n++
						mapT := l.T.Args[0].Args[0]
						c.Req(!mapT.IsField(spec.field) && !mapT.Contains(func(x *Term) bool { return x.IsField(spec.field) }), name, p.InstrPos(blockIf(b)), nthKey("gone:tested-against-fresh-list", n), "'no longer listed' is decided against the list just read from the coordination service, not against the registry itself (which contains every registered host by construction)", "membership is tested in "+mapT.String())
						// next iteration = the block holding the Next instruction of the same range
						stop := func(in ssa.Instruction) bool {
							if nx, ok := in.(*ssa.Next); ok {
								return p.T(nx.Iter).Op == "range" && p.T(nx.Iter).Args[0].IsField(spec.field)
							}
							if r, ok := in.(*ssa.Return); ok {
								k, _ := c.valKind(fa, r, r.Results[0])
								return k == "const:nil" || k == "nil"
							}
							return false
						}
						path, _ := fa.ReachFromEdge(b, si, stop, ReachOpts{Barrier: isDelete})
						c.Req(path == nil, name, p.InstrPos(blockIf(b)), nthKey("gone:must-delete", n), "a registered host that is no longer listed in the coordination service is removed from the registry before the refresh moves on (whichever host it is, the local one included); only an error return may leave it", "path without delete: "+fa.PathString(path))
					}
				}
			}
			c.Req(n == 1, name, p.Pos(F.Pos()), "gone:test", "one 'no longer listed' test over the registry", fmt.Sprintf("%d", n))
		}
	})
}

// ---------------------------------------------------------------------------------------
// C13 / C14: scans that must look at every element
// ---------------------------------------------------------------------------------------

// scanCoverage: every non-constant element access of parameter #idx in fn is indexed by a variable
// that ranges over the whole of that same slice (start 0, or 1 when element 0 seeds the maximum).
func scanCoverage(c *Check, fn *ssa.Function, idx string, desc string) {
	p := c.p
	name := p.Name(fn)
	n := 0
	seed0 := false
	type acc struct {
		in  ssa.Instruction
		idx ssa.Value
		x   ssa.Value
	}
	var accs []acc
	for _, b := range fn.Blocks {
		for _, in := range b.Instrs {
			switch x := in.(type) {
			case *ssa.IndexAddr:
				if isParam(p.T(x.X), idx) {
					accs = append(accs, acc{in, x.Index, x.X})
				}
			case *ssa.Index:
				if isParam(p.T(x.X), idx) {
					accs = append(accs, acc{in, x.Index, x.X})
				}
			}
		}
	}
	for _, a := range accs {
		if k, ok := a.idx.(*ssa.Const); ok {
			if k.Value != nil && k.Value.ExactString() == "0" {
				seed0 = true
			}
			continue
		}
	}
	seenIdx := map[ssa.Value]bool{}
	for _, a := range accs {
		if _, ok := a.idx.(*ssa.Const); ok || seenIdx[a.idx] {
			continue
		}
		seenIdx[a.idx] = true
		n++
		construct := nthKey("scan:index", n)
		ph, ok := a.idx.(*ssa.Phi)
		if !ok {
			// `for i := range s` lowers to i = phi(-1, i+1) + 1: the index is the incremented value
			if bo, ok2 := a.idx.(*ssa.BinOp); ok2 && bo.Op.String() == "+" {
				if ph2, ok3 := bo.X.(*ssa.Phi); ok3 && p.T(bo.Y).IsConst("1") {
					okr, why := inductionOver(p, ph2, bo, a.x, -1)
					c.Req(okr, name, p.InstrPos(a.in), construct, desc, why)
					continue
				}
			}
			c.Undecided(name, p.InstrPos(a.in), construct, desc, "index is "+p.T(a.idx).String())
			continue
		}
		start := int64(0)
		if seed0 {
			start = 1
		}
		okr, why := inductionOver(p, ph, ph, a.x, start)
		c.Req(okr, name, p.InstrPos(a.in), construct, desc, why)
	}
	// a sub-slice of the input may only drop the element that seeds the maximum
	for _, b := range fn.Blocks {
		for _, in := range b.Instrs {
			sl, ok := in.(*ssa.Slice)
			if !ok || !isParam(p.T(sl.X), idx) {
				continue
			}
			low := "0"
			if sl.Low != nil {
				low = p.T(sl.Low).Name
			}
			okLow := low == "0" || (low == "1" && seed0)
			c.Req(okLow && sl.High == nil, name, p.InstrPos(in), "scan:subslice", desc, "the scan works on the sub-slice "+p.T(sl).String())
		}
	}
	c.Req(n >= 1 || len(accs) > 0, name, p.Pos(fn.Pos()), "scan:sites", "the scan reads elements of its input", "")
}

// inductionOver: ph is an induction variable (init `start` or lower, step +1) whose loop is left
// exactly when the tested value (ph itself, or ph+1 for a range loop) reaches len(x).
func inductionOver(p *Prog, ph *ssa.Phi, tested ssa.Value, x ssa.Value, start int64) (bool, string) {
	initOK, stepOK := false, false
	for _, e := range ph.Edges {
		switch v := e.(type) {
		case *ssa.Const:
			if v.Value != nil {
				s := v.Value.ExactString()
				if s == fmt.Sprint(start) || (start == 1 && s == "0") {
					initOK = true
				} else {
					return false, "the scan starts at index " + s
				}
			}
		case *ssa.BinOp:
			if v.Op.String() == "+" && v.X == ssa.Value(ph) && p.T(v.Y).IsConst("1") {
				stepOK = true
			} else {
				return false, "the index is advanced by " + p.T(v).String()
			}
		default:
			return false, "the index has a non-inductive definition " + p.T(e).String()
		}
	}
	if !initOK || !stepOK {
		return false, "not an induction variable from the first element in steps of one"
	}
	// the loop condition: tested < len(x) with the same x
	for _, r := range *tested.Referrers() {
		bo, ok := r.(*ssa.BinOp)
		if !ok || bo.Op.String() != "<" || bo.X != tested {
			continue
		}
		ln := p.T(bo.Y)
		if ln.Op == "len" && len(ln.Args) == 1 && ln.Args[0].V == x {
			return true, ""
		}
		return false, "the index is bounded by " + ln.String() + ", which is not the length of the slice that is indexed"
	}
	return false, "no bound `index < len(slice)` found for the index"
}

func extraC13(c *Check) {
	p := c.p
	extraC13Cursor(c)
	c.Rule("C13.SCAN", func() {
		scanCoverage(c, p.MustFunc("app.findMostRecentNodeAndDetectSplitbrain"), "0", "the search for the maximal position examines every offered position: its index runs from the first unexamined element to len(positions) of the very slice it indexes")
	})
}

func extraC14(c *Check) {
	p := c.p
	c.Rule("C14.SCAN", func() {
		scanCoverage(c, p.MustFunc("app.getMostPriorityNode"), "0", "the highest-priority search examines every offered position")
	})
	c.Rule("C14.BOUNDSRC", func() {
		const chooser = "app.getMostDesirableNode"
		const getter = "(mysql.ISwitchHelper).GetPriorityChoiceMaxLag"
		want := map[string]string{
			"(*app.App).performSwitchover":                 getter,
			"(*app.App).CliSwitch":                         getter,
			"(*app.App).getMostDesirableReplicaToOptimize": "HighReplicationMark",
		}
		n := 0
		for _, fn := range p.ModFuncs {
			if strings.HasSuffix(p.Fset.Position(fn.Pos()).Filename, "_test.go") {
				continue
			}
			for _, ci := range p.Calls(fn, chooser) {
				if fn == p.Func(chooser) {
					continue // the recursive call passes its own bound on (C14.BOUND)
				}
				n++
				name := p.Name(top(fn))
				src, ok := want[name]
				b := p.T(ci.Common().Args[2])
				if !ok {
					c.Fail(p.Name(fn), p.InstrPos(ci), "bound:unknown-caller", "every caller of the chooser is in the table of (caller, configured bound)", "new caller "+name)
					continue
				}
				okb := b.IsField(src) || (src == getter && p.IsCall(b, getter) && b.Args[0].IsField("switchHelper"))
				c.Req(okb, p.Name(fn), p.InstrPos(ci), "bound:"+afterDot(src), "the bound handed to the chooser is the configured one for this choice (promotion: the switch helper's priority-choice max lag; optimisation: the high replication mark)", "bound is "+b.String())
			}
		}
		// the getter hands out the helper's field, which the constructor fills from priority_choice_max_lag
		// (raised to async_allowed_lag in async mode)
		G := p.MustFunc("(*mysql.SwitchHelper).GetPriorityChoiceMaxLag")
		for i, r := range Returns(G) {
			c.Req(p.T(r.Results[0]).IsField("priorityChoiceMaxLag"), p.Name(G), p.InstrPos(r), nthKey("bound:getter", i+1), "the getter returns the helper's priorityChoiceMaxLag", "returns "+p.T(r.Results[0]).String())
		}
		N := p.MustFunc("mysql.NewSwitchHelper")
		nst := 0
		for _, b := range N.Blocks {
			for _, in := range b.Instrs {
				st, ok := in.(*ssa.Store)
				if !ok {
					continue
				}
				f, ok := st.Addr.(*ssa.FieldAddr)
				if !ok || afterDot(fieldName(f.X.Type(), f.Field)) != "priorityChoiceMaxLag" {
					continue
				}
				nst++
				okv := derivesOnly(p.T(st.Val), func(a *Term) bool { return a.IsField("PriorityChoiceMaxLag") || a.IsField("AsyncAllowedLag") })
				c.Req(okv, p.Name(N), p.InstrPos(in), "bound:configured", "the helper's bound is priority_choice_max_lag, or async_allowed_lag where the constructor raises it", "stored "+p.T(st.Val).String())
			}
		}
		c.Req(nst == 1, p.Name(N), "-", "bound:store", "one assignment of the helper's bound", fmt.Sprintf("%d", nst))
		c.Req(n == 3, "-", "-", "bound:callers", "three outside callers of the chooser", fmt.Sprintf("%d", n))
	})
}

// ---------------------------------------------------------------------------------------
// C15: parents are created top-down; sentinels reach their tests intact
// ---------------------------------------------------------------------------------------

func extraC15(c *Check) {
	p := c.p
	c.Rule("C15.SESSION", func() { checkSessionCache(c) })
	c.Rule("C15.ORDER", func() {
		M := p.MustFunc("(*dcs.zkDCS).makePath")
		name := p.Name(M)
		// order polarity of a slice value at an instruction: +1 ancestors first, -1 deepest first, 0 unknown
		isReverse := func(in ssa.Instruction) (ssa.Value, bool) {
			call, ok := in.(*ssa.Call)
			if !ok {
				return nil, false
			}
			for _, n := range p.CalleeNames(call) {
				if strings.HasPrefix(n, "slices.Reverse") {
					return call.Call.Args[0], true
				}
			}
			return nil, false
		}
		var polarity func(v ssa.Value, at ssa.Instruction, d int) int
		base := func(v ssa.Value, d int) int {
			// what is appended decides the construction order
			t := p.T(v)
			pol := 0
			for _, a := range t.Alts() {
				if a.IsConst("nil") {
					continue
				}
				if a.Op != "append" {
					return 0
				}
				ap := a.V.(*ssa.Call)
				el := c.eff.variadic(ap.Call.Args[1])
				if len(el) != 1 {
					return 0
				}
				et := p.T(el[0])
				this := 0
				switch {
				case et.Contains(func(x *Term) bool { return p.IsCall(x, "dcs.JoinPath") }):
					// prefix = JoinPath(prefix, part): each appended path extends the previous one
					this = 1
				case et.Op == "rangeval":
					if rv, ok := el[0].(*ssa.Extract); ok {
						if nx, ok := rv.Tuple.(*ssa.Next); ok {
							if rg, ok := nx.Iter.(*ssa.Range); ok {
								this = polarity(rg.X, rg, d+1)
							}
						}
					}
					if this == 0 {
						this = rangePolarity(p, el[0], polarity, d)
					}
				default:
					this = rangePolarity(p, el[0], polarity, d)
				}
				if this == 0 || (pol != 0 && pol != this) {
					return 0
				}
				pol = this
			}
			return pol
		}
		polarity = func(v ssa.Value, at ssa.Instruction, d int) int {
			if d > 4 {
				return 0
			}
			pol := base(v, d)
			if pol == 0 {
				return 0
			}
			for _, b := range M.Blocks {
				for _, in := range b.Instrs {
					if x, ok := isReverse(in); ok && x == v {
						if in.Block().Dominates(at.Block()) && in.Block() != at.Block() || (in.Block() == at.Block() && before(in, at)) {
							pol = -pol
						} else if reaches(in.Block(), at.Block()) {
							return 0 // reversed on some paths only
						}
					}
				}
			}
			return pol
		}
		creates := p.Calls(M, "(*dcs.zkDCS).retryCreate")
		if !c.Req(len(creates) == 1, name, p.Pos(M.Pos()), "order:create-site", "one create site for missing ancestors", fmt.Sprintf("%d", len(creates))) {
			return
		}
		cr := creates[0]
		arg := cr.Common().Args[1]
		coll, at := rangedCollection(arg)
		if coll == nil {
			c.Undecided(name, p.InstrPos(cr), "order:ancestors-first", "missing ancestors are created from the top down", "the created path is "+p.T(arg).String())
			return
		}
		pol := polarity(coll, at, 0)
		c.Req(pol == 1, name, p.InstrPos(cr), "order:ancestors-first", "missing ancestors are created from the top down (a child cannot be created under a missing parent): the list walked by the create loop is in ancestors-first order when the loop starts",
			fmt.Sprintf("order polarity of the walked list is %d (+1 ancestors first, -1 deepest first, 0 mixed/unknown)", pol))
		// the probing loop walks deepest-first and stops at the first existing node
		gets := p.Calls(M, "(*dcs.zkDCS).retryGet")
		if c.Req(len(gets) == 1, name, p.Pos(M.Pos()), "order:probe-site", "one probe site", "") {
			coll2, at2 := rangedCollection(gets[0].Common().Args[1])
			pol2 := 0
			if coll2 != nil {
				pol2 = polarity(coll2, at2, 0)
			}
			c.Req(pol2 == -1, name, p.InstrPos(gets[0]), "order:probe-deepest-first", "existing ancestors are probed from the deepest up, so the walk may stop at the first one that exists", fmt.Sprintf("polarity %d", pol2))
		}
	})
	c.Rule("C15.IDENTITY", func() {
		c.ErrIdentityRule(func(s errTestSite) bool {
			return strings.HasPrefix(s.Target, "dcs.Err") || strings.Contains(s.Target, "zk.Err")
		}, 40)
	})
}

// rangedCollection: v is the element of a forward range loop; returns the collection and the loop's
// first instruction (where the order matters).
func rangedCollection(v ssa.Value) (ssa.Value, ssa.Instruction) {
	// slices are ranged by index: elem = *(&coll[i]) with i = phi(-1, i+1)+1
	ld, ok := v.(*ssa.UnOp)
	if !ok {
		return nil, nil
	}
	ia, ok := ld.X.(*ssa.IndexAddr)
	if !ok {
		return nil, nil
	}
	bo, ok := ia.Index.(*ssa.BinOp)
	if !ok || bo.Op.String() != "+" {
		return nil, nil
	}
	ph, ok := bo.X.(*ssa.Phi)
	if !ok {
		return nil, nil
	}
	okInit := false
	for _, e := range ph.Edges {
		if k, ok := e.(*ssa.Const); ok && k.Value != nil && k.Value.ExactString() == "-1" {
			okInit = true
		} else if e != ssa.Value(bo) {
			return nil, nil
		}
	}
	if !okInit {
		return nil, nil
	}
	return ia.X, ph
}

func rangePolarity(p *Prog, el ssa.Value, polarity func(ssa.Value, ssa.Instruction, int) int, d int) int {
	coll, at := rangedCollection(el)
	if coll == nil {
		return 0
	}
	return polarity(coll, at, d+1)
}

func before(a, b ssa.Instruction) bool {
	for _, in := range a.Block().Instrs {
		if in == a {
			return true
		}
		if in == b {
			return false
		}
	}
	return false
}

func reaches(from, to *ssa.BasicBlock) bool {
	seen := map[*ssa.BasicBlock]bool{}
	var rec func(b *ssa.BasicBlock) bool
	rec = func(b *ssa.BasicBlock) bool {
		if b == to {
			return true
		}
		if seen[b] {
			return false
		}
		seen[b] = true
		for _, s := range b.Succs {
			if rec(s) {
				return true
			}
		}
		return false
	}
	return rec(from)
}

// ---------------------------------------------------------------------------------------
// C16: the cascade flag is set on every state, however the collection ended
// ---------------------------------------------------------------------------------------

func extraC16(c *Check) {
	p := c.p
	c.Rule("C16.FLAG", func() {
		G := p.MustFunc("(*app.App).getNodeState")
		fa := p.FA(G)
		name := p.Name(G)
		isFlagStore := func(in ssa.Instruction) bool {
			st, ok := in.(*ssa.Store)
			if !ok {
				return false
			}
			f, ok := st.Addr.(*ssa.FieldAddr)
			if !ok || afterDot(fieldName(f.X.Type(), f.Field)) != "IsCascade" {
				return false
			}
			v := p.T(st.Val)
			return p.IsCall(v, "(*mysql.Cluster).IsCascadeHost") && len(v.Args) == 2 && isParam(v.Args[1], "1")
		}
		n := 0
		for _, f := range Closures(G) {
			for _, b := range f.Blocks {
				for _, in := range b.Instrs {
					if st, ok := in.(*ssa.Store); ok {
						if fa2, ok := st.Addr.(*ssa.FieldAddr); ok && afterDot(fieldName(fa2.X.Type(), fa2.Field)) == "IsCascade" {
							n++
							c.Req(isFlagStore(in), p.Name(f), p.InstrPos(in), nthKey("flag:value", n), "the cascade flag is the registry's answer for this host", "stored value "+p.T(st.Val).String())
						}
					}
				}
			}
		}
		c.Req(n >= 1, name, p.Pos(G.Pos()), "flag:store", "the state's cascade flag is assigned", "")
		path, _ := fa.Reach(isReturn, ReachOpts{Barrier: isFlagStore})
		c.Req(path == nil, name, p.Pos(G.Pos()), "flag:on-every-return", "every state handed out carries the cascade flag — also when a statement failed half-way through the collection, because the exclusions from quorum, active list and promotion test this flag on states of unreachable hosts too", "path to a return without the assignment: "+fa.PathString(path))
	})
}

// ---------------------------------------------------------------------------------------
// C17: the per-pass count cannot be skipped; the interval stamp is really advanced
// ---------------------------------------------------------------------------------------

func extraC17(c *Check, S *ssa.Function, lagSite ssa.CallInstruction) {
	p := c.p
	fa := p.FA(S)
	sn := p.Name(S)
	c.Rule("C17.COUNTED", func() {
		if lagSite == nil {
			panic(AnchorError{"lag offline site"})
		}
		isInc := func(in ssa.Instruction) bool {
			mu, ok := in.(*ssa.MapUpdate)
			return ok && isParam(p.T(mu.Map), "6")
		}
		n := 0
		for _, b := range S.Blocks {
			for si := range b.Succs {
				for _, l := range fa.EdgeLits(b, si) {
					if p.NilErr("(*mysql.Node).SetOffline")(l) && callInstr(l) == lagSite {
						n++
						path, _ := fa.ReachFromEdge(b, si, isReturn, ReachOpts{Barrier: isInc})
						c.Req(path == nil, sn, p.InstrPos(blockIf(b)), "pending:always-counted", "once the offline statement succeeded the zone's pending count is incremented on every path out of the function — no later failure may skip it, or the next host of the same pass is judged against a stale count", "path without the increment: "+fa.PathString(path))
					}
				}
			}
		}
		c.Req(n == 1, sn, "-", "pending:success-edge", "one success edge of the lag offline statement", fmt.Sprintf("%d", n))
	})
	c.Rule("C17.STAMP", func() {
		for _, spec := range []struct {
			fn   string
			want []string
		}{
			{"(*app.App).UpdateLastShutdownNodeTime", []string{"Set"}},
			{"(*app.App).GetOrCreateLastShutdownNodeTime", []string{"Get", "Create"}},
		} {
			F := p.MustFunc(spec.fn)
			got := map[string]bool{}
			for _, e := range c.eff.Collect(F, WalkOpts{}) {
				if e.Kind != "DCS" {
					continue
				}
				ok := e.Key == "last_shutdown_node_time"
				for _, w := range spec.want {
					if e.Op == w {
						got[w] = true
						ok = ok && true
					}
				}
				if !ok || !contains(spec.want, e.Op) {
					c.Fail(p.Name(F), p.InstrPos(e.Site), "stamp:effect "+e.String(), "the interval stamp helpers touch only the stamp key, with the operations of their contract", "chain: "+c.eff.ChainString(e))
				}
			}
			for _, w := range spec.want {
				c.Req(got[w], p.Name(F), p.Pos(F.Pos()), "stamp:"+w, map[string]string{
					"Set":    "advancing the stamp OVERWRITES the key (a create-if-absent would leave the old time in place and lift the one-per-interval limit for good)",
					"Get":    "reading the stamp reads the key",
					"Create": "a missing stamp is created",
				}[w], "")
			}
		}
		// the overwrite's result is what the wrapper returns, and the value is the current time
		U := p.MustFunc("(*app.appDCS).UpdateLastShutdownNodeTime")
		for _, ci := range p.Calls(U, "(dcs.DCS).Set") {
			v := p.T(ci.Common().Args[1])
			c.Req(p.IsCall(v, "time.Now"), p.Name(U), p.InstrPos(ci), "stamp:now", "the stamp written is the current time", "value "+v.String())
		}
		for i, rs := range c.SuccessSites(U, 0, "nil") {
			k, t := c.valKind(p.FA(U), rs.At, rs.Val)
			c.Req(k == "call" && p.IsCall(t, "(dcs.DCS).Set"), p.Name(U), p.InstrPos(rs.At), nthKey("stamp:result", i+1), "the wrapper reports the overwrite's own result", "returns "+k)
		}
	})
}

func contains(ss []string, s string) bool {
	for _, x := range ss {
		if x == s {
			return true
		}
	}
	return false
}

// ---------------------------------------------------------------------------------------
// C20: a nil pointer must not be handed out as a non-nil interface
// ---------------------------------------------------------------------------------------

func extraC20(c *Check) {
	p := c.p
	c.Rule("C20.NILESCAPE", func() {
		na := newNilAnalysis(c)
		fs, examined := na.EscapeFindings()
		c.Note("C20.NILESCAPE examined %d points where a registry handle leaves the function that looked it up", examined)
		c.Req(examined >= 10, "-", "-", "escape:instances", "the escape analysis has instances", fmt.Sprintf("%d", examined))
		seen := map[string]int{}
		for _, f := range fs {
			seen[p.Name(f.Fn)+f.Construct]++
			c.Fail(p.Name(f.Fn), p.InstrPos(f.At), nthKey(f.Construct, seen[p.Name(f.Fn)+f.Construct]), "a registry handle that may be nil (name from the coordination service, no presence test) does not leave the function that looked it up: converted to a non-empty interface it becomes a typed nil that passes every `== nil` test and is dereferenced inside the first method call", f.Detail)
		}
		if len(fs) == 0 {
			c.Hold("-", "-", "escape:none", fmt.Sprintf("all %d escape points are below a presence test or use a registry-derived name", examined))
		}
	})
}

// ---------------------------------------------------------------------------------------
// C07: what a successor needs from an interrupted run
// ---------------------------------------------------------------------------------------

func extraC07(c *Check) {
	c.Rule("C07.REFREEZE", func() { checkFreezeFilter(c) })
	c.Rule("C07.MARK", func() { checkMarkOrder(c) })
}

// ---------------------------------------------------------------------------------------
// C10: the master IS brought back (must-reach), not only "may be"
// ---------------------------------------------------------------------------------------

func extraC10Unfence(c *Check) {
	p := c.p
	G := p.MustFunc("(*app.App).repairReadOnlyOnMaster")
	fa := p.FA(G)
	gn := p.Name(G)
	ws := p.Calls(G, "(*mysql.Node).SetWritable")
	fs := p.Calls(G, "(*mysql.Node).SetReadOnlyWithForce")
	if !c.Req(len(ws) == 1 && len(fs) == 1, gn, "-", "writable:site", "one site makes the master writable again, one makes it read-only", fmt.Sprintf("%d/%d", len(ws), len(fs))) {
		return
	}
	writable, forced := ws[0].(ssa.Instruction), fs[0].(ssa.Instruction)
	// the two decision flags are the boolean phis tested on the way to the two statements
	var needRo, mayWrite ssa.Value
	for _, b := range G.Blocks {
		iff := blockIf(b)
		if iff == nil {
			continue
		}
		ph, ok := iff.Cond.(*ssa.Phi)
		if !ok || !isBoolType(ph.Type()) {
			continue
		}
		if pth, _ := fa.ReachFromEdge(b, 0, func(in ssa.Instruction) bool { return in == forced }, ReachOpts{}); pth != nil && needRo == nil {
			needRo = ph
		} else if pth, _ := fa.ReachFromEdge(b, 0, func(in ssa.Instruction) bool { return in == writable }, ReachOpts{}); pth != nil {
			mayWrite = ph
		}
	}
	if !c.Req(needRo != nil && mayWrite != nil, gn, "-", "writable:flags", "the 'need read-only' and 'may write' flags are found", "") {
		return
	}
	cutEdge := func(b *ssa.BasicBlock, si int) bool {
		iff := blockIf(b)
		if iff == nil {
			return false
		}
		return (iff.Cond == needRo && si == 0) || (iff.Cond == mayWrite && si == 1)
	}
	notRO := func(l Lit) bool { return !l.Pos && l.T.IsField("IsReadOnly") && isParam(l.T.Args[0], "2") }
	path, _ := fa.Reach(isReturn, ReachOpts{CutEdge: cutEdge, Cut: []LitPat{notRO}, Barrier: func(in ssa.Instruction) bool { return in == writable }})
	c.Req(path == nil, gn, p.InstrPos(writable), "writable:must", "when read-only is not needed, writing is allowed again and the master is read-only (whatever its super flag), every path makes it writable — the master is brought back, not merely allowed back", "path to a return without the statement: "+fa.PathString(path))

	F := p.MustFunc("(*app.App).repairMasterOfflineMode")
	ffa := p.FA(F)
	on := p.Calls(F, "(*mysql.Node).SetOnline")
	if c.Req(len(on) == 1, p.Name(F), "-", "online:site", "one site brings the master online", "") {
		path, _ := ffa.Reach(isReturn, ReachOpts{Cut: []LitPat{FieldLit(false, "IsOffline"), func(l Lit) bool { return l.Pos && p.IsCall(l.T, "(*app.App).IsRecoveryNeeded") }}, Barrier: func(in ssa.Instruction) bool { return in == on[0].(ssa.Instruction) }})
		c.Req(path == nil, p.Name(F), p.InstrPos(on[0]), "online:must", "an offline master that is not marked for recovery is brought online on every path", "path: "+ffa.PathString(path))
	}
}

// ---------------------------------------------------------------------------------------
// C13: the merge cursor of the interval subtraction (a proof obligation, decided by the
// polyhedral engine over the branch facts that dominate each cursor increment)
// ---------------------------------------------------------------------------------------

// locKey names what an integer value denotes: an element field of a parameter slice (x[i].f, keyed
// by the SSA identity of the index) or the SSA value itself. The slices are not written in the
// function (checked), so equal keys denote equal integers between two executions of a phi's block.
func locKey(p *Prog, v ssa.Value) string {
	elem := func(ia *ssa.IndexAddr, f string) string {
		if pa, ok := ia.X.(*ssa.Parameter); ok {
			return fmt.Sprintf("%s[%s].%s", pa.Name(), ia.Index.Name(), f)
		}
		return ""
	}
	switch x := v.(type) {
	case *ssa.UnOp:
		if x.Op.String() == "*" {
			if fa, ok := x.X.(*ssa.FieldAddr); ok {
				if ia, ok := fa.X.(*ssa.IndexAddr); ok {
					if k := elem(ia, afterDot(fieldName(fa.X.Type(), fa.Field))); k != "" {
						return k
					}
				}
				// a local copy of an element (`for _, iv := range a`): assigned once, from the element
				if al, ok := fa.X.(*ssa.Alloc); ok {
					if sts := p.CellStores(al); len(sts) == 1 {
						if ld, ok := sts[0].(*ssa.UnOp); ok && ld.Op.String() == "*" {
							if ia, ok := ld.X.(*ssa.IndexAddr); ok {
								if k := elem(ia, afterDot(fieldName(fa.X.Type(), fa.Field))); k != "" {
									return k
								}
							}
						}
					}
				}
			}
		}
	case *ssa.Field:
		if ld, ok := x.X.(*ssa.UnOp); ok && ld.Op.String() == "*" {
			if ia, ok := ld.X.(*ssa.IndexAddr); ok {
				if k := elem(ia, afterDot(fieldName(x.X.Type(), x.Field))); k != "" {
					return k
				}
			}
		}
	}
	return v.Name()
}

// dominatingFacts: integer comparisons known whenever `at` executes: the branch edge's block dominates at's
// block and at is not reachable from the other successor without passing the branch again (so the LAST
// evaluation of the condition before `at` took this edge; the SSA values it mentions are not redefined in
// between, because every definition dominates the branch).
func dominatingFacts(p *Prog, fn *ssa.Function, at ssa.Instruction) []Rel {
	var out []Rel
	tb := at.Block()
	for _, b := range fn.Blocks {
		iff := blockIf(b)
		if iff == nil || !b.Dominates(tb) || b == tb {
			continue
		}
		bo, ok := iff.Cond.(*ssa.BinOp)
		if !ok {
			continue
		}
		op := bo.Op.String()
		if op != "<" && op != "<=" && op != ">" && op != ">=" && op != "==" {
			continue
		}
		if bt, ok := bo.X.Type().Underlying().(*types.Basic); !ok || bt.Info()&types.IsInteger == 0 {
			continue
		}
		reach := func(from *ssa.BasicBlock) bool {
			seen := map[*ssa.BasicBlock]bool{b: true}
			var rec func(x *ssa.BasicBlock) bool
			rec = func(x *ssa.BasicBlock) bool {
				if x == tb {
					return true
				}
				if seen[x] {
					return false
				}
				seen[x] = true
				for _, s := range x.Succs {
					if rec(s) {
						return true
					}
				}
				return false
			}
			return rec(from)
		}
		r0, r1 := reach(b.Succs[0]), reach(b.Succs[1])
		if r0 == r1 {
			continue
		}
		mk := func(v ssa.Value) *SymExpr {
			if k, ok := v.(*ssa.Const); ok && k.Value != nil {
				if n, ok := constantInt(k); ok {
					return sConst(n)
				}
			}
			if call, ok := v.(*ssa.Call); ok {
				if bi, ok := call.Call.Value.(*ssa.Builtin); ok && bi.Name() == "len" {
					return sVar(fmt.Sprintf("len(%s)", call.Call.Args[0].Name()))
				}
			}
			return sVar(locKey(p, v))
		}
		rel := Rel{mk(bo.X), op, mk(bo.Y)}
		if r1 {
			rel = rel.Neg()
		}
		out = append(out, rel)
	}
	return out
}

func constantInt(k *ssa.Const) (int64, bool) {
	if k.Value == nil {
		return 0, false
	}
	s := k.Value.ExactString()
	var n int64
	if _, err := fmt.Sscanf(s, "%d", &n); err != nil {
		return 0, false
	}
	return n, true
}

func extraC13Cursor(c *Check) {
	p := c.p
	c.Rule("C13.CURSOR", func() {
		F := p.MustFunc("mysql/gtids.intervalSliceMinus")
		name := p.Name(F)
		if len(F.Params) != 2 {
			panic(AnchorError{name + " (a, b)"})
		}
		a, b := F.Params[0], F.Params[1]
		// neither slice is written
		for _, blk := range F.Blocks {
			for _, in := range blk.Instrs {
				if st, ok := in.(*ssa.Store); ok {
					root := st.Addr
					for {
						switch x := root.(type) {
						case *ssa.FieldAddr:
							root = x.X
							continue
						case *ssa.IndexAddr:
							root = x.X
							continue
						}
						break
					}
					c.Req(root != ssa.Value(a) && root != ssa.Value(b), name, p.InstrPos(in), "cursor:inputs-read-only", "the subtraction does not write its inputs", "")
				}
			}
		}
		// the current minuend element's end
		aStop := ""
		bIdx := map[ssa.Value]bool{}
		for _, blk := range F.Blocks {
			for _, in := range blk.Instrs {
				v, ok := in.(ssa.Value)
				if !ok {
					continue
				}
				k := locKey(p, v)
				if strings.HasPrefix(k, a.Name()+"[") && strings.HasSuffix(k, ".Stop") {
					if aStop != "" && aStop != k {
						c.Undecided(name, p.InstrPos(in), "cursor:minuend-end", "one current minuend interval", "two different element ends "+aStop+" / "+k)
						return
					}
					aStop = k
				}
				if ia, ok := in.(*ssa.IndexAddr); ok && ia.X == ssa.Value(b) {
					bIdx[ia.Index] = true
				}
			}
		}
		if !c.Req(aStop != "" && len(bIdx) > 0, name, p.Pos(F.Pos()), "cursor:anchors", "the minuend element's end and the subtrahend cursor are found", "") {
			return
		}
		// increments of the subtrahend cursor
		n := 0
		for _, blk := range F.Blocks {
			for _, in := range blk.Instrs {
				bo, ok := in.(*ssa.BinOp)
				if !ok || bo.Op.String() != "+" || !bIdx[bo.X] {
					continue
				}
				if k, ok := bo.Y.(*ssa.Const); !ok || k.Value == nil || k.Value.ExactString() != "1" {
					c.Fail(name, p.InstrPos(in), "cursor:step", "the subtrahend cursor advances by one", "step "+p.T(bo.Y).String())
					continue
				}
				n++
				facts := dominatingFacts(p, F, in)
				goal := Rel{sVar(fmt.Sprintf("%s[%s].Stop", b.Name(), bo.X.Name())), "<=", sVar(aStop)}
				ok2 := Entails(facts, goal)
				var fs []string
				for _, f := range facts {
					fs = append(fs, f.String())
				}
				c.Req(ok2, name, p.InstrPos(in), nthKey("cursor:skip-is-safe", n), "a subtrahend interval is skipped for good only if it ends within the current minuend interval (b[bi].Stop <= iv.Stop follows from the branch facts at the increment): both slices are sorted and disjoint, so it cannot intersect any later minuend interval; an interval reaching beyond must stay current for the next one", "facts at the increment: "+strings.Join(fs, " ∧ ")+"  ⊬  "+goal.String())
			}
		}
		c.Req(n >= 1, name, p.Pos(F.Pos()), "cursor:increments", "the subtrahend cursor is advanced somewhere", "")
		// every emitted piece is a non-empty interval inside the current minuend interval
		ne := 0
		for _, blk := range F.Blocks {
			for _, in := range blk.Instrs {
				call, ok := in.(*ssa.Call)
				if !ok {
					continue
				}
				if bi, ok := call.Call.Value.(*ssa.Builtin); !ok || bi.Name() != "append" {
					continue
				}
				for _, el := range c.eff.variadic(call.Call.Args[1]) {
					ld, ok := el.(*ssa.UnOp)
					if !ok {
						continue
					}
					al, ok := ld.X.(*ssa.Alloc)
					if !ok {
						continue
					}
					st, en := p.FieldStores(al, "mysql.Interval.Start"), p.FieldStores(al, "mysql.Interval.Stop")
					if len(st) == 0 {
						st, en = fieldStoresBySuffix(p, al, "Start"), fieldStoresBySuffix(p, al, "Stop")
					}
					if len(st) != 1 || len(en) != 1 {
						c.Undecided(name, p.InstrPos(in), "piece:literal", "an emitted piece is an interval literal with one start and one stop", fmt.Sprintf("%d/%d stores", len(st), len(en)))
						continue
					}
					ne++
					facts := dominatingFacts(p, F, in)
					sk, ek := sVar(locKey(p, st[0])), sVar(locKey(p, en[0]))
					var fs []string
					for _, f := range facts {
						fs = append(fs, f.String())
					}
					c.Req(Entails(facts, Rel{sk, "<", ek}), name, p.InstrPos(in), nthKey("piece:non-empty", ne), "an emitted piece is a non-empty interval (start < stop follows from the branch facts)", "facts: "+strings.Join(fs, " ∧ "))
					c.Req(Entails(facts, Rel{ek, "<=", sVar(aStop)}), name, p.InstrPos(in), nthKey("piece:inside-minuend", ne), "an emitted piece ends within the current minuend interval", "facts: "+strings.Join(fs, " ∧ "))
				}
			}
		}
		c.Req(ne >= 2, name, p.Pos(F.Pos()), "piece:sites", "the two emitting sites are found", fmt.Sprintf("%d", ne))
		// the position reached inside the minuend interval: starts at the interval's start and only ever jumps to the
		// end of the subtrahend interval just subtracted
		np := 0
		for _, blk := range F.Blocks {
			for _, in := range blk.Instrs {
				ph, ok := in.(*ssa.Phi)
				if !ok {
					continue
				}
				if bt, ok := ph.Type().Underlying().(*types.Basic); !ok || bt.Kind() != types.Int64 {
					continue
				}
				np++
				for i, e := range ph.Edges {
					k := locKey(p, e)
					okk := (strings.HasPrefix(k, a.Name()+"[") && strings.HasSuffix(k, ".Start")) || (strings.HasPrefix(k, b.Name()+"[") && strings.HasSuffix(k, ".Stop"))
					c.Req(okk, name, p.InstrPos(in), nthKey(fmt.Sprintf("position#%d:source", np), i+1), "the position inside the minuend interval is its start or the end of a subtrahend interval", "is "+k)
				}
			}
		}
		c.Req(np == 1, name, p.Pos(F.Pos()), "position:variable", "one position variable", fmt.Sprintf("%d", np))
		// the cursor never moves backwards: every definition reaching an index of b is 0, a phi of such, or +1
		for v := range bIdx {
			okm := derivesOnly(p.T(v), func(t *Term) bool {
				return t.IsConst("0") || (t.Op == "bin" && t.Name == "+" && t.Args[1].IsConst("1")) || t.Op == "cycle"
			})
			c.Req(okm, name, p.Pos(F.Pos()), "cursor:monotone", "the subtrahend cursor starts at 0 and only ever grows by one", "cursor is "+p.T(v).String())
		}
	})
}

func fieldStoresBySuffix(p *Prog, al *ssa.Alloc, f string) []ssa.Value {
	var out []ssa.Value
	for _, r := range *al.Referrers() {
		fa, ok := r.(*ssa.FieldAddr)
		if !ok || afterDot(fieldName(fa.X.Type(), fa.Field)) != f {
			continue
		}
		for _, rr := range *fa.Referrers() {
			if st, ok := rr.(*ssa.Store); ok && st.Addr == ssa.Value(fa) {
				out = append(out, st.Val)
			}
		}
	}
	return out
}
