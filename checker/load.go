package main

// E0/E1: loading of /repo, SSA construction, call graph, name index.

import (
	_ "embed"
	"fmt"
	"go/ast"
	"go/token"
	"go/types"
	"os"
	"path/filepath"
	"sort"
	"strings"

	"golang.org/x/tools/go/callgraph"
	"golang.org/x/tools/go/callgraph/cha"
	"golang.org/x/tools/go/callgraph/vta"
	"golang.org/x/tools/go/packages"
	"golang.org/x/tools/go/ssa"
	"golang.org/x/tools/go/ssa/ssautil"
)

const modPath = "github.com/yandex/mysync"
const modInternal = modPath + "/internal/"

// Prog is the loaded, type-checked, SSA-built program together with the
// indexes the rule engines need.
type Prog struct {
	Root     string
	Fset     *token.FileSet
	Pkgs     []*packages.Package
	SSA      *ssa.Program
	CG       *callgraph.Graph
	CHA      *callgraph.Graph
	ModFuncs []*ssa.Function          // all functions (incl. anonymous) of module packages
	byName   map[string]*ssa.Function // short name -> function
	fwdAlias map[string][]string      // callee name -> names of deleted pinned forwarders of it
	Parent   map[*ssa.Function]*ssa.MakeClosure
	pkgByRel map[string]*packages.Package
	Stats    struct {
		Packages, ModPackages, Functions, Blocks, Instrs, CallSites int
	}
	fa map[*ssa.Function]*FuncAnalysis
	// AlwaysCut: literals that are infeasible under the global assumptions (dev-mode fold)
	AlwaysCut []LitPat
}

// BrokenError aborts the run with exit 2 (no verdict).
type BrokenError struct{ Msg string }

func (b BrokenError) Error() string { return b.Msg }

func broken(format string, a ...any) {
	panic(BrokenError{fmt.Sprintf(format, a...)})
}

// LoadProg loads root ("./...") optionally with an overlay (path -> content).
func LoadProg(root string, overlay map[string][]byte) *Prog {
	os.Unsetenv("GOWORK")
	env := append(os.Environ(), "GOFLAGS=-mod=mod", "GOPROXY=off", "GOWORK=off")
	cfg := &packages.Config{
		Mode:    packages.LoadAllSyntax,
		Dir:     root,
		Env:     env,
		Tests:   false,
		Overlay: overlay,
	}
	pkgs, err := packages.Load(cfg, "./...")
	if err != nil {
		broken("packages.Load: %v", err)
	}
	if len(pkgs) == 0 {
		broken("no packages loaded from %s", root)
	}
	p := &Prog{Root: root, Pkgs: pkgs, byName: map[string]*ssa.Function{}, Parent: map[*ssa.Function]*ssa.MakeClosure{}, pkgByRel: map[string]*packages.Package{}, fa: map[*ssa.Function]*FuncAnalysis{}}
	nmod := 0
	var errs []string
	packages.Visit(pkgs, nil, func(pk *packages.Package) {
		if strings.HasPrefix(pk.PkgPath, modPath) {
			for _, e := range pk.Errors {
				errs = append(errs, e.Error())
			}
		}
	})
	for _, pk := range pkgs {
		if strings.HasPrefix(pk.PkgPath, modPath) {
			nmod++
			p.pkgByRel[strings.TrimPrefix(pk.PkgPath, modPath+"/")] = pk
		}
		if p.Fset == nil {
			p.Fset = pk.Fset
		}
	}
	if len(errs) > 0 {
		broken("type errors in module packages: %s", strings.Join(errs, "; "))
	}
	if nmod == 0 {
		broken("no module packages under %s", root)
	}
	p.Stats.Packages = len(pkgs)
	p.Stats.ModPackages = nmod

	prog, _ := ssautil.AllPackages(pkgs, ssa.InstantiateGenerics)
	prog.Build()
	p.SSA = prog
	all := ssautil.AllFunctions(prog)
	p.CHA = cha.CallGraph(prog)
	p.CG = vta.CallGraph(all, p.CHA)

	for fn := range all {
		if fn.Pkg == nil && fn.Origin() == nil && fn.Parent() == nil {
			// synthetic wrappers/bound methods: keep those of module types
		}
		if !p.InModule(fn) {
			continue
		}
		p.ModFuncs = append(p.ModFuncs, fn)
	}
	sort.Slice(p.ModFuncs, func(i, j int) bool { return p.ModFuncs[i].String() < p.ModFuncs[j].String() })
	for _, fn := range p.ModFuncs {
		n := p.Name(fn)
		if old, ok := p.byName[n]; ok && old != fn {
			// wrappers ($bound, $thunk) share names with a suffix, so a clash is unexpected;
			// prefer the one with a body and syntax.
			if old.Syntax() != nil {
				continue
			}
		}
		p.byName[n] = fn
		p.Stats.Functions++
		p.Stats.Blocks += len(fn.Blocks)
		for _, b := range fn.Blocks {
			p.Stats.Instrs += len(b.Instrs)
			for _, in := range b.Instrs {
				if _, ok := in.(ssa.CallInstruction); ok {
					p.Stats.CallSites++
				}
				if mc, ok := in.(*ssa.MakeClosure); ok {
					p.Parent[mc.Fn.(*ssa.Function)] = mc
				}
			}
		}
	}
	p.assertNoBuildTagsOrUnsafe()
	p.initForwarderAliases()
	stableGlobalsProg = p
	return p
}

// InModule reports whether fn belongs to a package of the analysed module.
func (p *Prog) InModule(fn *ssa.Function) bool {
	if fn == nil {
		return false
	}
	if pk := fn.Package(); pk != nil && pk.Pkg != nil {
		return strings.HasPrefix(pk.Pkg.Path(), modPath)
	}
	// synthetic function (wrapper, bound method closure, instantiation)
	if fn.Origin() != nil {
		return p.InModule(fn.Origin())
	}
	if fn.Parent() != nil {
		return p.InModule(fn.Parent())
	}
	if recv := fn.Signature.Recv(); recv != nil {
		return strings.Contains(recv.Type().String(), modPath)
	}
	if fn.Object() != nil && fn.Object().Pkg() != nil {
		return strings.HasPrefix(fn.Object().Pkg().Path(), modPath)
	}
	return false
}

// short strips the module prefix from a qualified name.
func short(s string) string {
	s = strings.ReplaceAll(s, modInternal, "")
	s = strings.ReplaceAll(s, modPath+"/", "")
	return s
}

// Name is the short qualified name of a function, e.g. "(*app.App).performSwitchover",
// "app.filterOut", "(*app.App).performSwitchover$1".
func (p *Prog) Name(fn *ssa.Function) string {
	if fn == nil {
		return "<nil>"
	}
	return short(fn.String())
}

// Func resolves a short name; it fails the run when the anchor is missing.
func (p *Prog) Func(name string) *ssa.Function {
	fn := p.byName[name]
	return fn
}

func (p *Prog) MustFunc(name string) *ssa.Function {
	fn := p.byName[name]
	if fn == nil {
		panic(AnchorError{name})
	}
	return fn
}

type AnchorError struct{ Name string }

func (a AnchorError) Error() string { return "ANCHOR-UNRESOLVED " + a.Name }

// Pos renders a token.Pos relative to the repo root.
func (p *Prog) Pos(pos token.Pos) string {
	if !pos.IsValid() {
		return "-"
	}
	po := p.Fset.Position(pos)
	rel, err := filepath.Rel(p.Root, po.Filename)
	if err != nil {
		rel = po.Filename
	}
	return fmt.Sprintf("%s:%d", rel, po.Line)
}

func (p *Prog) InstrPos(in ssa.Instruction) string {
	if in == nil {
		return "-"
	}
	pos := in.Pos()
	if !pos.IsValid() {
		if v, ok := in.(ssa.Value); ok {
			_ = v
		}
		// fall back to any positioned instruction of the block
		if b := in.Block(); b != nil {
			for _, o := range b.Instrs {
				if o.Pos().IsValid() {
					pos = o.Pos()
					break
				}
			}
		}
	}
	return p.Pos(pos)
}

// Closures returns fn and all functions lexically nested in it.
func Closures(fn *ssa.Function) []*ssa.Function {
	out := []*ssa.Function{fn}
	for _, a := range fn.AnonFuncs {
		out = append(out, Closures(a)...)
	}
	return out
}

// Pkg returns the types package by module-relative path (e.g. "internal/mysql").
func (p *Prog) Pkg(rel string) *packages.Package {
	pk := p.pkgByRel[rel]
	if pk == nil {
		panic(AnchorError{"package " + rel})
	}
	return pk
}

// assertNoBuildTagsOrUnsafe checks global assumption A3 and the "no build-tagged
// files" note of E0 on every run.
func (p *Prog) assertNoBuildTagsOrUnsafe() {
	for _, pk := range p.pkgByRel {
		if strings.HasPrefix(pk.PkgPath, modPath+"/tests") {
			continue
		}
		for _, f := range pk.Syntax {
			for _, imp := range f.Imports {
				path := strings.Trim(imp.Path.Value, `"`)
				if path == "unsafe" || path == "reflect" || path == "C" {
					broken("assumption A3 violated: %s imports %s", p.Pos(f.Pos()), path)
				}
			}
			for _, cg := range f.Comments {
				for _, c := range cg.List {
					if c.Pos() < f.Package && strings.HasPrefix(c.Text, "//go:build") {
						broken("build-tagged file %s: the loader covers the default build only", p.Pos(f.Pos()))
					}
				}
			}
		}
	}
}

// ConstString returns the string value of a package-level constant.
func (p *Prog) ConstString(rel, name string) (string, bool) {
	pk := p.pkgByRel[rel]
	if pk == nil {
		return "", false
	}
	obj := pk.Types.Scope().Lookup(name)
	c, ok := obj.(*types.Const)
	if !ok {
		return "", false
	}
	return strings.Trim(c.Val().ExactString(), `"`), true
}

// StringMapLiteral evaluates a package-level `var X = map[string]string{k: v}`
// whose keys are constants and values string literals.
func (p *Prog) StringMapLiteral(rel, name string) map[string]string {
	pk := p.Pkg(rel)
	out := map[string]string{}
	found := false
	for _, f := range pk.Syntax {
		for _, d := range f.Decls {
			gd, ok := d.(*ast.GenDecl)
			if !ok || gd.Tok != token.VAR {
				continue
			}
			for _, sp := range gd.Specs {
				vs := sp.(*ast.ValueSpec)
				for i, n := range vs.Names {
					if n.Name != name || i >= len(vs.Values) {
						continue
					}
					cl, ok := vs.Values[i].(*ast.CompositeLit)
					if !ok {
						continue
					}
					found = true
					for _, e := range cl.Elts {
						kv, ok := e.(*ast.KeyValueExpr)
						if !ok {
							continue
						}
						ktv := pk.TypesInfo.Types[kv.Key]
						vtv := pk.TypesInfo.Types[kv.Value]
						if ktv.Value == nil {
							continue
						}
						k := strings.Trim(ktv.Value.ExactString(), `"`)
						v := ""
						if vtv.Value != nil {
							v = constStringVal(vtv.Value.ExactString())
						}
						out[k] = v
					}
				}
			}
		}
	}
	if !found {
		panic(AnchorError{rel + "." + name})
	}
	return out
}

func constStringVal(s string) string {
	if len(s) >= 2 && s[0] == '"' {
		// ExactString of a string constant is a quoted Go string
		var out string
		if _, err := fmt.Sscanf(s, "%q", &out); err == nil {
			return out
		}
	}
	return s
}

//go:embed baseline_forwarders.txt
var baselineForwardersRaw string

// forwarderTarget: fn's whole body is one call whose arguments are fn's own parameters in order (the receiver may be
// replaced by a field of the receiver) and whose results are returned as they are — a pure forwarder. Returns the
// callee's name.
func forwarderTarget(p *Prog, fn *ssa.Function) string {
	if len(fn.Blocks) != 1 || fn.Parent() != nil || fn.Synthetic != "" {
		return ""
	}
	var call *ssa.Call
	for _, in := range fn.Blocks[0].Instrs {
		switch x := in.(type) {
		case *ssa.Call:
			if call != nil {
				return ""
			}
			call = x
		case *ssa.FieldAddr, *ssa.UnOp, *ssa.Field, *ssa.Extract, *ssa.Return, *ssa.DebugRef:
		default:
			return ""
		}
	}
	if call == nil {
		return ""
	}
	if _, isB := call.Call.Value.(*ssa.Builtin); isB {
		return ""
	}
	params := fn.Params
	if fn.Signature.Recv() != nil && len(params) > 0 {
		params = params[1:]
	}
	args := call.Call.Args
	if !call.Call.IsInvoke() && call.Call.Signature().Recv() != nil && len(args) > 0 {
		args = args[1:]
	}
	if len(args) != len(params) {
		return ""
	}
	for i := range args {
		if args[i] != ssa.Value(params[i]) {
			return ""
		}
	}
	ret, ok := fn.Blocks[0].Instrs[len(fn.Blocks[0].Instrs)-1].(*ssa.Return)
	if !ok {
		return ""
	}
	for i, r := range ret.Results {
		switch x := r.(type) {
		case *ssa.Call:
			if x != call || len(ret.Results) != 1 {
				return ""
			}
		case *ssa.Extract:
			if x.Tuple != ssa.Value(call) || x.Index != i {
				return ""
			}
		default:
			return ""
		}
	}
	if len(ret.Results) == 0 && call.Call.Signature().Results().Len() != 0 {
		return ""
	}
	names := p.CalleeNames(call)
	if len(names) == 0 || names[0] == "<dynamic>" {
		return ""
	}
	return names[0]
}

// initForwarderAliases: a pinned forwarder that no longer exists was inlined at its call sites; a direct call of its
// target is then ALSO a call of the forwarder as far as the rules' call-site matching is concerned.
func (p *Prog) initForwarderAliases() {
	p.fwdAlias = map[string][]string{}
	for _, l := range strings.Split(baselineForwardersRaw, "\n") {
		f, g, ok := strings.Cut(strings.TrimSpace(l), "\t")
		if !ok || f == "" || g == "" {
			continue
		}
		if p.byName[f] == nil {
			p.fwdAlias[g] = append(p.fwdAlias[g], f)
		}
	}
}
