package main

// E2: effect summaries by context-sensitive abstract walking. Primitive effects
// (SQL by query name, DCS operation by key prefix, FILE by config field, PANIC,
// EXEC) are collected from a root through resolved call sites; function-typed
// parameters, closures and bound methods are followed by value, everything else
// falls back to the VTA call graph.

import (
	"fmt"
	"go/constant"
	"go/token"
	"go/types"
	"sort"
	"strings"

	"golang.org/x/tools/go/ssa"
)

type AbsVal struct {
	Strs  map[string]bool // constant strings; "$self" = this host's name; "x/*" key prefixes
	Nodes map[string]bool // node classes: local reg fresh
	Funcs []*FuncVal
	Cells []CellRef
	Top   bool
}

type FuncVal struct {
	Fn  *ssa.Function
	Env *Env // environment in which the closure was created (nil for plain functions)
	MC  *ssa.MakeClosure
}

type CellRef struct {
	A   *ssa.Alloc
	Env *Env
}

type Env struct {
	Fn     *ssa.Function
	Params []AbsVal
	Parent *Env // lexical parent's env (closures)
	MC     *ssa.MakeClosure
	key    string
}

var topVal = AbsVal{Top: true}

func strVal(s ...string) AbsVal {
	m := map[string]bool{}
	for _, x := range s {
		m[x] = true
	}
	return AbsVal{Strs: m}
}
func nodeVal(s string) AbsVal { return AbsVal{Nodes: map[string]bool{s: true}} }

func (a AbsVal) join(b AbsVal) AbsVal {
	out := AbsVal{Top: a.Top || b.Top}
	if len(a.Strs)+len(b.Strs) > 0 {
		out.Strs = map[string]bool{}
		for k := range a.Strs {
			out.Strs[k] = true
		}
		for k := range b.Strs {
			out.Strs[k] = true
		}
	}
	if len(a.Nodes)+len(b.Nodes) > 0 {
		out.Nodes = map[string]bool{}
		for k := range a.Nodes {
			out.Nodes[k] = true
		}
		for k := range b.Nodes {
			out.Nodes[k] = true
		}
	}
	for _, f := range append(append([]*FuncVal{}, a.Funcs...), b.Funcs...) {
		dup := false
		for _, g := range out.Funcs {
			if g.Fn == f.Fn && g.Env == f.Env && g.MC == f.MC {
				dup = true
			}
		}
		if !dup {
			out.Funcs = append(out.Funcs, f)
		}
	}
	for _, c := range append(append([]CellRef{}, a.Cells...), b.Cells...) {
		dup := false
		for _, g := range out.Cells {
			if g.A == c.A && g.Env == c.Env {
				dup = true
			}
		}
		if !dup {
			out.Cells = append(out.Cells, c)
		}
	}
	if len(out.Funcs) > 64 || len(out.Cells) > 64 {
		return topVal
	}
	return out
}

func (a AbsVal) isEmpty() bool {
	return !a.Top && len(a.Strs) == 0 && len(a.Nodes) == 0 && len(a.Funcs) == 0 && len(a.Cells) == 0
}

func keys(m map[string]bool) []string {
	var out []string
	for k := range m {
		out = append(out, k)
	}
	sort.Strings(out)
	return out
}

func (a AbsVal) key(p *Prog, d int) string {
	var sb strings.Builder
	if a.Top {
		sb.WriteString("T")
	}
	sb.WriteString("s{" + strings.Join(keys(a.Strs), ",") + "}")
	sb.WriteString("n{" + strings.Join(keys(a.Nodes), ",") + "}")
	var fs []string
	for _, f := range a.Funcs {
		s := p.Name(f.Fn)
		if f.Env != nil && d > 0 {
			s += "@" + f.Env.Key(p, d-1)
		}
		fs = append(fs, s)
	}
	sort.Strings(fs)
	sb.WriteString("f{" + strings.Join(fs, ",") + "}")
	var cs []string
	for _, c := range a.Cells {
		s := fmt.Sprintf("%p", c.A)
		if c.Env != nil && d > 0 {
			s += "@" + c.Env.Key(p, d-1)
		}
		cs = append(cs, s)
	}
	sort.Strings(cs)
	sb.WriteString("c{" + strings.Join(cs, ",") + "}")
	return sb.String()
}

func (e *Env) Key(p *Prog, d int) string {
	if e == nil {
		return "-"
	}
	if e.key != "" && d >= 3 {
		return e.key
	}
	var parts []string
	parts = append(parts, p.Name(e.Fn))
	for _, a := range e.Params {
		parts = append(parts, a.key(p, d))
	}
	if e.Parent != nil && d > 0 {
		parts = append(parts, "^"+e.Parent.Key(p, d-1))
	}
	k := strings.Join(parts, "|")
	if d >= 3 {
		e.key = k
	}
	return k
}

// Effect is one primitive effect reachable from a root.
type Effect struct {
	Kind  string // SQL DCS FILE PANIC EXEC SPAWN
	Op    string // SQL: query name; DCS: method; FILE: write/remove/stat; EXEC: command
	Key   string // DCS: key prefix or "?"; FILE: config field; SQL: class READ/TOPOLOGY/SETTING/SESSION/DATA
	Recv  string // SQL: local/reg/fresh/? (joined with +)
	Site  ssa.Instruction
	Chain []ssa.Instruction // call sites from the root down to Site
}

func (e Effect) String() string {
	switch e.Kind {
	case "SQL":
		return fmt.Sprintf("SQL %s[%s] on %s", e.Op, e.Key, e.Recv)
	case "DCS":
		return fmt.Sprintf("DCS %s(%s)", e.Op, e.Key)
	case "FILE":
		return fmt.Sprintf("FILE %s(%s)", e.Op, e.Key)
	}
	return e.Kind + " " + e.Op
}

type Effects struct {
	p        *Prog
	sqlClass map[string]string
	memo     map[string][]Effect
	active   map[string]bool
	retMemo  map[string]AbsVal
	retAct   map[string]bool
	globals  map[*ssa.Global]*AbsVal
	unres    map[ssa.Instruction]bool // call sites resolved only through VTA fallback
	useCHA   bool
	evalMemo map[evalKey]AbsVal
	evalBusy map[evalKey]bool
	evalCuts int
}

func NewEffects(p *Prog) *Effects {
	e := &Effects{p: p, memo: map[string][]Effect{}, active: map[string]bool{}, retMemo: map[string]AbsVal{}, retAct: map[string]bool{}, globals: map[*ssa.Global]*AbsVal{}, unres: map[ssa.Instruction]bool{}}
	e.sqlClass = map[string]string{}
	for name, text := range p.StringMapLiteral("internal/mysql", "DefaultQueries") {
		e.sqlClass[name] = classifySQL(text)
	}
	if len(e.sqlClass) < 20 {
		broken("DefaultQueries table resolved to %d entries", len(e.sqlClass))
	}
	return e
}

func classifySQL(text string) string {
	t := strings.ToUpper(strings.TrimSpace(text))
	f := strings.Fields(t)
	if len(f) == 0 {
		return "READ"
	}
	switch f[0] {
	case "SELECT", "SHOW":
		return "READ"
	case "STOP", "START", "RESET", "CHANGE":
		return "TOPOLOGY"
	case "SET":
		if len(f) > 1 && f[1] == "SESSION" {
			return "SESSION"
		}
		return "SETTING"
	case "ALTER", "KILL":
		return "SETTING"
	case "INSERT", "CREATE", "UPDATE", "DELETE", "REPLACE", "DROP":
		return "DATA"
	}
	return "UNKNOWN"
}

// SQLClass returns the class of a query name ("?" when the name is unknown).
func (e *Effects) SQLClass(name string) string {
	if c, ok := e.sqlClass[name]; ok {
		return c
	}
	return "?"
}

// ---------------------------------------------------------------------------
// Abstract evaluation

func (e *Effects) rootEnv(fn *ssa.Function) *Env {
	env := &Env{Fn: fn}
	for range fn.Params {
		env.Params = append(env.Params, topVal)
	}
	return env
}

// closureEnv builds an environment for a closure nested in owner's function when
// only the owner's env is known (used to evaluate stores made inside closures).
func (e *Effects) closureEnv(g *ssa.Function, ownerEnv *Env) *Env {
	if ownerEnv == nil {
		return e.rootEnv(g)
	}
	if g == ownerEnv.Fn {
		return ownerEnv
	}
	if g.Parent() == nil {
		return e.rootEnv(g)
	}
	pe := e.closureEnv(g.Parent(), ownerEnv)
	env := &Env{Fn: g, Parent: pe, MC: e.p.Parent[g]}
	for range g.Params {
		env.Params = append(env.Params, topVal)
	}
	return env
}

func (e *Effects) Eval(v ssa.Value, env *Env) AbsVal { return e.eval(v, env, 0) }

func (e *Effects) evalRaw(v ssa.Value, env *Env, d int) AbsVal {
	if d > 400 || v == nil {
		return topVal
	}
	switch x := v.(type) {
	case *ssa.Const:
		if x.Value != nil && x.Value.Kind() == constant.String {
			return strVal(constant.StringVal(x.Value))
		}
		if x.Value == nil {
			return AbsVal{} // nil: no node, no function
		}
		return topVal
	case *ssa.Parameter:
		if env != nil && env.Fn == x.Parent() {
			for i, pa := range x.Parent().Params {
				if pa == x && i < len(env.Params) {
					return env.Params[i]
				}
			}
		}
		return topVal
	case *ssa.FreeVar:
		if env == nil || env.Fn != x.Parent() || env.MC == nil {
			return topVal
		}
		for i, fv := range x.Parent().FreeVars {
			if fv == x && i < len(env.MC.Bindings) {
				b := env.MC.Bindings[i]
				if al, ok := b.(*ssa.Alloc); ok {
					return AbsVal{Cells: []CellRef{{al, env.Parent}}}
				}
				return e.eval(b, env.Parent, d+1)
			}
		}
		return topVal
	case *ssa.Alloc:
		return AbsVal{Cells: []CellRef{{x, env}}}
	case *ssa.Function:
		return AbsVal{Funcs: []*FuncVal{{Fn: x}}}
	case *ssa.MakeClosure:
		return AbsVal{Funcs: []*FuncVal{{Fn: x.Fn.(*ssa.Function), Env: env, MC: x}}}
	case *ssa.MakeInterface:
		return e.eval(x.X, env, d+1)
	case *ssa.ChangeType:
		return e.eval(x.X, env, d+1)
	case *ssa.ChangeInterface:
		return e.eval(x.X, env, d+1)
	case *ssa.Convert:
		return e.eval(x.X, env, d+1)
	case *ssa.TypeAssert:
		return e.eval(x.X, env, d+1)
	case *ssa.Phi:
		out := AbsVal{}
		for _, ed := range x.Edges {
			if ed == v {
				continue
			}
			out = out.join(e.eval(ed, env, d+3))
		}
		return out
	case *ssa.Extract:
		if c, ok := x.Tuple.(*ssa.Call); ok {
			return e.evalCall(c, x.Index, env, d+1)
		}
		if nx, ok := x.Tuple.(*ssa.Next); ok {
			if rg, ok := nx.Iter.(*ssa.Range); ok && x.Index == 2 {
				return e.elems(rg.X, env, d+1)
			}
			return topVal
		}
		if ta, ok := x.Tuple.(*ssa.TypeAssert); ok && x.Index == 0 {
			return e.eval(ta.X, env, d+1)
		}
		if lk, ok := x.Tuple.(*ssa.Lookup); ok && x.Index == 0 {
			return e.elems(lk.X, env, d+1)
		}
		return topVal
	case *ssa.Call:
		return e.evalCall(x, 0, env, d+1)
	case *ssa.Lookup:
		return e.elems(x.X, env, d+1)
	case *ssa.Index:
		return e.elems(x.X, env, d+1)
	case *ssa.Slice:
		return e.eval(x.X, env, d+1)
	case *ssa.UnOp:
		if x.Op != token.MUL {
			return topVal
		}
		return e.load(x.X, env, d+1)
	case *ssa.BinOp:
		// key built by concatenation: prefix + "/" + name  ≡  JoinPath(prefix, name)
		if x.Op == token.ADD && isStringValue(x) {
			left, right := e.eval(x.X, env, d+1), e.eval(x.Y, env, d+1)
			if left.Top || len(left.Strs) == 0 {
				return topVal
			}
			out := AbsVal{Strs: map[string]bool{}}
			for l := range left.Strs {
				if strings.ContainsAny(l, "*$") {
					return topVal
				}
				switch {
				case !right.Top && len(right.Strs) == 1 && right.Strs["$self"] && strings.HasSuffix(l, "/"):
					out.Strs[l+"$self"] = true
				case !right.Top && len(right.Strs) > 0 && !hasSpecial(right.Strs):
					for r := range right.Strs {
						out.Strs[l+r] = true
					}
				case strings.HasSuffix(l, "/"):
					out.Strs[l+"*"] = true
				default:
					return topVal
				}
			}
			return out
		}
		return topVal
	case *ssa.MakeMap, *ssa.MakeSlice:
		return e.elems(v, env, d+1)
	case *ssa.Field:
		return e.fieldOf(x.X, fieldName(x.X.Type(), x.Field), env, d+1)
	}
	return topVal
}

// elems: abstract value of the elements of a slice/map/array value.
func (e *Effects) elemsRaw(v ssa.Value, env *Env, d int) AbsVal {
	if d > 400 {
		return topVal
	}
	switch x := v.(type) {
	case *ssa.MakeMap:
		out := AbsVal{}
		for _, r := range *x.Referrers() {
			if mu, ok := r.(*ssa.MapUpdate); ok && mu.Map == v {
				out = out.join(e.eval(mu.Value, env, d+1))
			}
		}
		return out
	case *ssa.Call:
		if b, ok := x.Call.Value.(*ssa.Builtin); ok && b.Name() == "append" {
			out := e.elems(x.Call.Args[0], env, d+1)
			if len(x.Call.Args) > 1 {
				out = out.join(e.elems(x.Call.Args[1], env, d+1))
			}
			return out
		}
		return e.eval(v, env, d+1)
	case *ssa.Slice:
		// slice of a local array: the stores into its elements
		if al, ok := x.X.(*ssa.Alloc); ok {
			out := AbsVal{}
			for _, r := range *al.Referrers() {
				if ia, ok := r.(*ssa.IndexAddr); ok {
					for _, rr := range *ia.Referrers() {
						if st, ok := rr.(*ssa.Store); ok && st.Addr == ia {
							out = out.join(e.eval(st.Val, env, d+1))
						}
					}
				}
			}
			return out
		}
		return e.elems(x.X, env, d+1)
	case *ssa.Phi:
		out := AbsVal{}
		for _, ed := range x.Edges {
			if ed != v {
				out = out.join(e.elems(ed, env, d+3))
			}
		}
		return out
	case *ssa.MakeSlice:
		// make([]T, n) filled by index assignment: the stores into its elements
		out := AbsVal{}
		for _, r := range *x.Referrers() {
			if ia, ok := r.(*ssa.IndexAddr); ok && ia.X == v {
				for _, rr := range *ia.Referrers() {
					if st, ok := rr.(*ssa.Store); ok && st.Addr == ia {
						out = out.join(e.eval(st.Val, env, d+1))
					}
				}
			}
		}
		return out
	case *ssa.Const:
		return AbsVal{}
	}
	// a slice-typed value whose abstract value already is the union of elements
	return e.eval(v, env, d+1)
}

func (e *Effects) load(addr ssa.Value, env *Env, d int) AbsVal {
	p := e.p
	switch a := addr.(type) {
	case *ssa.Alloc:
		return e.loadCell(CellRef{a, env}, d)
	case *ssa.FreeVar:
		av := e.eval(a, env, d+1)
		out := AbsVal{Top: av.Top}
		for _, c := range av.Cells {
			out = out.join(e.loadCell(c, d+1))
		}
		return out
	case *ssa.Global:
		return e.globalVal(a)
	case *ssa.FieldAddr:
		return e.fieldOf(a.X, fieldName(a.X.Type(), a.Field), env, d+1)
	case *ssa.IndexAddr:
		return e.elems(a.X, env, d+1)
	}
	_ = p
	return topVal
}

func (e *Effects) loadCell(c CellRef, d int) AbsVal {
	if d > 400 {
		return topVal
	}
	out := AbsVal{}
	sts := e.p.CellStores(c.A)
	if len(sts) == 0 {
		return AbsVal{} // zero value
	}
	tb := e.p.tb()
	_ = tb
	for _, b := range c.A.Parent().Blocks {
		_ = b
	}
	// find each store instruction to know which function it lives in
	for _, f := range Closures(top(c.A.Parent())) {
		for _, b := range f.Blocks {
			for _, in := range b.Instrs {
				st, ok := in.(*ssa.Store)
				if !ok {
					continue
				}
				if e.p.tb().resolveAddr(st.Addr) != ssa.Value(c.A) {
					continue
				}
				var senv *Env
				if c.Env != nil && f == c.Env.Fn {
					senv = c.Env
				} else {
					senv = e.closureEnv(f, c.Env)
				}
				if st.Val == nil {
					continue
				}
				out = out.join(e.eval(st.Val, senv, d+4))
			}
		}
	}
	return out
}

func (e *Effects) globalVal(g *ssa.Global) AbsVal {
	if v, ok := e.globals[g]; ok {
		if v == nil {
			return topVal
		}
		return *v
	}
	e.globals[g] = nil
	out := AbsVal{}
	n := 0
	for _, fn := range e.p.ModFuncs {
		for _, b := range fn.Blocks {
			for _, in := range b.Instrs {
				if st, ok := in.(*ssa.Store); ok && st.Addr == ssa.Value(g) {
					n++
					if fn.Name() == "init" {
						out = out.join(e.eval(st.Val, e.rootEnv(fn), 1))
					} else {
						out = out.join(topVal)
					}
				}
			}
		}
	}
	if n == 0 {
		out = topVal
	}
	e.globals[g] = &out
	return out
}

// fieldOf evaluates a field load x.F.
func (e *Effects) fieldOf(x ssa.Value, fname string, env *Env, d int) AbsVal {
	switch fname {
	case "config.Config.Hostname":
		return strVal("$self")
	case "mysql.Cluster.local":
		return nodeVal("local")
	case "mysql.Cluster.haNodes", "mysql.Cluster.cascadeNodes":
		return nodeVal("reg")
	case "mysql.Node.host":
		recv := e.eval(x, env, d+1)
		if len(recv.Nodes) == 1 && recv.Nodes["local"] && !recv.Top {
			return strVal("$self")
		}
		return topVal
	}
	// field of a local struct
	if al, ok := e.p.tb().resolveAddr(x).(*ssa.Alloc); ok {
		sts := e.p.FieldStores(al, fname)
		if len(sts) > 0 {
			out := AbsVal{}
			for _, s := range sts {
				out = out.join(e.eval(s, env, d+4))
			}
			return out
		}
	}
	// config string fields used as file paths keep their identity
	if strings.HasPrefix(fname, "config.Config.") {
		return strVal("$cfg." + strings.TrimPrefix(fname, "config.Config."))
	}
	return topVal
}

func (e *Effects) variadic(arg ssa.Value) []ssa.Value {
	sl, ok := arg.(*ssa.Slice)
	if !ok {
		return nil
	}
	al, ok := sl.X.(*ssa.Alloc)
	if !ok {
		return nil
	}
	vals := map[int64]ssa.Value{}
	max := int64(-1)
	for _, r := range *al.Referrers() {
		ia, ok := r.(*ssa.IndexAddr)
		if !ok {
			continue
		}
		c, ok := ia.Index.(*ssa.Const)
		if !ok {
			return nil
		}
		idx := c.Int64()
		for _, rr := range *ia.Referrers() {
			if st, ok := rr.(*ssa.Store); ok && st.Addr == ia {
				vals[idx] = st.Val
				if idx > max {
					max = idx
				}
			}
		}
	}
	var out []ssa.Value
	for i := int64(0); i <= max; i++ {
		out = append(out, vals[i])
	}
	return out
}

func (e *Effects) evalCall(c *ssa.Call, idx int, env *Env, d int) AbsVal {
	p := e.p
	if d > 400 {
		return topVal
	}
	if b, ok := c.Call.Value.(*ssa.Builtin); ok {
		if b.Name() == "append" {
			return e.elems(c, env, d+1)
		}
		return topVal
	}
	names := p.CalleeNames(c)
	has := func(n string) bool {
		for _, x := range names {
			if x == n {
				return true
			}
		}
		return false
	}
	switch {
	case has("dcs.JoinPath"):
		parts := e.variadic(c.Call.Args[0])
		if len(parts) == 0 {
			return topVal
		}
		first := e.eval(parts[0], env, d+1)
		if first.Top || len(first.Strs) == 0 {
			return topVal
		}
		out := AbsVal{Strs: map[string]bool{}}
		for s := range first.Strs {
			if len(parts) == 1 {
				out.Strs[s] = true
			} else if len(parts) == 2 {
				second := e.eval(parts[1], env, d+1)
				if !second.Top && len(second.Strs) == 1 && second.Strs["$self"] {
					out.Strs[s+"/$self"] = true
				} else {
					out.Strs[s+"/*"] = true
				}
			} else {
				out.Strs[s+"/*"] = true
			}
		}
		return out
	case has("(*mysql.Cluster).Local"):
		return nodeVal("local")
	case has("(*mysql.Cluster).Get"):
		return nodeVal("reg")
	case has("mysql.NewNode"):
		if idx == 0 {
			return nodeVal("fresh")
		}
		return topVal
	case has("(*mysql.Node).Host"):
		var rv ssa.Value
		if c.Call.IsInvoke() {
			rv = c.Call.Value
		} else if len(c.Call.Args) > 0 {
			rv = c.Call.Args[0]
		}
		recv := e.eval(rv, env, d+1)
		if !recv.Top && len(recv.Nodes) == 1 && recv.Nodes["local"] {
			return strVal("$self")
		}
		return topVal
	}
	// return summaries of module callees
	callees := e.calleesOf(c, env, d)
	if len(callees) == 0 {
		return topVal
	}
	out := AbsVal{}
	for _, cal := range callees {
		if !p.InModule(cal.Fn) || len(cal.Fn.Blocks) == 0 {
			return topVal
		}
		out = out.join(e.retVal(cal, idx, d+1))
	}
	return out
}

func (e *Effects) retVal(cal *Env, idx int, d int) AbsVal {
	key := fmt.Sprintf("%s#%d", cal.Key(e.p, 3), idx)
	if v, ok := e.retMemo[key]; ok {
		return v
	}
	if e.retAct[key] {
		return AbsVal{}
	}
	e.retAct[key] = true
	out := AbsVal{}
	for _, r := range Returns(cal.Fn) {
		if idx < len(r.Results) {
			out = out.join(e.eval(r.Results[idx], cal, d+4))
		}
	}
	delete(e.retAct, key)
	e.retMemo[key] = out
	return out
}

// calleesOf resolves a call site to callee environments.
func (e *Effects) calleesOf(site ssa.CallInstruction, env *Env, d int) []*Env {
	c := site.Common()
	var out []*Env
	mk := func(fn *ssa.Function, fenv *Env, mc *ssa.MakeClosure, args []AbsVal) *Env {
		ne := &Env{Fn: fn, Parent: fenv, MC: mc}
		for i := range fn.Params {
			if i < len(args) {
				ne.Params = append(ne.Params, args[i])
			} else {
				ne.Params = append(ne.Params, topVal)
			}
		}
		return ne
	}
	var args []AbsVal
	evalArgs := func(withRecv bool) []AbsVal {
		var as []AbsVal
		if withRecv {
			as = append(as, e.eval(c.Value, env, d+1))
		}
		for _, a := range c.Args {
			as = append(as, e.eval(a, env, d+1))
		}
		return as
	}
	if c.IsInvoke() {
		args = evalArgs(true)
		for _, fn := range e.resolve(site) {
			out = append(out, mk(fn, nil, nil, args))
		}
		return out
	}
	if fn := c.StaticCallee(); fn != nil {
		args = evalArgs(false)
		if mc, ok := c.Value.(*ssa.MakeClosure); ok {
			return []*Env{mk(fn, env, mc, args)}
		}
		return []*Env{mk(fn, nil, nil, args)}
	}
	if _, ok := c.Value.(*ssa.Builtin); ok {
		return nil
	}
	// dynamic call through a function value
	args = evalArgs(false)
	fv := e.eval(c.Value, env, d+1)
	fv = e.derefCells(fv, d)
	if !fv.Top && len(fv.Funcs) > 0 {
		for _, f := range fv.Funcs {
			out = append(out, mk(f.Fn, f.Env, f.MC, args))
		}
		return out
	}
	e.unres[site] = true
	for _, fn := range e.resolve(site) {
		out = append(out, mk(fn, nil, nil, args))
	}
	return out
}

// resolve: callees of a dynamic site from the VTA graph, or from CHA for the thorough cross-check.
func (e *Effects) resolve(site ssa.CallInstruction) []*ssa.Function {
	if !e.useCHA {
		return e.p.Callees(site)
	}
	n := e.p.CHA.Nodes[site.Parent()]
	if n == nil {
		return nil
	}
	var out []*ssa.Function
	seen := map[*ssa.Function]bool{}
	for _, ed := range n.Out {
		if ed.Site == site && !seen[ed.Callee.Func] {
			seen[ed.Callee.Func] = true
			out = append(out, ed.Callee.Func)
		}
	}
	return out
}

func (e *Effects) derefCells(v AbsVal, d int) AbsVal {
	// a function value is never a cell itself; cells appear only for addresses
	return v
}

// ---------------------------------------------------------------------------
// Effect collection

type WalkOpts struct {
	Gate   []LitPat // effects below an edge carrying a matching literal are not collected
	GateID string
	// StopAt: do not descend into these callees (by name)
	StopAt map[string]bool
}

// Collect returns the effects reachable from fn (with unknown parameters).
func (e *Effects) Collect(fn *ssa.Function, o WalkOpts) []Effect {
	return e.walk(e.rootEnv(fn), o, 0)
}

func (e *Effects) CollectEnv(env *Env, o WalkOpts) []Effect { return e.walk(env, o, 0) }

func (e *Effects) unguardedBlocks(fn *ssa.Function, o WalkOpts) map[*ssa.BasicBlock]bool {
	fa := e.p.FA(fn)
	seen := map[*ssa.BasicBlock]bool{}
	if len(fn.Blocks) == 0 {
		return seen
	}
	var stack []*ssa.BasicBlock
	stack = append(stack, fn.Blocks[0])
	seen[fn.Blocks[0]] = true
	for len(stack) > 0 {
		b := stack[len(stack)-1]
		stack = stack[:len(stack)-1]
		for si, s := range b.Succs {
			cut := false
			for _, l := range fa.EdgeLits(b, si) {
				for _, g := range o.Gate {
					if g(l) {
						cut = true
					}
				}
				for _, g := range e.p.AlwaysCut {
					if g(l) {
						cut = true
					}
				}
			}
			if cut || seen[s] {
				continue
			}
			seen[s] = true
			stack = append(stack, s)
		}
	}
	// recover blocks are entered on panic only; ignore
	return seen
}

func (e *Effects) walk(env *Env, o WalkOpts, d int) []Effect {
	p := e.p
	fn := env.Fn
	if d > 60 || len(fn.Blocks) == 0 {
		return nil
	}
	key := o.GateID + "!" + env.Key(p, 3)
	if r, ok := e.memo[key]; ok {
		return r
	}
	if e.active[key] {
		return nil
	}
	e.active[key] = true
	defer delete(e.active, key)

	var out []Effect
	blocks := e.unguardedBlocks(fn, o)
	for _, b := range fn.Blocks {
		if !blocks[b] {
			continue
		}
		for _, in := range b.Instrs {
			switch x := in.(type) {
			case *ssa.Panic:
				out = append(out, Effect{Kind: "PANIC", Op: "panic", Site: in})
				continue
			case *ssa.Go:
				out = append(out, Effect{Kind: "SPAWN", Op: "go", Site: in})
				_ = x
			}
			if lk, ok := in.(*ssa.Lookup); ok && p.Name(fn) != "(*mysql.Node).getQuery" {
				if ld, ok := lk.X.(*ssa.UnOp); ok {
					if g, ok := ld.X.(*ssa.Global); ok && g.Name() == "DefaultQueries" {
						kv := e.eval(lk.Index, env, 1)
						rs := "?"
						if len(fn.Params) > 0 && len(env.Params) > 0 && !env.Params[0].Top && len(env.Params[0].Nodes) > 0 {
							rs = strings.Join(keys(env.Params[0].Nodes), "+")
						}
						if kv.Top || len(kv.Strs) == 0 {
							out = append(out, Effect{Kind: "SQL", Op: "?", Key: "?", Recv: rs, Site: in})
						}
						for _, q := range keys(kv.Strs) {
							out = append(out, Effect{Kind: "SQL", Op: q, Key: e.SQLClass(q), Recv: rs, Site: in})
						}
					}
				}
			}
			ci, ok := in.(ssa.CallInstruction)
			if !ok {
				continue
			}
			if prim := e.primitive(ci, env); prim != nil {
				out = append(out, prim...)
				continue
			}
			names := p.CalleeNames(ci)
			stop := false
			for _, n := range names {
				if o.StopAt[n] {
					stop = true
				}
			}
			if stop {
				continue
			}
			for _, cal := range e.calleesOf(ci, env, 0) {
				if !p.InModule(cal.Fn) {
					continue
				}
				sub := e.walk(cal, o, d+1)
				for _, s := range sub {
					ns := s
					ns.Chain = append([]ssa.Instruction{in}, s.Chain...)
					out = append(out, ns)
				}
			}
		}
	}
	out = dedupEffects(out)
	e.memo[key] = out
	return out
}

func dedupEffects(in []Effect) []Effect {
	seen := map[string]bool{}
	var out []Effect
	for _, e := range in {
		k := fmt.Sprintf("%s|%s|%s|%s|%p", e.Kind, e.Op, e.Key, e.Recv, e.Site)
		if len(e.Chain) > 0 {
			k += fmt.Sprintf("|%p", e.Chain[0])
		}
		if seen[k] {
			continue
		}
		seen[k] = true
		out = append(out, e)
	}
	return out
}

var dcsOps = map[string]bool{"Create": true, "CreateEphemeral": true, "Set": true, "SetEphemeral": true, "Delete": true, "Get": true, "GetChildren": true, "GetTree": true, "AcquireLock": true, "ReleaseLock": true}

// primitive recognises primitive effect sites.
func (e *Effects) primitive(ci ssa.CallInstruction, env *Env) []Effect {
	p := e.p
	c := ci.Common()
	// DCS: invoke on the dcs.DCS interface
	if c.IsInvoke() {
		if typeShort(c.Value.Type()) == "dcs.DCS" {
			if !dcsOps[c.Method.Name()] {
				return []Effect{} // IsConnected, WaitConnected, Initialize, Close, SetDisconnectCallback
			}
			kv := e.eval(c.Args[0], env, 1)
			var out []Effect
			if kv.Top || len(kv.Strs) == 0 {
				out = append(out, Effect{Kind: "DCS", Op: c.Method.Name(), Key: "?", Site: ci})
			}
			for _, k := range keys(kv.Strs) {
				out = append(out, Effect{Kind: "DCS", Op: c.Method.Name(), Key: k, Site: ci})
			}
			return out
		}
		return nil
	}
	fn := c.StaticCallee()
	if fn == nil {
		if b, ok := c.Value.(*ssa.Builtin); ok && b.Name() == "panic" {
			return []Effect{{Kind: "PANIC", Op: "panic", Site: ci}}
		}
		return nil
	}
	name := p.Name(fn)
	switch name {
	case "(*mysql.Node).getQuery":
		recv := e.eval(c.Args[0], env, 1)
		qv := e.eval(c.Args[1], env, 1)
		rs := "?"
		if !recv.Top && len(recv.Nodes) > 0 {
			rs = strings.Join(keys(recv.Nodes), "+")
		}
		var out []Effect
		if qv.Top || len(qv.Strs) == 0 {
			out = append(out, Effect{Kind: "SQL", Op: "?", Key: "?", Recv: rs, Site: ci})
		}
		for _, q := range keys(qv.Strs) {
			if q == "" {
				continue
			}
			out = append(out, Effect{Kind: "SQL", Op: q, Key: e.SQLClass(q), Recv: rs, Site: ci})
		}
		return out
	case "os.WriteFile", "os.Remove", "os.Stat":
		kv := e.eval(c.Args[0], env, 1)
		op := strings.ToLower(strings.TrimPrefix(name, "os."))
		var out []Effect
		if kv.Top || len(kv.Strs) == 0 {
			out = append(out, Effect{Kind: "FILE", Op: op, Key: "?", Site: ci})
		}
		for _, k := range keys(kv.Strs) {
			out = append(out, Effect{Kind: "FILE", Op: op, Key: k, Site: ci})
		}
		return out
	case "os/exec.Command", "os/exec.CommandContext":
		return []Effect{{Kind: "EXEC", Op: "exec", Site: ci}}
	}
	// direct use of DefaultQueries[const] (getRunningQueryIDs)
	return nil
}

// DefaultQueriesLookups finds direct `DefaultQueries[name]` reads outside getQuery
// so that a query executed without going through getQuery is not invisible.
func (e *Effects) DefaultQueriesLookups() map[*ssa.Function][]string {
	out := map[*ssa.Function][]string{}
	for _, fn := range e.p.ModFuncs {
		if fn.Name() == "init" {
			continue
		}
		for _, b := range fn.Blocks {
			for _, in := range b.Instrs {
				lk, ok := in.(*ssa.Lookup)
				if !ok {
					continue
				}
				ld, ok := lk.X.(*ssa.UnOp)
				if !ok {
					continue
				}
				g, ok := ld.X.(*ssa.Global)
				if !ok || g.Name() != "DefaultQueries" {
					continue
				}
				kv := e.eval(lk.Index, e.rootEnv(fn), 1)
				if kv.Top || len(kv.Strs) == 0 {
					out[fn] = append(out[fn], "?")
				}
				out[fn] = append(out[fn], keys(kv.Strs)...)
			}
		}
	}
	return out
}

// ChainString renders the call chain of an effect.
func (e *Effects) ChainString(ef Effect) string {
	var parts []string
	for _, c := range ef.Chain {
		parts = append(parts, e.p.InstrPos(c))
	}
	parts = append(parts, e.p.InstrPos(ef.Site))
	return strings.Join(parts, " → ")
}

var _ = types.Typ

type evalKey struct {
	v    ssa.Value
	env  *Env
	kind byte
}

// eval / elems memoise per (value, environment): the abstract evaluation is a pure
// function of both, and without the memo nested phis make it exponential. A value met
// again while it is being evaluated (a loop-carried phi) contributes nothing on that
// path; results computed below such a cut are not cached.
func (e *Effects) eval(v ssa.Value, env *Env, d int) AbsVal  { return e.memoEval(v, env, d, 0) }
func (e *Effects) elems(v ssa.Value, env *Env, d int) AbsVal { return e.memoEval(v, env, d, 1) }

func (e *Effects) memoEval(v ssa.Value, env *Env, d int, kind byte) AbsVal {
	if v == nil {
		return topVal
	}
	if e.evalMemo == nil {
		e.evalMemo = map[evalKey]AbsVal{}
		e.evalBusy = map[evalKey]bool{}
	}
	k := evalKey{v, env, kind}
	if r, ok := e.evalMemo[k]; ok {
		return r
	}
	if e.evalBusy[k] {
		e.evalCuts++
		return AbsVal{}
	}
	e.evalBusy[k] = true
	before := e.evalCuts
	var r AbsVal
	if kind == 0 {
		r = e.evalRaw(v, env, d)
	} else {
		r = e.elemsRaw(v, env, d)
	}
	delete(e.evalBusy, k)
	if e.evalCuts == before {
		e.evalMemo[k] = r
	}
	return r
}

func isStringValue(v ssa.Value) bool {
	bt, ok := v.Type().Underlying().(*types.Basic)
	return ok && bt.Info()&types.IsString != 0
}

func hasSpecial(m map[string]bool) bool {
	for k := range m {
		if strings.ContainsAny(k, "*$") {
			return true
		}
	}
	return false
}
