package main

import (
	"fmt"

	"golang.org/x/tools/go/ssa"
)

const (
	fnSlaveOffline = "(*app.App).repairSlaveOfflineMode"
	fnOfflinePass  = "(*app.App).repairOfflineMode"
	fnDiskGuard    = "(*app.App).repairReadOnlyOnMaster"
)

func init() {
	register("C17", "other",
		"The per-pass offline-mode policy as gates with operand provenance and comparator orientation, on every CFG path: "+
			"(ON) a replica is brought online only if it is offline, lag <= disable threshold, replication not permanently broken, resetup status and MySQL start-up time were read, and the status is negative and not older than the start-up; "+
			"(OFF) a replica is taken offline for lag only if it is online, the master's state is writable, lag > enable threshold and the zone filter allowed it for (this host, this pass' state map, this pass' pending counts); the pending count of the host's zone is incremented only after the statement succeeded, and the pending map is allocated once per pass outside the host loop; "+
			"(BROKEN) the second offline site requires an online, permanently broken replica and an elapsed cluster-wide interval, after updating the shared timestamp; (UNKNOWN) unknown lag returns before any effect; between the thresholds nothing is reachable; "+
			"(MASTER) the pass brings the master online only when it is not marked and never takes it offline; "+
			"(FILTER) percentage <= 0 → never, >= 100 → always, otherwise the zone filter with both configured values; the zone filter counts non-master hosts of the same zone, offline ones among them, adds the pending count of the SAME zone and the candidate itself and compares with <= the configured percentage.",
		"the floor/percentage float arithmetic (covered by the existing table tests), sequences of passes over time",
		runC17)
	register("C18", "other",
		"The disk-space guard's decision flags, effects and flag key, on every CFG path: "+
			"(FLAGS) 'need read-only' becomes true only for (this host is the master ∧ usage >= critical) or (running semi-sync replicas > 0 ∧ master's semi-sync state known ∧ critical replicas > running − wait count); 'may write' becomes false only for (master ∧ usage > non-critical) or (running > 0 ∧ no replica at or below non-critical); the three counters count only running semi-sync replicas with a disk report; "+
			"(EFFECTS) the forced read-only needs 'need read-only' and is skipped only when already read-only with the matching super flag, its super argument is ¬keep-super-writable; writable again needs ¬need ∧ may-write ∧ currently read-only; otherwise nothing; "+
			"(FLAG-KEY) the low-space key is set to true only after the read-only statement succeeded, to false only after the writable statement succeeded, and has no other daemon writer; "+
			"(CONFIG) validation rejects non-critical > critical, the dynamic default fills 0 with critical, and usage is 0 for an empty report and 100 for used > total.",
		"usage values, sequences of iterations",
		runC18)
}

// constPhiEdges collects the phi edges (transitively through nested phis) that carry the constant `want`.
func constPhiEdges(v ssa.Value, want string) []struct {
	Phi *ssa.Phi
	Idx int
} {
	var out []struct {
		Phi *ssa.Phi
		Idx int
	}
	seen := map[*ssa.Phi]bool{}
	var rec func(x ssa.Value)
	rec = func(x ssa.Value) {
		phi, ok := x.(*ssa.Phi)
		if !ok || seen[phi] {
			return
		}
		seen[phi] = true
		for i, e := range phi.Edges {
			if k, ok := e.(*ssa.Const); ok && k.Value != nil && k.Value.ExactString() == want {
				out = append(out, struct {
					Phi *ssa.Phi
					Idx int
				}{phi, i})
				continue
			}
			rec(e)
		}
	}
	rec(v)
	return out
}

func hasLit(ls []Lit, pat LitPat) bool {
	for _, l := range ls {
		if pat(l) {
			return true
		}
	}
	return false
}

func runC17(c *Check) {
	p := c.p
	S := p.MustFunc(fnSlaveOffline)
	fa := p.FA(S)
	sn := p.Name(S)
	state := func(t *Term) bool { return t.Op == "param" && t.Name == "2" }
	lag := func(t *Term) bool {
		return t.Contains(func(x *Term) bool {
			return x.IsField("ReplicationLag") && x.Args[0].IsField("SlaveState") && state(x.Args[0].Args[0])
		}) && (t.Op == "load" || t.Op == "fieldaddr" || t.Op == "field")
	}
	thr := func(f string) func(*Term) bool {
		return func(t *Term) bool { return p.IsCall(t, "(time.Duration).Seconds") && t.Args[0].IsField(f) }
	}
	hostNode := func(t *Term) bool {
		return p.IsCall(t, "(*mysql.Cluster).Get") && t.Args[1].Op == "param" && t.Args[1].Name == "1"
	}
	offline := func(val bool) LitPat {
		return func(l Lit) bool { return l.Pos == val && l.T.IsField("IsOffline") && state(l.T.Args[0]) }
	}
	broken := func(val bool) LitPat {
		return func(l Lit) bool {
			r := ResultOf(l.T, 0)
			return l.Pos == val && r != nil && p.IsCall(r, "(*app/node_state.NodeState).IsReplicationPermanentlyBroken") && state(r.Args[0])
		}
	}

	c.Rule("C17.ON", func() {
		on := p.Calls(S, "(*mysql.Node).SetOnline")
		c.Req(len(on) == 1, sn, "-", "online-site", "one site brings a replica online", fmt.Sprintf("%d", len(on)))
		for _, ci := range on {
			c.Req(hostNode(p.T(ci.Common().Args[0])), sn, p.InstrPos(ci), "online:node", "the node is this host's", "")
			c.Gate(fa, ci, "online:is-offline", "only an offline replica is brought online", offline(true))
			c.Gate(fa, ci, "online:lag<=disable", "only when lag <= the disable threshold", CmpLit("<=", lag, thr("OfflineModeDisableLag")))
			c.Gate(fa, ci, "online:not-broken", "not when replication is permanently broken", broken(false))
			c.Gate(fa, ci, "online:resetup-status-read", "the resetup status was read", p.NilErr("(*app.App).GetResetupStatus"))
			c.Gate(fa, ci, "online:startup-read", "the start-up time was read", p.NilErr("(*mysql.Node).GetStartupTime"))
			c.Gate(fa, ci, "online:status-negative", "the resetup status is negative", func(l Lit) bool {
				return !l.Pos && l.T.IsField("Status") && ResultOf(l.T.Args[0], 0) != nil && p.IsCall(ResultOf(l.T.Args[0], 0), "(*app.App).GetResetupStatus")
			})
			c.Gate(fa, ci, "online:status-fresh", "the resetup status is not older than the server's start-up", func(l Lit) bool {
				if l.Pos || !p.IsCall(l.T, "(time.Time).Before") {
					return false
				}
				a, b := l.T.Args[0], l.T.Args[1]
				return a.IsField("UpdateTime") && ResultOf(b, 0) != nil && p.IsCall(ResultOf(b, 0), "(*mysql.Node).GetStartupTime")
			})
		}
		for _, g := range p.Calls(S, "(*app.App).GetResetupStatus") {
			c.Req(p.T(g.Common().Args[1]).Op == "param" && p.T(g.Common().Args[1]).Name == "1", sn, p.InstrPos(g), "online:whose-status", "the resetup status is this host's", "")
		}
	})

	offs := p.Calls(S, "(*mysql.Node).SetOffline")
	var lagSite, brokenSite ssa.CallInstruction
	c.Rule("C17.OFF", func() {
		c.Req(len(offs) == 2, sn, "-", "offline-sites", "two sites take a replica offline (lag, permanently broken)", fmt.Sprintf("%d", len(offs)))
		for _, ci := range offs {
			if ok, _ := fa.Gated(ci, p.OK(true, "(app.OfflineModeFilter).CanSetOffline")); ok {
				lagSite = ci
			} else {
				brokenSite = ci
			}
		}
		if lagSite == nil {
			panic(AnchorError{"lag offline site in " + sn})
		}
		ci := lagSite
		c.Req(hostNode(p.T(ci.Common().Args[0])), sn, p.InstrPos(ci), "offline:node", "the node is this host's", "")
		c.Gate(fa, ci, "offline:is-online", "only an online replica is taken offline", offline(false))
		c.Gate(fa, ci, "offline:master-writable", "not while the master is read-only", func(l Lit) bool {
			return !l.Pos && l.T.IsField("IsReadOnly") && l.T.Args[0].Op == "param" && l.T.Args[0].Name == "4"
		})
		c.Gate(fa, ci, "offline:lag>enable", "only when lag > the enable threshold", CmpLit("<", thr("OfflineModeEnableLag"), lag))
		c.Gate(fa, ci, "offline:zone-cap", "only if the zone filter allows it for (host, this pass' state map, this pass' pending counts)", func(l Lit) bool {
			if !l.Pos || !p.IsCall(l.T, "(app.OfflineModeFilter).CanSetOffline") {
				return false
			}
			a := l.T.Args
			par := func(t *Term, i string) bool { return t.Op == "param" && t.Name == i }
			return par(a[1], "1") && par(a[2], "5") && par(a[3], "6")
		})
		// pending[az]++ only after success
		n := 0
		for _, b := range S.Blocks {
			for _, in := range b.Instrs {
				mu, ok := in.(*ssa.MapUpdate)
				if !ok || p.T(mu.Map).Op != "param" || p.T(mu.Map).Name != "6" {
					continue
				}
				n++
				okk := p.IsCall(p.T(mu.Key), "app.getAvailabilityZone") && p.T(mu.Key).Args[0].Op == "param" && p.T(mu.Key).Args[0].Name == "1" && p.T(mu.Key).Args[1].IsField("OfflineModeAZSeparator")
				c.Req(okk, sn, p.InstrPos(mu), "pending:zone-of-host", "the pending count incremented is the host's zone's", "")
				v := p.T(mu.Value)
				c.Req(v.Op == "bin" && v.Name == "+" && v.Args[1].IsConst("1"), sn, p.InstrPos(mu), "pending:+1", "it is incremented by one", "")
				okSucc := func(l Lit) bool {
					return p.NilErr("(*mysql.Node).SetOffline")(l) && callInstr(l) == ci
				}
				c.Gate(fa, mu, "pending:after-success", "the pending count is incremented only after the statement succeeded", okSucc)
			}
		}
		c.Req(n == 1, sn, "-", "pending:update", "one pending-count update", fmt.Sprintf("%d", n))
		// allocated once per pass, outside the loop
		O := p.MustFunc(fnOfflinePass)
		head := loopHead(O)
		var mk *ssa.MakeMap
		for _, b := range O.Blocks {
			for _, in := range b.Instrs {
				if m, ok := in.(*ssa.MakeMap); ok {
					mk = m
					c.Req(head != nil && !head.Dominates(b), p.Name(O), p.InstrPos(m), "pending:allocated-once", "the pending map is allocated once per pass, outside the host loop", "")
				}
			}
		}
		for _, call := range p.Calls(O, fnSlaveOffline) {
			a := call.Common().Args
			c.Req(mk != nil && a[6] == ssa.Value(mk), p.Name(O), p.InstrPos(call), "pending:shared", "every host of the pass receives the same pending map", "")
			c.Req(p.T(a[5]).Op == "param" && p.T(a[5]).Name == "1" && p.T(a[1]).Op == "rangekey" && p.T(a[2]).Op == "rangeval", p.Name(O), p.InstrPos(call), "pass:args", "host, its state and the pass' state map are passed", "")
			c.Req(p.T(a[4]).Op == "lookup" && p.T(a[4]).Args[1].Op == "param" && p.T(a[4]).Args[1].Name == "2", p.Name(O), p.InstrPos(call), "pass:master-state", "the master state examined is the recorded master's", "")
		}
	})

	c.Rule("C17.BROKEN", func() {
		if brokenSite == nil {
			panic(AnchorError{"permanently-broken offline site"})
		}
		ci := brokenSite
		c.Gate(fa, ci, "broken:is-online", "only an online replica", offline(false))
		c.Gate(fa, ci, "broken:is-broken", "only a permanently broken replica", broken(true))
		c.Gate(fa, ci, "broken:interval", "at most one per configured interval cluster-wide", CmpLit("<", func(t *Term) bool { return t.IsField("OfflineModeEnableInterval") }, func(t *Term) bool {
			return p.IsCall(t, "time.Since") && ResultOf(t.Args[0], 0) != nil && p.IsCall(ResultOf(t.Args[0], 0), "(*app.App).GetOrCreateLastShutdownNodeTime")
		}))
		c.Gate(fa, ci, "broken:timestamp-read", "the shared timestamp was read", p.NilErr("(*app.App).GetOrCreateLastShutdownNodeTime"))
		ok, path := fa.PrecededBy(ci, isCallTo(p, "(*app.App).UpdateLastShutdownNodeTime"))
		c.Req(ok, sn, p.InstrPos(ci), "broken:timestamp-updated-first", "the shared timestamp is updated before the replica is taken offline", "path: "+fa.PathString(path))
	})

	c.Rule("C17.UNKNOWN", func() {
		n := 0
		for _, b := range S.Blocks {
			for _, in := range b.Instrs {
				ci, ok := in.(ssa.CallInstruction)
				if !ok || !c.mutatingCall(S, ci) {
					continue
				}
				n++
				c.Gate(fa, ci, nthKey("effect", n)+":has-status", "effects only for hosts with a replica status", func(l Lit) bool {
					return l.T.Op == "isnil" && !l.Pos && l.T.Args[0].IsField("SlaveState") && state(l.T.Args[0].Args[0])
				})
				c.Gate(fa, ci, nthKey("effect", n)+":known-lag", "effects only for a known lag", func(l Lit) bool {
					return l.T.Op == "isnil" && !l.Pos && l.T.Args[0].IsField("ReplicationLag")
				})
			}
		}
		c.Req(n >= 4, sn, "-", "effects", "the pass' effects were found", fmt.Sprintf("%d", n))
		// hysteresis: thresholds are different fields (enable vs disable), so 'between' reaches nothing (follows from ON/OFF/BROKEN)
	})

	c.Rule("C17.MASTER", func() {
		checkMasterOnline(c)
		O := p.MustFunc(fnOfflinePass)
		ofa := p.FA(O)
		isMaster := CmpLit("==", func(t *Term) bool { return t.Op == "rangekey" }, func(t *Term) bool { return t.Op == "param" && t.Name == "2" })
		for _, ci := range p.Calls(O, "(*app.App).repairMasterOfflineMode") {
			c.Gate(ofa, ci, "pass:master-branch", "the master's pass runs for the recorded master", isMaster)
		}
		for _, ci := range p.Calls(O, fnSlaveOffline) {
			c.Gate(ofa, ci, "pass:replica-branch", "the replica policy never runs for the recorded master", func(l Lit) bool { return isMaster(Lit{l.T, !l.Pos}) })
			c.Gate(ofa, ci, "pass:reachable-only", "unreachable hosts are skipped", func(l Lit) bool { return l.Pos && l.T.IsField("PingOk") })
		}
	})

	c.Rule("C17.FILTER", func() {
		N := p.MustFunc("app.NewOfflineModeFilter")
		nfa := p.FA(N)
		nn := p.Name(N)
		pct := func(t *Term) bool { return t.IsField("OfflineModeMaxOfflinePct") }
		for i, r := range Returns(N) {
			t := p.T(r.Results[0])
			k := nthKey("ctor", i+1)
			switch t.Name {
			case "app.neverAllowOfflineFilter":
				c.Gate(nfa, r, k+":never", "percentage <= 0 → never", CmpLit("<=", pct, func(x *Term) bool { return x.IsConst("0") }))
			case "app.alwaysAllowOfflineFilter":
				c.Gate(nfa, r, k+":always", "percentage >= 100 → always", CmpLit("<=", func(x *Term) bool { return x.IsConst("100") }, pct))
				c.Gate(nfa, r, k+":always:positive", "… and not <= 0", CmpLit("<", func(x *Term) bool { return x.IsConst("0") }, pct))
			case "app.azLimitedOfflineFilter":
				al, _ := t.V.(*ssa.Alloc)
				okf := al != nil
				if okf {
					a := p.FieldStores(al, "app.azLimitedOfflineFilter.maxOfflinePct")
					b := p.FieldStores(al, "app.azLimitedOfflineFilter.azSeparator")
					okf = len(a) == 1 && pct(p.T(a[0])) && len(b) == 1 && p.T(b[0]).IsField("OfflineModeAZSeparator")
				}
				c.Req(okf, nn, p.InstrPos(r), k+":zone-filter", "otherwise the zone filter with the configured percentage and separator", "")
			default:
				c.Fail(nn, p.InstrPos(r), k, "one of the three filters", "returns "+t.String())
			}
		}
		for name, want := range map[string]string{"(*app.neverAllowOfflineFilter).CanSetOffline": "false", "(*app.alwaysAllowOfflineFilter).CanSetOffline": "true"} {
			f := p.MustFunc(name)
			for _, r := range Returns(f) {
				c.Req(p.T(r.Results[0]).IsConst(want), name, p.InstrPos(r), "constant", "the trivial filter answers "+want, "")
			}
		}
		Z := p.MustFunc("(*app.azLimitedOfflineFilter).CanSetOffline")
		zfa := p.FA(Z)
		zn := p.Name(Z)
		sameZone := func(l Lit) bool {
			a, b, op, ok := Cmp(l)
			if !ok || op != "==" {
				return false
			}
			z := func(t *Term, who func(*Term) bool) bool { return p.IsCall(t, "app.getAvailabilityZone") && who(t.Args[0]) }
			other := func(t *Term) bool { return t.Op == "rangekey" }
			self := func(t *Term) bool { return t.Op == "param" && t.Name == "1" }
			return (z(a, other) && z(b, self)) || (z(a, self) && z(b, other))
		}
		notMaster := func(l Lit) bool { return !l.Pos && l.T.IsField("IsMaster") && l.T.Args[0].Op == "rangeval" }
		var total, off *Term
		for _, r := range Returns(Z) {
			t := p.T(r.Results[0])
			if t.IsConst("false") {
				c.Gate(zfa, r, "empty-zone", "an empty zone allows nothing", CmpLit("==", func(x *Term) bool { return x.Op == "phi" }, func(x *Term) bool { return x.IsConst("0") }),
					CmpLit("<=", func(x *Term) bool { return x.Op == "phi" }, func(x *Term) bool { return x.IsConst("0") })) // total < 1
				continue
			}
			ca, cb, cop, cok := cmpTerm(t)
			okc := cok && cop == "<=" && cb.IsField("maxOfflinePct")
			c.Req(okc, zn, p.InstrPos(r), "compare", "the answer is 'resulting percentage <= configured percentage'", "is "+t.String())
			if !okc {
				continue
			}
			lhs := ca
			// numerator: offline + pending[zone of host] + 1 ; denominator: total
			var num, den *Term
			lhs.Contains(func(x *Term) bool {
				if x.Op == "bin" && x.Name == "/" {
					num, den = x.Args[0], x.Args[1]
					return true
				}
				return false
			})
			c.Req(num != nil, zn, p.InstrPos(r), "ratio", "a ratio is compared", "")
			if num == nil {
				continue
			}
			plusOne := num.Contains(func(x *Term) bool {
				// (offline + pending) + 1 : the addend of the candidate on top of the sum of the two counts
				return x.Op == "bin" && x.Name == "+" && x.Args[1].IsConst("1") && x.Args[0].Op == "bin" && x.Args[0].Name == "+" &&
					x.Args[0].Contains(func(y *Term) bool { return y.Op == "lookup" })
			})
			pend := num.Contains(func(x *Term) bool {
				return x.Op == "lookup" && x.Args[0].Op == "param" && x.Args[0].Name == "3" && p.IsCall(x.Args[1], "app.getAvailabilityZone") && x.Args[1].Args[0].Op == "param" && x.Args[1].Args[0].Name == "1"
			})
			c.Req(plusOne, zn, p.InstrPos(r), "numerator:+candidate", "the candidate itself is counted", "")
			c.Req(pend, zn, p.InstrPos(r), "numerator:+pending-same-zone", "hosts taken offline earlier in the pass in the SAME zone are counted", "")
			num.Contains(func(x *Term) bool {
				if x.Op == "phi" && len(counterIncs(x)) > 0 {
					off = x
					return true
				}
				return false
			})
			den.Contains(func(x *Term) bool {
				if x.Op == "phi" && len(counterIncs(x)) > 0 {
					total = x
					return true
				}
				return false
			})
		}
		c.Req(total != nil && off != nil, zn, "-", "counters", "total and offline counters flow into the ratio", "")
		if total != nil {
			for i, inc := range counterIncs(total) {
				c.Gate(zfa, inc, nthKey("total", i+1)+":not-master", "the master is not counted", notMaster)
				c.Gate(zfa, inc, nthKey("total", i+1)+":same-zone", "only hosts of the candidate's zone are counted", sameZone)
			}
		}
		if off != nil {
			for i, inc := range counterIncs(off) {
				c.Gate(zfa, inc, nthKey("offline", i+1)+":is-offline", "offline hosts are counted as offline", func(l Lit) bool { return l.Pos && l.T.IsField("IsOffline") && l.T.Args[0].Op == "rangeval" })
				c.Gate(zfa, inc, nthKey("offline", i+1)+":same-zone", "… of the same zone", sameZone)
				c.Gate(zfa, inc, nthKey("offline", i+1)+":not-master", "… not the master", notMaster)
			}
		}
	})
	extraC17(c, S, lagSite)
}

func runC18(c *Check) {
	p := c.p
	G := p.MustFunc(fnDiskGuard)
	fa := p.FA(G)
	gn := p.Name(G)
	node := func(t *Term) bool { return t.Op == "rangeval" }
	usage := func(t *Term) bool {
		return p.IsCall(t, "(app/node_state.DiskState).Usage", "(*app/node_state.DiskState).Usage") && t.Contains(func(x *Term) bool { return x.IsField("DiskState") && node(x.Args[0]) })
	}
	crit := func(t *Term) bool { return t.IsField("CriticalDiskUsage") }
	notCrit := func(t *Term) bool { return t.IsField("NotCriticalDiskUsage") }
	atCritical := CmpLit("<=", crit, usage)
	aboveNonCritical := CmpLit("<", notCrit, usage)
	thisIsMaster := func(ls []Lit) bool {
		return hasLit(ls, func(l Lit) bool { return l.Pos && l.T.IsField("IsMaster") && node(l.T.Args[0]) }) &&
			hasLit(ls, CmpLit("==", func(t *Term) bool { return p.IsCall(t, "(*mysql.Node).Host") && t.Args[0].Op == "param" && t.Args[0].Name == "1" }, func(t *Term) bool { return t.Op == "rangekey" }))
	}
	// the two decision flags are the conditions of the final if-chain
	var needRo, mayWrite ssa.Value
	var forced, writable ssa.CallInstruction
	for _, ci := range p.Calls(G, fnForceRO) {
		forced = ci
	}
	for _, ci := range p.Calls(G, "(*mysql.Node).SetWritable") {
		writable = ci
	}
	if forced == nil || writable == nil {
		panic(AnchorError{"read-only / writable statements in " + gn})
	}
	for _, b := range G.Blocks {
		iff := blockIf(b)
		if iff == nil {
			continue
		}
		if _, ok := iff.Cond.(*ssa.Phi); !ok {
			continue
		}
		if len(constPhiEdges(iff.Cond, "true")) == 0 && len(constPhiEdges(iff.Cond, "false")) == 0 {
			continue
		}
		// needRo: its true edge leads to the forced read-only; mayWrite: its true edge leads to the writable statement
		if pth, _ := fa.ReachFromEdge(b, 0, func(in ssa.Instruction) bool { return in == forced.(ssa.Instruction) }, ReachOpts{}); pth != nil && needRo == nil {
			needRo = iff.Cond
		} else if pth, _ := fa.ReachFromEdge(b, 0, func(in ssa.Instruction) bool { return in == writable.(ssa.Instruction) }, ReachOpts{}); pth != nil && mayWrite == nil {
			mayWrite = iff.Cond
		}
	}
	if needRo == nil || mayWrite == nil {
		panic(AnchorError{"decision flags in " + gn})
	}
	running := func(t *Term) bool { return t.Op == "phi" && len(counterIncs(t)) == 3 }
	_ = running

	c.Rule("C18.FLAGS", func() {
		edges := constPhiEdges(needRo, "true")
		c.Req(len(edges) == 2, gn, "-", "need-ro:assignments", "'need read-only' is set at two places", fmt.Sprintf("%d", len(edges)))
		for i, e := range edges {
			ls := fa.incomingLits(e.Phi.Block(), e.Idx, 0)
			a := thisIsMaster(ls) && hasLit(ls, atCritical)
			b := hasLit(ls, func(l Lit) bool {
				x, y, op, ok := Cmp(l)
				return ok && op == "<" && x.IsConst("0") && y.Op == "phi"
			}) && hasLit(ls, func(l Lit) bool {
				return l.T.Op == "isnil" && !l.Pos && l.T.Args[0].IsField("SemiSyncState") && l.T.Args[0].Args[0].Op == "param" && l.T.Args[0].Args[0].Name == "2"
			}) && hasLit(ls, func(l Lit) bool {
				x, y, op, ok := Cmp(l)
				if !ok || op != "<" {
					return false
				}
				return x.Op == "bin" && x.Name == "-" && x.Args[0].Op == "phi" && x.Args[1].IsField("WaitSlaveCount") && y.Op == "phi"
			})
			var s []string
			for _, l := range ls {
				s = append(s, l.String())
			}
			c.Req(a || b, gn, p.Pos(e.Phi.Pos()), nthKey("need-ro:set", i+1), "'need read-only' is set only for (master ∧ usage >= critical) or (running > 0 ∧ semi-sync state known ∧ critical replicas > running − wait count)", "set under: "+join(s))
		}
		edges = constPhiEdges(mayWrite, "false")
		c.Req(len(edges) == 2, gn, "-", "may-write:assignments", "'may write' is cleared at two places", fmt.Sprintf("%d", len(edges)))
		for i, e := range edges {
			ls := fa.incomingLits(e.Phi.Block(), e.Idx, 0)
			a := thisIsMaster(ls) && hasLit(ls, aboveNonCritical)
			b := hasLit(ls, func(l Lit) bool {
				x, y, op, ok := Cmp(l)
				return ok && op == "<" && x.IsConst("0") && y.Op == "phi"
			}) && hasLit(ls, func(l Lit) bool {
				x, y, op, ok := Cmp(l)
				return ok && op == "==" && ((x.Op == "phi" && y.IsConst("0")) || (y.Op == "phi" && x.IsConst("0")))
			})
			var s []string
			for _, l := range ls {
				s = append(s, l.String())
			}
			c.Req(a || b, gn, p.Pos(e.Phi.Pos()), nthKey("may-write:clear", i+1), "'may write' is cleared only for (master ∧ usage > non-critical) or (running > 0 ∧ no replica at or below non-critical)", "cleared under: "+join(s))
		}
		// counters
		isRunningSemi := []LitPat{
			FieldLit(true, "SemiSync"),
			func(l Lit) bool { return l.T.Op == "isnil" && !l.Pos && l.T.Args[0].IsField("SemiSyncState") && node(l.T.Args[0].Args[0]) },
			func(l Lit) bool { return l.Pos && l.T.IsField("SlaveEnabled") },
			func(l Lit) bool { return l.T.Op == "isnil" && !l.Pos && l.T.Args[0].IsField("SlaveState") && node(l.T.Args[0].Args[0]) },
			CmpLit("==", func(t *Term) bool { return t.IsField("ReplicationState") }, func(t *Term) bool { return t.IsConst("running") }),
			func(l Lit) bool { return l.T.Op == "isnil" && !l.Pos && l.T.Args[0].IsField("DiskState") && node(l.T.Args[0].Args[0]) },
		}
		n := 0
		for _, b := range G.Blocks {
			for _, in := range b.Instrs {
				bo, ok := in.(*ssa.BinOp)
				if !ok || bo.Op.String() != "+" || !p.T(bo.Y).IsConst("1") {
					continue
				}
				if _, isPhi := bo.X.(*ssa.Phi); !isPhi {
					continue
				}
				if h := loopHead(G); h == nil || !h.Dominates(b) {
					continue
				}
				n++
				for j, g := range isRunningSemi {
					c.Gate(fa, bo, fmt.Sprintf("counter@b%d:running-semisync-replica-%d", countIdx(G, bo), j+1), "the counters count only running semi-sync replicas with a disk report", g)
				}
				c.Gate(fa, bo, fmt.Sprintf("counter@b%d:not-this-master", countIdx(G, bo)), "the master itself is not counted as a replica", func(l Lit) bool {
					return (!l.Pos && l.T.IsField("IsMaster") && node(l.T.Args[0])) || (func() bool {
						_, _, op, ok := Cmp(l)
						return ok && op == "!=" && l.T.Args[0] != nil
					}())
				})
			}
		}
		c.Req(n == 3, gn, "-", "counters", "three counters (running, critical, normal)", fmt.Sprintf("%d", n))
		// which counter is which: by their extra gates
		nl, nn2 := 0, 0
		for _, b := range G.Blocks {
			for _, in := range b.Instrs {
				bo, ok := in.(*ssa.BinOp)
				if !ok || bo.Op.String() != "+" || !p.T(bo.Y).IsConst("1") {
					continue
				}
				if _, isPhi := bo.X.(*ssa.Phi); !isPhi {
					continue
				}
				if g, _ := fa.Gated(bo, atCritical); g {
					if g2, _ := fa.Gated(bo, FieldLit(true, "SlaveEnabled")); g2 {
						nl++
					}
				}
				notAbove := func(l Lit) bool { return aboveNonCritical(Lit{l.T, !l.Pos}) }
				notAt := func(l Lit) bool { return atCritical(Lit{l.T, !l.Pos}) }
				g1, _ := fa.Gated(bo, notAbove)
				g2, _ := fa.Gated(bo, notAt)
				if g1 && g2 {
					nn2++
				}
			}
		}
		c.Req(nl == 1, gn, "-", "counter:critical", "one counter counts replicas at critical usage", fmt.Sprintf("%d", nl))
		c.Req(nn2 == 1, gn, "-", "counter:normal", "one counter counts replicas at or below non-critical usage", fmt.Sprintf("%d", nn2))
	})

	isFlag := func(v ssa.Value, val bool) LitPat {
		return func(l Lit) bool { return l.Pos == val && l.T.V == v }
	}
	c.Rule("C18.EFFECTS", func() {
		c.Req(forced.Common().Args[0] == ssa.Value(G.Params[1]) && writable.Common().Args[0] == ssa.Value(G.Params[1]), gn, p.InstrPos(forced), "node", "both statements go to the master node given", "")
		c.Gate(fa, forced, "read-only:needed", "the master is made read-only only when needed", isFlag(needRo, true))
		skipOK := func(l Lit) bool {
			// not (IsReadOnly ∧ keep != IsSuperReadOnly): either writable, or the super flag does not match
			if !l.Pos && l.T.IsField("IsReadOnly") {
				return true
			}
			a, b, op, ok := Cmp(l)
			return ok && op == "==" && ((a.IsField("KeepSuperWritableOnCriticalDiskUsage") && b.IsField("IsSuperReadOnly")) || (b.IsField("KeepSuperWritableOnCriticalDiskUsage") && a.IsField("IsSuperReadOnly")))
		}
		c.Gate(fa, forced, "read-only:not-already", "… and not already read-only with the matching super flag", skipOK)
		sup := p.T(forced.Common().Args[2])
		c.Req(sup.Op == "not" && sup.Args[0].IsField("KeepSuperWritableOnCriticalDiskUsage"), gn, p.InstrPos(forced), "read-only:super-arg", "super-read-only unless configured to keep super users writable", "is "+sup.String())
		// the skip really requires read-only AND matching flag: from the skip return, both hold
		c.Gate(fa, writable, "writable:not-needed", "writable again only when read-only is not needed", isFlag(needRo, false))
		c.Gate(fa, writable, "writable:may-write", "… and the non-critical level is reached", isFlag(mayWrite, true))
		c.Gate(fa, writable, "writable:is-read-only", "… and the master currently is read-only", func(l Lit) bool {
			return l.Pos && l.T.IsField("IsReadOnly") && l.T.Args[0].Op == "param" && l.T.Args[0].Name == "2"
		})
		// nothing else mutating
		n := 0
		for _, b := range G.Blocks {
			for _, in := range b.Instrs {
				ci, ok := in.(ssa.CallInstruction)
				if !ok || !c.mutatingCall(G, ci) {
					continue
				}
				n++
				c.Req(ci == forced || ci == writable || p.siteIs(ci, "(*app.App).SetLowSpace"), gn, p.InstrPos(ci), nthKey("effect", n), "the guard's only effects are the two statements and the flag key", p.CalleeNames(ci)[0])
			}
		}
		// the 'already read-only' skip: a return on the need-read-only side that bypasses the statement
		nskip := 0
		for _, b := range G.Blocks {
			iff := blockIf(b)
			if iff == nil || iff.Cond != needRo {
				continue
			}
			isRet := func(in ssa.Instruction) bool { _, ok := in.(*ssa.Return); return ok }
			bar := func(in ssa.Instruction) bool { return in == forced.(ssa.Instruction) }
			if pth, _ := fa.ReachFromEdge(b, 0, isRet, ReachOpts{Barrier: bar}); pth == nil {
				continue
			}
			nskip++
			// every way from the need-read-only side to the end of the function that bypasses the statement passes both tests
			// (judged on the paths, not on the return instruction: after an inlining the skip shares the function's last return)
			roPat := func(l Lit) bool {
				return l.Pos && l.T.IsField("IsReadOnly") && l.T.Args[0].Op == "param" && l.T.Args[0].Name == "2"
			}
			superPat := func(l Lit) bool {
				a, bb, op, ok := Cmp(l)
				return ok && op == "!=" && ((a.IsField("KeepSuperWritableOnCriticalDiskUsage") && bb.IsField("IsSuperReadOnly")) || (bb.IsField("KeepSuperWritableOnCriticalDiskUsage") && a.IsField("IsSuperReadOnly")))
			}
			pth, _ := fa.ReachFromEdge(b, 0, isRet, ReachOpts{Barrier: bar, Cut: []LitPat{roPat}})
			c.Req(pth == nil, gn, p.InstrPos(iff), nthKey("skip", nskip)+":read-only", "the statement is skipped only if the master already is read-only", "ungated path: "+fa.PathString(pth))
			pth, _ = fa.ReachFromEdge(b, 0, isRet, ReachOpts{Barrier: bar, Cut: []LitPat{superPat}})
			c.Req(pth == nil, gn, p.InstrPos(iff), nthKey("skip", nskip)+":super-flag-matches", "… with the super flag already as configured (super-read-only unless keep-super-writable)", "ungated path: "+fa.PathString(pth))
		}
		// the skip-return needs both conjuncts
		for _, b := range G.Blocks {
			for si := range b.Succs {
				for _, l := range fa.EdgeLits(b, si) {
					a, bb, op, ok := Cmp(l)
					if ok && op == "!=" && (a.IsField("KeepSuperWritableOnCriticalDiskUsage") || bb.IsField("KeepSuperWritableOnCriticalDiskUsage")) {
						c.Gate(fa, b.Instrs[len(b.Instrs)-1], "skip:is-read-only", "the 'already read-only' skip requires the master to be read-only", func(l Lit) bool {
							return l.Pos && l.T.IsField("IsReadOnly") && l.T.Args[0].Op == "param" && l.T.Args[0].Name == "2"
						})
					}
				}
			}
		}
	})

	c.Rule("C18.FLAG-KEY", func() {
		n := 0
		for _, ci := range p.Calls(G, "(*app.App).SetLowSpace") {
			n++
			v := p.T(ci.Common().Args[1])
			if v.IsConst("true") {
				c.Gate(fa, ci, "low-space:true", "the flag is raised only after the read-only statement succeeded", func(l Lit) bool { return p.NilErr(fnForceRO)(l) && callInstr(l) == forced })
			} else if v.IsConst("false") {
				c.Gate(fa, ci, "low-space:false", "the flag is cleared only after the writable statement succeeded", func(l Lit) bool { return p.NilErr("(*mysql.Node).SetWritable")(l) && callInstr(l) == writable })
			} else {
				c.Fail(gn, p.InstrPos(ci), nthKey("low-space", n), "the flag written is a constant", "is "+v.String())
			}
		}
		c.Req(n == 2, gn, "-", "low-space:sites", "the flag is written at two sites", fmt.Sprintf("%d", n))
		// must-reach: success edges reach the flag write
		for _, b := range G.Blocks {
			for si := range b.Succs {
				for _, l := range fa.EdgeLits(b, si) {
					if (p.NilErr(fnForceRO)(l) && callInstr(l) == forced) || (p.NilErr("(*mysql.Node).SetWritable")(l) && callInstr(l) == writable) {
						path, _ := fa.ReachFromEdge(b, si, func(in ssa.Instruction) bool { _, ok := in.(*ssa.Return); return ok }, ReachOpts{Barrier: isCallTo(p, "(*app.App).SetLowSpace")})
						c.Req(path == nil, gn, p.InstrPos(blockIf(b)), "low-space:follows@"+fmt.Sprint(b.Index), "the flag follows the last change on every path", "path: "+fa.PathString(path))
					}
				}
			}
		}
		seen := map[ssa.Instruction]bool{}
		for _, r := range c.DaemonRoots() {
			for _, e := range c.eff.Collect(r.Fn, WalkOpts{}) {
				if dcsWrite(e) && e.Key == "low_space" && !seen[e.Chain[len(e.Chain)-1]] {
					seen[e.Chain[len(e.Chain)-1]] = true
					c.Req(c.chainVia(e, fnDiskGuard), r.Name, p.InstrPos(e.Site), "low-space-writer via "+p.InstrPos(e.Chain[len(e.Chain)-1]), "the flag key is written only by the disk-space guard", "chain: "+c.eff.ChainString(e))
				}
			}
		}
	})

	c.Rule("C18.CONFIG", func() {
		V := p.MustFunc("(*config.Config).Validate")
		vfa := p.FA(V)
		for i, rs := range c.SuccessSites(V, 0, "nil") {
			c.Gate(vfa, rs.At, nthKey("valid", i+1)+":thresholds-ordered", "a configuration is valid only if non-critical <= critical", CmpLit("<=", notCrit, crit))
		}
		D := p.MustFunc("(*config.Config).SetDynamicDefaults")
		dfa := p.FA(D)
		n := 0
		for _, b := range D.Blocks {
			for _, in := range b.Instrs {
				st, ok := in.(*ssa.Store)
				if !ok {
					continue
				}
				if fad, ok := st.Addr.(*ssa.FieldAddr); ok && fieldName(fad.X.Type(), fad.Field) == "config.Config.NotCriticalDiskUsage" {
					n++
					c.Req(crit(p.T(st.Val)), p.Name(D), p.InstrPos(st), "default:value", "the default of the non-critical level is the critical level", "")
					c.Gate(dfa, st, "default:only-if-unset", "the default applies only when the level is unset (0)", CmpLit("==", notCrit, func(t *Term) bool { return t.IsConst("0") }))
				}
			}
		}
		c.Req(n == 1, p.Name(D), "-", "default", "the dynamic default exists", "")
		U := p.MustFunc("(app/node_state.DiskState).Usage")
		ufa := p.FA(U)
		z, h := 0, 0
		for _, r := range Returns(U) {
			t := p.T(r.Results[0])
			switch {
			case t.IsConst("0"):
				z++
				c.Gate(ufa, r, "usage:zero", "usage is 0 only for an empty report", CmpLit("==", func(x *Term) bool { return x.IsField("Total") }, func(x *Term) bool { return x.IsConst("0") }))
			case t.IsConst("100"):
				h++
				c.Gate(ufa, r, "usage:full", "usage is 100 when used exceeds total", CmpLit("<", func(x *Term) bool { return x.IsField("Total") }, func(x *Term) bool { return x.IsField("Used") }))
			}
		}
		c.Req(z == 1 && h == 1, p.Name(U), "-", "usage:guards", "both degenerate reports are guarded", fmt.Sprintf("%d/%d", z, h))
	})
}

func countIdx(fn *ssa.Function, in ssa.Instruction) int { return in.Block().Index }
