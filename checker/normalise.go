package main

// Normalisation by inlining (engine E13). The rules are anchored at the functions of the pinned tree. A later edit that
// extracts a block into a NEW helper moves gates, effects and orderings out of the anchored function although nothing
// about the behaviour changed. Before the program is analysed, every function that is not in the frozen list of the
// pinned tree's functions (baseline_funcs.txt — by construction no rule can name it) is inlined back into its callers
// with the source-level inliner of x/tools (the one gopls uses, semantics-preserving by design), and its declaration is
// dropped once nothing refers to it. The result is handed to the loader as an overlay; /repo is never written. On the
// pinned tree there are no new functions and nothing is normalised. What the inliner cannot reduce (it wraps the callee
// in a function literal) or refuses is left as it is and listed in the evidence.

import (
	"bytes"
	_ "embed"
	"fmt"
	"go/ast"
	"go/parser"
	"go/token"
	"go/types"
	"os"
	"path/filepath"
	"sort"
	"strings"

	"golang.org/x/tools/go/packages"
	"golang.org/x/tools/go/types/typeutil"
	"golang.org/x/tools/refactor/xinline"
)

//go:embed baseline_funcs.txt
var baselineFuncsRaw string

var normaliseNotes []string

// baselineFuncs: key → signature text (parameter and result types, names dropped) of the pinned tree's functions and
// package-level variables ("<pkg>:var <name>" → type text).
func baselineFuncs() map[string]string {
	m := map[string]string{}
	for _, l := range strings.Split(baselineFuncsRaw, "\n") {
		l = strings.TrimSpace(l)
		if l == "" {
			continue
		}
		k, sig, _ := strings.Cut(l, "\t")
		m[k] = sig
	}
	return m
}

// sigText renders a function type without parameter names.
func sigText(ft *ast.FuncType) string {
	fl := func(l *ast.FieldList) string {
		if l == nil {
			return ""
		}
		var out []string
		for _, f := range l.List {
			n := len(f.Names)
			if n == 0 {
				n = 1
			}
			for i := 0; i < n; i++ {
				out = append(out, types.ExprString(f.Type))
			}
		}
		return strings.Join(out, ",")
	}
	return "(" + fl(ft.Params) + ")(" + fl(ft.Results) + ")"
}

type declInfo struct {
	Path string
	Sig  string
}

// declKey: "<pkg dir relative to the module>:<recv>.<name>" from syntax alone.
func declKey(rel string, fd *ast.FuncDecl) string {
	recv := ""
	if fd.Recv != nil && len(fd.Recv.List) == 1 {
		t := fd.Recv.List[0].Type
		if st, ok := t.(*ast.StarExpr); ok {
			t = st.X
		}
		if ix, ok := t.(*ast.IndexExpr); ok {
			t = ix.X
		}
		if id, ok := t.(*ast.Ident); ok {
			recv = id.Name + "."
		}
	}
	return rel + ":" + recv + fd.Name.Name
}

// listDecls parses the non-test Go files under internal/ and cmd/ (syntax only) and returns key → file.
func listDecls(root string) (map[string]declInfo, error) {
	out := map[string]declInfo{}
	fset := token.NewFileSet()
	for _, top := range []string{"internal", "cmd"} {
		err := filepath.Walk(filepath.Join(root, top), func(path string, info os.FileInfo, err error) error {
			if err != nil {
				return err
			}
			if info.IsDir() || !strings.HasSuffix(path, ".go") || strings.HasSuffix(path, "_test.go") {
				return nil
			}
			f, err := parser.ParseFile(fset, path, nil, parser.SkipObjectResolution)
			if err != nil {
				return nil // the loader reports syntax errors
			}
			rel, _ := filepath.Rel(root, filepath.Dir(path))
			for _, d := range f.Decls {
				if fd, ok := d.(*ast.FuncDecl); ok && fd.Body != nil {
					out[declKey(rel, fd)] = declInfo{path, sigText(fd.Type)}
				}
				if gd, ok := d.(*ast.GenDecl); ok && gd.Tok == token.VAR {
					for _, sp := range gd.Specs {
						vs := sp.(*ast.ValueSpec)
						for i, n := range vs.Names {
							ty := ""
							if vs.Type != nil {
								ty = types.ExprString(vs.Type)
							} else if i < len(vs.Values) {
								if cl, ok := vs.Values[i].(*ast.CompositeLit); ok && cl.Type != nil {
									ty = types.ExprString(cl.Type)
								}
							}
							if n.Name != "_" {
								out[rel+":var "+n.Name] = declInfo{path, ty}
							}
						}
					}
				}
			}
			return nil
		})
		if err != nil && !os.IsNotExist(err) {
			return nil, err
		}
	}
	return out, nil
}

// normaliseOverlay computes the overlay; nil when there is nothing to do.
func normaliseOverlay(root string) map[string][]byte {
	if os.Getenv("MYSYNCSA_NO_NORMALISE") != "" {
		return nil
	}
	base := baselineFuncs()
	decls, err := listDecls(root)
	if err != nil || len(base) == 0 {
		return nil
	}
	overlay := map[string][]byte{}
	env := append(os.Environ(), "GOFLAGS=-mod=mod", "GOPROXY=off", "GOWORK=off")
	renamed := renameBack(root, env, base, decls, overlay)
	newFns := map[string]bool{}
	for k := range decls {
		if _, ok := base[k]; !ok && !renamed[k] && !strings.Contains(k, ":var ") {
			newFns[k] = true
		}
	}
	if len(newFns) == 0 {
		if len(overlay) == 0 {
			return nil
		}
		return overlay
	}
	var names []string
	for k := range newFns {
		names = append(names, k)
	}
	sort.Strings(names)
	normaliseNotes = append(normaliseNotes, fmt.Sprintf("functions not in the pinned tree: %s", strings.Join(names, ", ")))
	gaveUp := map[string]bool{}
	for iter := 0; iter < 40; iter++ {
		cfg := &packages.Config{Mode: packages.LoadSyntax | packages.NeedModule, Dir: root, Env: env, Overlay: overlay}
		pkgs, err := packages.Load(cfg, "./internal/...", "./cmd/...")
		if err != nil {
			normaliseNotes = append(normaliseNotes, "normalisation stopped: "+err.Error())
			break
		}
		content := func(path string) []byte {
			if c, ok := overlay[path]; ok {
				return c
			}
			c, _ := os.ReadFile(path)
			return c
		}
		// index new function objects
		type nf struct {
			key  string
			obj  *types.Func
			decl *ast.FuncDecl
			pkg  *packages.Package
			file *ast.File
		}
		var nfs []nf
		bad := false
		for _, pk := range pkgs {
			if len(pk.Errors) > 0 {
				bad = true
				if os.Getenv("MYSYNCSA_DEBUG") != "" {
					fmt.Fprintln(os.Stderr, "normalise: type errors:", pk.Errors)
				}
			}
			for _, f := range pk.Syntax {
				path := pk.Fset.Position(f.Pos()).Filename
				if strings.HasSuffix(path, "_test.go") {
					continue
				}
				rel, _ := filepath.Rel(root, filepath.Dir(path))
				for _, d := range f.Decls {
					fd, ok := d.(*ast.FuncDecl)
					if !ok || fd.Body == nil {
						continue
					}
					k := declKey(rel, fd)
					if newFns[k] && !gaveUp[k] {
						if obj, ok := pk.TypesInfo.Defs[fd.Name].(*types.Func); ok {
							nfs = append(nfs, nf{k, obj, fd, pk, f})
						}
					}
				}
			}
		}
		if bad {
			normaliseNotes = append(normaliseNotes, "normalisation stopped: type errors after an inlining step; the un-normalised tree is analysed")
			return nil
		}
		if len(nfs) == 0 {
			break
		}
		sort.Slice(nfs, func(i, j int) bool { return nfs[i].key < nfs[j].key })
		progressed := false
		for _, fn := range nfs {
			// self-recursive helpers are kept
			rec := false
			ast.Inspect(fn.decl.Body, func(n ast.Node) bool {
				if call, ok := n.(*ast.CallExpr); ok && typeutil.Callee(fn.pkg.TypesInfo, call) == types.Object(fn.obj) {
					rec = true
				}
				return true
			})
			if rec {
				gaveUp[fn.key] = true
				normaliseNotes = append(normaliseNotes, fn.key+": recursive, kept")
				continue
			}
			// one call, anywhere in the module (non-test)
			var callPkg *packages.Package
			var callFile *ast.File
			var theCall *ast.CallExpr
			refs := 0
			for _, pk := range pkgs {
				for id, obj := range pk.TypesInfo.Uses {
					if obj == types.Object(fn.obj) {
						_ = id
						refs++
					}
				}
				if theCall != nil {
					continue
				}
				for _, f := range pk.Syntax {
					if strings.HasSuffix(pk.Fset.Position(f.Pos()).Filename, "_test.go") {
						continue
					}
					ast.Inspect(f, func(n ast.Node) bool {
						if theCall != nil {
							return false
						}
						if call, ok := n.(*ast.CallExpr); ok && typeutil.Callee(pk.TypesInfo, call) == types.Object(fn.obj) {
							// not under go/defer (the inliner would have to literalise)
							theCall, callPkg, callFile = call, pk, f
						}
						return true
					})
				}
			}
			if theCall == nil {
				if refs == 0 {
					// unreferenced: drop the declaration (doc comment included)
					path := fn.pkg.Fset.Position(fn.decl.Pos()).Filename
					c := content(path)
					tf := fn.pkg.Fset.File(fn.decl.Pos())
					start := fn.decl.Pos()
					if fn.decl.Doc != nil {
						start = fn.decl.Doc.Pos()
					}
					s, e := tf.Offset(start), tf.Offset(fn.decl.End())
					nc := append(append([]byte{}, c[:s]...), c[e:]...)
					overlay[path] = nc
					gaveUp[fn.key] = true
					normaliseNotes = append(normaliseNotes, fn.key+": inlined at every call site and dropped")
					progressed = true
					break // positions changed: reload
				}
				gaveUp[fn.key] = true
				normaliseNotes = append(normaliseNotes, fn.key+": still referenced as a value, kept")
				continue
			}
			callerPath := callPkg.Fset.Position(callFile.Pos()).Filename
			calleePath := fn.pkg.Fset.Position(fn.decl.Pos()).Filename
			out, literalized, err := xinline.InlineCall(callPkg.Fset, callPkg.Types, callPkg.TypesInfo, callFile, theCall, content(callerPath),
				fn.pkg.Types, fn.pkg.TypesInfo, fn.decl, content(calleePath))
			if err == nil && !literalized {
				// the inliner's output must parse (a composite literal dropped into an `if` header does not)
				if _, perr := parser.ParseFile(token.NewFileSet(), callerPath, out, parser.SkipObjectResolution); perr != nil {
					err = fmt.Errorf("inlined text does not parse: %v", perr)
				}
			}
			if err != nil || literalized {
				// second chance: the in-place inliner for calls in simple statement positions
				out2, err2 := srcInline(callPkg.Fset, callPkg.TypesInfo, callPkg.Types, callFile, theCall, content(callerPath), fn.pkg.TypesInfo, fn.decl, fn.pkg.Fset)
				if err2 != nil {
					gaveUp[fn.key] = true
					why := "the x/tools inliner could only wrap it in a function literal"
					if err != nil {
						why = err.Error()
					}
					normaliseNotes = append(normaliseNotes, fn.key+": not inlined ("+why+"; in-place inliner: "+err2.Error()+"), kept")
					continue
				}
				out = out2
			}
			if bytes.Equal(out, content(callerPath)) {
				gaveUp[fn.key] = true
				continue
			}
			overlay[callerPath] = out
			progressed = true
			break // reload with the new content
		}
		if !progressed {
			break
		}
	}
	if len(overlay) == 0 {
		return nil
	}
	return overlay
}

// renameBack undoes pure renames: a function (or package-level variable) of the pinned tree that is gone, while exactly
// one declaration that the pinned tree does not have sits in the same package with the same receiver and the same
// signature (variables: the same type), is taken to be that declaration under a new name. Every identifier that resolves
// to the new object is rewritten to the pinned name in the overlay, so the rules (which are keyed by the pinned names)
// analyse the same code. If the guess is wrong the rules simply analyse the other function under the old name and have
// to hold on it; nothing is skipped. Returns the keys that were renamed.
func renameBack(root string, env []string, base map[string]string, decls map[string]declInfo, overlay map[string][]byte) map[string]bool {
	renamed := map[string]bool{}
	group := func(k string) string {
		// "<rel>:<Recv>." or "<rel>:" or "<rel>:var "
		if i := strings.LastIndexAny(k, ". "); i > strings.Index(k, ":") {
			return k[:i+1]
		}
		return k[:strings.Index(k, ":")+1]
	}
	missing := map[string][]string{} // group+sig → pinned keys that are gone
	added := map[string][]string{}
	for k, sig := range base {
		if _, ok := decls[k]; !ok {
			missing[group(k)+"|"+sig] = append(missing[group(k)+"|"+sig], k)
		}
	}
	for k, d := range decls {
		if _, ok := base[k]; !ok {
			added[group(k)+"|"+d.Sig] = append(added[group(k)+"|"+d.Sig], k)
		}
	}
	pairs := map[string]string{} // new key → pinned key
	for g, ms := range missing {
		if as := added[g]; len(ms) == 1 && len(as) == 1 {
			pairs[as[0]] = ms[0]
		}
	}
	if len(pairs) == 0 {
		return renamed
	}
	cfg := &packages.Config{Mode: packages.LoadSyntax | packages.NeedModule, Dir: root, Env: env}
	pkgs, err := packages.Load(cfg, "./internal/...", "./cmd/...")
	if err != nil {
		return renamed
	}
	nameOf := func(k string) string {
		k = k[strings.Index(k, ":")+1:]
		k = strings.TrimPrefix(k, "var ")
		if i := strings.LastIndex(k, "."); i >= 0 {
			k = k[i+1:]
		}
		return k
	}
	type edit struct {
		off, n int
		to     string
	}
	edits := map[string][]edit{}
	var keys []string
	for k := range pairs {
		keys = append(keys, k)
	}
	sort.Strings(keys)
	for _, nk := range keys {
		ok := pairs[nk]
		newName, oldName := nameOf(nk), nameOf(ok)
		// find the object
		var obj types.Object
		for _, pk := range pkgs {
			for id, o := range pk.TypesInfo.Defs {
				if o == nil || id.Name != newName {
					continue
				}
				path := pk.Fset.Position(id.Pos()).Filename
				if path != decls[nk].Path {
					continue
				}
				switch o := o.(type) {
				case *types.Func:
					rel, _ := filepath.Rel(root, filepath.Dir(path))
					recv := ""
					if r := o.Type().(*types.Signature).Recv(); r != nil {
						t := r.Type()
						if pt, isP := t.(*types.Pointer); isP {
							t = pt.Elem()
						}
						if nt, isN := t.(*types.Named); isN {
							recv = nt.Obj().Name() + "."
						}
					}
					if rel+":"+recv+newName == nk {
						obj = o
					}
				case *types.Var:
					if !o.IsField() && o.Parent() == pk.Types.Scope() && strings.Contains(nk, ":var ") {
						obj = o
					}
				}
			}
		}
		if obj == nil {
			continue
		}
		// a method that satisfies an interface method of the module under the new name cannot be renamed alone
		conflict := false
		if f, isF := obj.(*types.Func); isF && f.Type().(*types.Signature).Recv() != nil {
			for _, pk := range pkgs {
				for _, o := range pk.TypesInfo.Defs {
					if m, isM := o.(*types.Func); isM && m != f && m.Name() == newName {
						if r := m.Type().(*types.Signature).Recv(); r != nil && types.IsInterface(r.Type()) {
							conflict = true
						}
					}
				}
			}
		}
		if conflict {
			normaliseNotes = append(normaliseNotes, nk+": looks like "+ok+" renamed, but an interface of the module declares the new name; kept")
			continue
		}
		for _, pk := range pkgs {
			for _, m := range []map[*ast.Ident]types.Object{pk.TypesInfo.Defs, pk.TypesInfo.Uses} {
				for id, o := range m {
					if o == obj {
						tf := pk.Fset.File(id.Pos())
						edits[tf.Name()] = append(edits[tf.Name()], edit{tf.Offset(id.Pos()), len(id.Name), oldName})
					}
				}
			}
		}
		renamed[nk] = true
		normaliseNotes = append(normaliseNotes, nk+": same package, receiver and signature as the pinned tree's "+ok+", which is gone — analysed under the pinned name")
	}
	for path, es := range edits {
		if strings.HasSuffix(path, "_test.go") {
			continue
		}
		c, err := os.ReadFile(path)
		if err != nil {
			continue
		}
		sort.Slice(es, func(i, j int) bool { return es[i].off > es[j].off })
		last := -1
		for _, e := range es {
			if e.off == last {
				continue
			}
			last = e.off
			c = append(append(append([]byte{}, c[:e.off]...), e.to...), c[e.off+e.n:]...)
		}
		overlay[path] = c
	}
	return renamed
}
