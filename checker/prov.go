package main

// Producer provenance (engine E12). The gate rules of the properties decide what happens GIVEN the
// observed state (read-only flags, disk usage, start-up time, lock owner, request record ...). This
// table pins where each of those inputs comes from: for a sink (a field store, a returned value, a
// call argument) the value's term must MENTION every listed source (a field, a callee, a tuple
// position) and must NOT mention any listed look-alike. "Mentions" is containment in the value's
// term (through phis, conversions, comparisons, arithmetic), so re-arranging the expression is
// silent while taking the sibling field, the other tuple position or the look-alike call is not.
// Each line was read against the source; the table is the reference for later changes.

import (
	"fmt"
	"go/types"
	"strings"

	"golang.org/x/tools/go/ssa"
)

type provSpec struct {
	Fn      string   // function (closures included)
	Sink    string   // store:<Type.Field> | ret:<i> | arg:<callee>:<i>
	Must    []string // field names / callee names / "extract#i" / "=field:<F>" (the value IS that field) / "floatdiv"
	MustNot []string
	Why     string
	Props   []string
}

var provTable = []provSpec{
	// read-only flags: collector and statement helper
	{"(*app.App).getNodeState", "store:NodeState.IsReadOnly", []string{"(*mysql.Node).IsReadOnly", "extract#0"}, nil, "read_only is the first answer of the read-only query", []string{"C08", "C10", "C17", "C18"}},
	{"(*app.App).getNodeState", "store:NodeState.IsSuperReadOnly", []string{"(*mysql.Node).IsReadOnly", "extract#1"}, nil, "super_read_only is the second answer", []string{"C08", "C10", "C17", "C18"}},
	{"(*mysql.Node).IsReadOnly", "ret:0", []string{"ReadOnly"}, []string{"SuperReadOnly"}, "first answer = read_only column", []string{"C08", "C10", "C17", "C18"}},
	{"(*mysql.Node).IsReadOnly", "ret:1", []string{"SuperReadOnly"}, []string{"ReadOnly"}, "second answer = super_read_only column", []string{"C08", "C10", "C17", "C18"}},
	{"(*app.App).getNodeState", "store:NodeState.IsOffline", []string{"(*mysql.Node).IsOffline", "extract#0"}, nil, "offline flag from the offline-mode query", []string{"C10", "C17"}},
	{"(*mysql.Node).IsOffline", "ret:0", []string{"OfflineMode"}, nil, "offline flag = offline_mode column", []string{"C10", "C17"}},
	{"(*app.App).getNodeState", "store:NodeState.PingOk", []string{"(*mysql.Node).Ping", "extract#0"}, nil, "reachability is the ping's answer", []string{"C04", "C05", "C08"}},
	{"(*app.App).getNodeState", "store:SemiSyncState.MasterEnabled", []string{"MasterEnabled"}, []string{"SlaveEnabled", "WaitSlaveCount"}, "semi-sync master flag", []string{"C04", "C08", "C18"}},
	{"(*app.App).getNodeState", "store:SemiSyncState.SlaveEnabled", []string{"SlaveEnabled"}, []string{"MasterEnabled", "WaitSlaveCount"}, "semi-sync replica flag", []string{"C04", "C08", "C18"}},
	{"(*app.App).getNodeState", "store:SemiSyncState.WaitSlaveCount", []string{"WaitSlaveCount"}, []string{"MasterEnabled", "SlaveEnabled"}, "ack count the master waits for", []string{"C04", "C08", "C18"}},
	{"(*app.App).getNodeState", "store:MasterState.ExecutedGtidSet", []string{"(*mysql.Node).GTIDExecuted", "ExecutedGtidSet"}, nil, "master position", []string{"C04", "C11"}},
	{"(*app.App).getNodeState", "store:SlaveState.ReplicationLag", []string{"(*mysql.Node).ReplicationLag", "extract#0"}, nil, "replica lag", []string{"C14", "C16", "C17"}},
	// disk usage
	{"(*app.App).getLocalNodeState", "store:DiskState.Used", []string{"(*mysql.Node).GetDiskUsage", "extract#0"}, nil, "used bytes = first answer", []string{"C18"}},
	{"(*app.App).getLocalNodeState", "store:DiskState.Total", []string{"(*mysql.Node).GetDiskUsage", "extract#1"}, nil, "total bytes = second answer", []string{"C18"}},
	{"(*mysql.Node).GetDiskUsage", "ret:0", []string{"Bavail", "Blocks", "Bsize"}, []string{"Bfree"}, "used = total − blocks available to the server's user (root-reserved blocks are not usable by mysqld)", []string{"C18"}},
	{"(*mysql.Node).GetDiskUsage", "ret:1", []string{"Blocks", "Bsize"}, []string{"Bfree", "Bavail"}, "total = block size × blocks", []string{"C18"}},
	{"(app/node_state.DiskState).Usage", "ret:0", []string{"Used", "Total", "floatdiv"}, nil, "percentage computed in floating point (thresholds are fractional)", []string{"C18"}},
	// resetup freshness
	{"(*mysql.Node).GetStartupTime", "ret:0", []string{"time.Unix", "LastStartup"}, []string{"time.UnixMilli", "time.UnixMicro"}, "the start-up query answers in seconds", []string{"C17"}},
	// marker file
	{"(*app.App).doesMaintenanceFileExist", "ret:0", []string{"os.Stat", "isnil"}, []string{"os.IsExist", "os.IsNotExist"}, "the marker exists iff stat succeeds", []string{"C09"}},
	// lock owner identity
	{"(*dcs.zkDCS).getSelfLockOwner", "ret:0", []string{"os.Getpid", "Hostname"}, []string{"os.Getppid"}, "the owner is this host and THIS process", []string{"C03"}},
	// the automatic request
	{"(*app.App).IssueFailover", "store:Switchover.InitiatedAt", []string{"time.Now"}, nil, "the request's age is counted from its filing (the timeout is measured from it)", []string{"C05", "C06"}},
	{"(*app.App).IssueFailover", "store:Switchover.InitiatedBy", []string{"Hostname"}, nil, "filed by this host", []string{"C05", "C06"}},
	// the operator's request
	{"(*app.App).CliSwitch", "store:Switchover.Cause", []string{"=const:manual"}, nil, "an operator's request is marked manual (automatic-only rules — the async escape hatch, the old-master filter — key on the cause)", []string{"C01", "C06", "C09"}},
	{"(*app.App).CliSwitch", "store:Switchover.InitiatedAt", []string{"time.Now"}, nil, "the request's age counts from its filing", []string{"C06"}},
	{"(*app.App).CliSwitch", "store:Switchover.MasterTransition", []string{"=const:failover|switchover"}, nil, "the transition is one of the two known values", []string{"C06", "C09"}},
	{"(*app.App).CliSwitch", "store:Switchover.From", []string{}, []string{"=const:"}, "the from-host is the operator's", []string{"C14"}},
	// loop periods
	{"(*app.App).healthChecker", "arg:time.NewTicker:0", []string{"=field:HealthCheckInterval"}, nil, "health records are refreshed with the configured period", []string{"C05", "C15"}},
	{"(*app.App).recoveryChecker", "arg:time.NewTicker:0", []string{"=field:RecoveryCheckInterval"}, nil, "the recovery protocol runs with the configured period", []string{"C11"}},
	{"(*app.App).Run", "arg:time.NewTicker:0", []string{"=field:TickInterval"}, nil, "the manager loop ticks with the configured period", []string{"C02", "C05"}},
	// session timeout handed to the client, both connect branches
	{"dcs.NewZookeeper", "arg:github.com/go-zookeeper/zk.Connect:1", []string{"=field:SessionTimeout"}, nil, "the negotiated session timeout is the configured one on the TLS and the plain branch alike (ephemeral records disappear within it)", []string{"C15"}},
}

func mentions(p *Prog, t *Term, name string) bool {
	switch {
	case strings.HasPrefix(name, "extract#"):
		idx := strings.TrimPrefix(name, "extract#")
		return t.Contains(func(x *Term) bool { return x.Op == "extract" && x.Name == idx })
	case name == "isnil":
		return t.Contains(func(x *Term) bool {
			return x.Op == "bin" && (x.Name == "==" || x.Name == "!=") && (x.Args[0].IsConst("nil") || x.Args[1].IsConst("nil"))
		})
	case name == "floatdiv":
		ok, any := true, false
		t.Contains(func(x *Term) bool {
			if x.Op == "bin" && x.Name == "/" && x.V != nil {
				any = true
				if bt, isb := x.V.Type().Underlying().(*types.Basic); !isb || bt.Info()&types.IsFloat == 0 {
					ok = false
				}
			}
			return false
		})
		return ok && any
	}
	return t.Contains(func(x *Term) bool {
		if x.IsField(name) {
			return true
		}
		if x.Op == "fieldaddr" && afterDot(x.Name) == name {
			return true
		}
		if x.Op == "call" {
			if x.Name == name || strings.HasSuffix(x.Name, ")."+name) || strings.HasSuffix(x.Name, "."+name) {
				return true
			}
			if x.In != nil {
				if ci, ok := x.In.(ssa.CallInstruction); ok {
					for _, n := range p.CalleeNames(ci) {
						if n == name {
							return true
						}
					}
				}
			}
		}
		return false
	})
}

func (c *Check) provSinks(fn *ssa.Function, sink string) []struct {
	At  ssa.Instruction
	Val ssa.Value
} {
	p := c.p
	type sv = struct {
		At  ssa.Instruction
		Val ssa.Value
	}
	var out []sv
	switch {
	case strings.HasPrefix(sink, "store:"):
		want := strings.TrimPrefix(sink, "store:")
		for _, f := range Closures(fn) {
			for _, b := range f.Blocks {
				for _, in := range b.Instrs {
					st, ok := in.(*ssa.Store)
					if !ok {
						continue
					}
					fa, ok := st.Addr.(*ssa.FieldAddr)
					if !ok {
						continue
					}
					full := fieldName(fa.X.Type(), fa.Field) // pkg.Type.Field
					parts := strings.Split(full, ".")
					if len(parts) >= 2 && parts[len(parts)-2]+"."+parts[len(parts)-1] == want {
						out = append(out, sv{in, st.Val})
					}
				}
			}
		}
	case strings.HasPrefix(sink, "ret:"):
		var idx int
		fmt.Sscanf(strings.TrimPrefix(sink, "ret:"), "%d", &idx)
		for _, rs := range c.RetSites(fn, idx) {
			out = append(out, sv{rs.At, rs.Val})
		}
	case strings.HasPrefix(sink, "arg:"):
		rest := strings.TrimPrefix(sink, "arg:")
		k := strings.LastIndex(rest, ":")
		callee := rest[:k]
		var idx int
		fmt.Sscanf(rest[k+1:], "%d", &idx)
		for _, f := range Closures(fn) {
			for _, ci := range p.Calls(f, callee) {
				if idx < len(ci.Common().Args) {
					out = append(out, sv{ci, ci.Common().Args[idx]})
				}
			}
		}
	}
	return out
}

func checkProducers(c *Check) {
	p := c.p
	n := 0
	for _, sp := range provTable {
		if !contains(sp.Props, c.Prop) {
			continue
		}
		fn := p.MustFunc(sp.Fn)
		sinks := c.provSinks(fn, sp.Sink)
		live := 0
		for i, s := range sinks {
			t := p.T(s.Val)
			// constants on error paths (zero values next to a non-nil error) are not producers
			wantsConst := false
			for _, m := range sp.Must {
				if strings.HasPrefix(m, "=const:") {
					wantsConst = true
				}
			}
			if (t.Op == "const" && !wantsConst) || mentions(p, t, "(*mysql.Node).getTestDiskUsage") {
				continue // getTestDiskUsage: the docker test hook (test_disk_usage_file), one named exception
			}
			if strings.HasPrefix(sp.Sink, "ret:") {
				// a composite returned by value: look at the fields stored into it
				if al := compositeOf(s.Val); al != nil {
					t = &Term{Op: "composite"}
					for _, r := range *al.Referrers() {
						if fa, ok := r.(*ssa.FieldAddr); ok {
							for _, rr := range *fa.Referrers() {
								if st, ok := rr.(*ssa.Store); ok && st.Addr == ssa.Value(fa) {
									t.Args = append(t.Args, p.T(st.Val))
								}
							}
						}
					}
				}
			}
			live++
			n++
			var missing, present []string
			for _, m := range sp.Must {
				if strings.HasPrefix(m, "=field:") {
					if !t.IsField(strings.TrimPrefix(m, "=field:")) {
						missing = append(missing, m)
					}
					continue
				}
				if strings.HasPrefix(m, "=const:") {
					okc := false
					for _, alt := range strings.Split(strings.TrimPrefix(m, "=const:"), "|") {
						if derivesOnly(t, func(x *Term) bool { return x.Op == "const" }) {
							for _, a := range t.Alts() {
								if a.IsConst(alt) {
									okc = true
								}
							}
						}
					}
					// every alternative must be one of the listed constants
					if okc {
						for _, a := range t.Alts() {
							if !contains(strings.Split(strings.TrimPrefix(m, "=const:"), "|"), a.Name) {
								okc = false
							}
						}
					}
					if !okc {
						missing = append(missing, m)
					}
					continue
				}
				if !mentions(p, t, m) {
					missing = append(missing, m)
				}
			}
			for _, m := range sp.MustNot {
				if m == "=const:" {
					if t.Op == "const" {
						present = append(present, "a constant")
					}
					continue
				}
				if mentions(p, t, m) {
					present = append(present, m)
				}
			}
			detail := ""
			if len(missing) > 0 {
				detail += "does not come from " + strings.Join(missing, ", ") + "; "
			}
			if len(present) > 0 {
				detail += "comes from " + strings.Join(present, ", ") + "; "
			}
			c.Req(len(missing) == 0 && len(present) == 0, p.Name(fn), p.InstrPos(s.At), nthKey("prov:"+sp.Sink, i+1), sp.Why+" — the value comes from "+strings.Join(sp.Must, " + ")+ifs(len(sp.MustNot) > 0, ", not from "+strings.Join(sp.MustNot, " / "), ""), detail+"value: "+t.String())
		}
		c.Req(live >= 1, p.Name(fn), "-", "prov:"+sp.Sink+":found", "the producer site exists", fmt.Sprintf("%d sinks", len(sinks)))
	}
	c.Req(n >= 1, "-", "-", "prov:instances", "producer lines for this property are examined", "")
}

func ifs(b bool, x, y string) string {
	if b {
		return x
	}
	return y
}

// compositeOf: v is a load of a local composite literal (returned by value).
func compositeOf(v ssa.Value) *ssa.Alloc {
	ld, ok := v.(*ssa.UnOp)
	if !ok || ld.Op.String() != "*" {
		return nil
	}
	al, ok := ld.X.(*ssa.Alloc)
	if !ok {
		return nil
	}
	return al
}

func init() {
	props := map[string]bool{}
	for _, sp := range provTable {
		for _, p := range sp.Props {
			props[p] = true
		}
	}
	var ps []string
	for p := range props {
		ps = append(ps, p)
	}
	sharedRules = append(sharedRules, sharedRule{
		Suffix: "PRODUCERS",
		Props:  ps,
		Body:   checkProducers,
		Doc:    "(PRODUCERS) provenance of the inputs this property's gates read (checker/prov.go: read-only flags, offline flag, semi-sync state, positions, lag, disk usage and its percentage in floating point, start-up time in seconds, marker-file existence, lock-owner identity, the filed request's age and author, the session timeout handed to the client on both connect branches): each value mentions its listed sources and none of the listed look-alikes",
	})
}
