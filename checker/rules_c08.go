package main

import (
	"fmt"

	"golang.org/x/tools/go/ssa"
)

const (
	fnProbe     = "(*app.App).checkHAReplicasRunning"
	fnForceRO   = "(*mysql.Node).SetReadOnlyWithForce"
	fnSetRO     = "(*mysql.Node).SetReadOnly"
	fnStopOnMas = "(*app.App).stopReplicationOnMaster"
	fnWaitAck   = "(*mysql.Node).IsWaitingSemiSyncAck"
)

func init() {
	register("C08", "other",
		"The lost-coordination handler, over all CFG paths and call chains: "+
			"(CONTAIN) the only statements that change a server are fencing statements (read-only, kill, offline, semi-sync disable) on the LOCAL node; nothing is written to the coordination service; other nodes are only read — so while disconnected it cannot promote, re-point or un-fence anything; "+
			"(GATES) every fencing call is below: not connected, not a single-node cluster, local host is an HA host, fencing not disabled, not (master ∧ live replica group), and not (some replica unreachable ∧ loss younger than the inactivation delay); the loss clock starts only on the 'unreachable' edge and is cleared on the connected and live-group edges; "+
			"(MUST) below those gates every path to a return passes a fence (forced on a master, plain otherwise, both super-read-only); "+
			"(STUCK) a forced read-only that ended with a deadline or lock-wait-timeout error leads to the stuck-commit test, and a positive test leads to offline + semi-sync disable and a second forced read-only; "+
			"(PROBE) a replica counts as live only if it has a replica status, replicates, streams from the local host and (with semi-sync) has the semi-sync replica flag; a host counts as unreachable only on a deadline error; the answers compare the live count with the local wait count (semi-sync) or with all other HA hosts (async), in the right orientation; "+
			"(BACK) the handler leaves for the candidate state exactly when connected.",
		"the delay bound as elapsed time, SQL outcome semantics",
		runC08)
}

var fencingQueries = "set_readonly|set_readonly_no_super|kill_query|enable_offline_mode|semisync_disable"

func runC08(c *Check) {
	p := c.p
	L := p.MustFunc(fnLost)
	fa := p.FA(L)
	name := p.Name(L)

	c.Rule("C08.CONTAIN", func() {
		effs := c.eff.Collect(L, WalkOpts{})
		nf := 0
		for _, e := range effs {
			switch {
			case sqlMutating(e):
				okq := matchAny(e.Op, fencingQueries)
				okr := e.Recv == "local"
				if okq && okr {
					nf++
					continue
				}
				c.Fail(name, p.InstrPos(e.Site), "effect "+e.String(), "while disconnected only fencing statements on the local node are issued", "chain: "+c.eff.ChainString(e))
			case dcsWrite(e):
				c.Fail(name, p.InstrPos(e.Site), "effect "+e.String(), "while disconnected nothing is written to the coordination service", "chain: "+c.eff.ChainString(e))
			case e.Kind == "SQL" && e.Key == "DATA":
				c.Fail(name, p.InstrPos(e.Site), "effect "+e.String(), "while disconnected no data is written", "chain: "+c.eff.ChainString(e))
			}
		}
		c.Req(nf >= 4, name, p.Pos(L.Pos()), "fencing-effects", "the handler can fence the local node (read-only, kill, offline, semi-sync disable)", fmt.Sprintf("%d fencing effects", nf))
		c.Hold(name, p.Pos(L.Pos()), "containment", fmt.Sprintf("%d effects reachable: fencing statements on the local node, reads, files", len(effs)))
	})

	local := func(t *Term) bool { return p.IsCall(t, "(*mysql.Cluster).Local") }
	probeRes := func(idx int, val bool) LitPat {
		return func(l Lit) bool {
			r := ResultOf(l.T, idx)
			return l.Pos == val && r != nil && p.IsCall(r, fnProbe) && local(r.Args[1])
		}
	}
	isMaster := func(val bool) LitPat {
		return func(l Lit) bool {
			return l.Pos == val && l.T.IsField("IsMaster") && p.IsCall(l.T.Args[0], "(*app.App).getLocalNodeState")
		}
	}
	connected := func(val bool) LitPat {
		return func(l Lit) bool { return l.Pos == val && p.IsCall(l.T, "(dcs.DCS).IsConnected") }
	}
	single := CmpLit("==", func(t *Term) bool { return t.Op == "len" && p.IsCall(t.Args[0], "(*mysql.Cluster).HANodeHosts") }, func(t *Term) bool { return t.IsConst("1") })
	notSingle := func(l Lit) bool { return single(Lit{l.T, !l.Pos}) }
	isHA := func(val bool) LitPat {
		return func(l Lit) bool {
			return l.Pos == val && p.IsCall(l.T, "(*mysql.Cluster).IsHAHost") && p.IsCall(l.T.Args[1], "(*mysql.Node).Host") && local(l.T.Args[1].Args[0])
		}
	}
	lossAge := func(t *Term) bool {
		if !p.IsCall(t, "time.Since") {
			return false
		}
		g := t.Args[0]
		return p.IsCall(g, "(*app.Timings).Get") && g.Args[1].IsConst("ZKHALost")
	}
	young := CmpLit("<=", lossAge, func(t *Term) bool { return t.IsField("InactivationDelay") })
	old := func(l Lit) bool { return young(Lit{l.T, !l.Pos}) }

	fenceCalls := p.Calls(L, fnForceRO, fnSetRO, fnStopOnMas)
	c.Rule("C08.GATES", func() {
		c.Req(len(fenceCalls) >= 3, name, "-", "fence-sites", "fencing sites found", fmt.Sprintf("%d", len(fenceCalls)))
		for i, f := range fenceCalls {
			k := func(x string) string { return nthKey("fence:"+afterDot(p.CalleeNames(f)[0]), i+1) + ":" + x }
			// receiver / argument is the local node
			var nodeArg ssa.Value
			if p.siteIs(f, fnStopOnMas) {
				nodeArg = f.Common().Args[1]
			} else {
				nodeArg = f.Common().Args[0]
			}
			c.Req(local(p.T(nodeArg)), name, p.InstrPos(f), k("local"), "the node fenced is the local node", "node is "+p.T(nodeArg).String())
			c.Gate(fa, f, k("disconnected"), "fencing only while not connected", connected(false))
			c.Gate(fa, f, k("not-single"), "no fencing in single-node clusters", notSingle)
			c.Gate(fa, f, k("ha-host"), "no fencing on non-HA hosts", isHA(true))
			c.Gate(fa, f, k("not-disabled"), "no fencing when disabled by configuration", FieldLit(false, "DisableSetReadonlyOnLost"))
			c.Gate(fa, f, k("no-live-group"), "a master with a live replica group is left alone", isMaster(false), probeRes(0, false))
			c.Gate(fa, f, k("delay"), "fencing is postponed only while some replica is unreachable and the loss is younger than the inactivation delay", probeRes(1, false), old)
		}
		n := 0
		for _, ci := range p.Calls(L, "(*app.Timings).SetIfZero", "(*app.Timings).Set") {
			if !p.T(ci.Common().Args[1]).IsConst("ZKHALost") {
				continue
			}
			n++
			c.Req(p.siteIs(ci, "(*app.Timings).SetIfZero"), name, p.InstrPos(ci), nthKey("loss-clock:start", n)+":if-zero", "the loss clock is started only when unset", "")
			c.Gate(fa, ci, nthKey("loss-clock:start", n)+":unreachable", "the loss clock starts only when some replica is unreachable (not merely refusing)", probeRes(1, true))
		}
		c.Req(n >= 1, name, "-", "loss-clock:start", "the loss clock is started", "")
		// cleared on connected and live-group edges
		isClean := func(in ssa.Instruction) bool {
			ci, ok := in.(ssa.CallInstruction)
			return ok && p.siteIs(ci, "(*app.Timings).Clean") && p.T(ci.Common().Args[1]).IsConst("ZKHALost")
		}
		for _, b := range L.Blocks {
			for si := range b.Succs {
				for _, l := range fa.EdgeLits(b, si) {
					what := ""
					if connected(true)(l) {
						what = "connected"
					} else if probeRes(0, true)(l) {
						if ok, _ := fa.Gated(b.Instrs[len(b.Instrs)-1], isMaster(true)); ok {
							what = "live-group"
						}
					}
					if what == "" {
						continue
					}
					path, _ := fa.ReachFromEdge(b, si, func(in ssa.Instruction) bool { _, ok := in.(*ssa.Return); return ok }, ReachOpts{Barrier: isClean})
					c.Req(path == nil, name, p.InstrPos(blockIf(b)), "loss-clock:cleared:"+what, "the loss clock is cleared on the "+what+" edge", "path: "+fa.PathString(path))
				}
			}
		}
	})

	c.Rule("C08.MUST", func() {
		isFence := isCallTo(p, fnForceRO, fnSetRO)
		excuse := []LitPat{connected(true), single, isHA(false), FieldLit(true, "DisableSetReadonlyOnLost"), probeRes(0, true), young}
		path, _ := fa.Reach(func(in ssa.Instruction) bool { _, ok := in.(*ssa.Return); return ok }, ReachOpts{Cut: excuse, Barrier: isFence})
		c.Req(path == nil, name, p.Pos(L.Pos()), "must-fence", "once none of the 'do nothing' conditions holds, every path to a return passes a read-only statement", "path without fence: "+fa.PathString(path))
		// and the live-group excuse applies to a master only: a replica with running group is still fenced
		path2, _ := fa.Reach(func(in ssa.Instruction) bool { _, ok := in.(*ssa.Return); return ok }, ReachOpts{Cut: append([]LitPat{isMaster(true)}, excuse[:4]...), Barrier: isFence, CutEdge: func(b *ssa.BasicBlock, si int) bool {
			for _, l := range fa.EdgeLits(b, si) {
				if young(l) {
					return true
				}
			}
			return false
		}})
		c.Req(path2 == nil, name, p.Pos(L.Pos()), "must-fence:replica", "a replica is fenced whatever the probe says about running replicas", "path: "+fa.PathString(path2))
		for i, f := range p.Calls(L, fnForceRO) {
			c.Gate(fa, f, nthKey("forced", i+1)+":master", "the forced variant (which kills sessions) is used on a master", isMaster(true))
			c.Req(p.T(f.Common().Args[2]).IsConst("true"), name, p.InstrPos(f), nthKey("forced", i+1)+":super", "the fence is super-read-only", "")
		}
		for i, f := range p.Calls(L, fnSetRO) {
			c.Gate(fa, f, nthKey("plain", i+1)+":replica", "the plain variant is used on a replica", isMaster(false))
			c.Req(p.T(f.Common().Args[1]).IsConst("true"), name, p.InstrPos(f), nthKey("plain", i+1)+":super", "the fence is super-read-only", "")
		}
	})

	c.Rule("C08.STUCK", func() {
		ret := func(in ssa.Instruction) bool { _, ok := in.(*ssa.Return); return ok }
		n := 0
		for _, b := range L.Blocks {
			for si := range b.Succs {
				for _, l := range fa.EdgeLits(b, si) {
					switch {
					case p.ErrIs(true, "context.DeadlineExceeded", fnForceRO)(l),
						CmpLit("==", func(t *Term) bool { return t.IsField("Number") }, func(t *Term) bool { return t.IsConst("1205") })(l):
						n++
						path, _ := fa.ReachFromEdge(b, si, ret, ReachOpts{Barrier: isCallTo(p, fnWaitAck)})
						c.Req(path == nil, name, p.InstrPos(blockIf(b)), nthKey("stuck-test-reached", n), "a deadline / lock-wait-timeout result of the forced read-only leads to the stuck-commit test", "path: "+fa.PathString(path))
					case func() bool {
						r := ResultOf(l.T, 0)
						return l.Pos && r != nil && p.IsCall(r, fnWaitAck) && isBoolType(l.T.V.Type())
					}():
						path, _ := fa.ReachFromEdge(b, si, ret, ReachOpts{Barrier: isCallTo(p, fnStopOnMas)})
						c.Req(path == nil, name, p.InstrPos(blockIf(b)), "stuck:offline+disable", "commits stuck on semi-sync ack lead to offline mode + semi-sync disable", "path: "+fa.PathString(path))
					case p.NilErr(fnStopOnMas)(l):
						path, _ := fa.ReachFromEdge(b, si, ret, ReachOpts{Barrier: isCallTo(p, fnForceRO)})
						c.Req(path == nil, name, p.InstrPos(blockIf(b)), "stuck:second-attempt", "after releasing the stuck commits the forced read-only is attempted again", "path: "+fa.PathString(path))
					}
				}
			}
		}
		c.Req(n >= 2, name, "-", "stuck-test-reached", "both the deadline and the lock-wait-timeout results are recognised", fmt.Sprintf("%d", n))
		f := p.MustFunc(fnStopOnMas)
		have := map[string]bool{}
		for _, e := range c.eff.Collect(f, WalkOpts{}) {
			if e.Kind == "SQL" {
				have[e.Op] = true
			}
		}
		c.Req(have["enable_offline_mode"] && have["semisync_disable"], fnStopOnMas, p.Pos(f.Pos()), "effects", "the helper sets offline mode and disables semi-sync", fmt.Sprint(have))
	})

	c.Rule("C08.PROBE", func() { checkProbe(c) })

	c.Rule("C08.BACK", func() {
		for i, r := range Returns(L) {
			k, _ := c.retKind(fa, r, 0)
			if k == "const:Candidate" {
				c.Gate(fa, r, nthKey("to-candidate", i+1), "the handler leaves for the candidate state only when connected", connected(true))
			} else {
				c.Req(k == "const:Lost", name, p.InstrPos(r), nthKey("return", i+1), "the handler answers Lost or Candidate only", "returns "+k)
			}
		}
		for _, b := range L.Blocks {
			for si := range b.Succs {
				for _, l := range fa.EdgeLits(b, si) {
					if connected(true)(l) {
						bad := ""
						for _, r := range Returns(L) {
							pth, _ := fa.ReachFromEdge(b, si, func(in ssa.Instruction) bool { return in == ssa.Instruction(r) }, ReachOpts{})
							if pth != nil {
								if k, _ := c.retKind(fa, r, 0); k != "const:Candidate" {
									bad = p.InstrPos(r) + " returns " + k
								}
							}
						}
						c.Req(bad == "", name, p.InstrPos(blockIf(b)), "connected-edge", "when connected the handler always leaves for the candidate state", bad)
					}
				}
			}
		}
	})
	extraC08(c)
}

// counterIncs returns the `x + 1` instructions feeding a counter phi.
func counterIncs(t *Term) []ssa.Instruction {
	var out []ssa.Instruction
	seen := map[*Term]bool{}
	var rec func(x *Term, d int)
	rec = func(x *Term, d int) {
		if x == nil || seen[x] || d > 6 {
			return
		}
		seen[x] = true
		if x.Op == "phi" {
			for _, a := range x.Args {
				rec(a, d+1)
			}
			return
		}
		if x.Op == "bin" && x.Name == "+" && x.Args[1].IsConst("1") {
			if in, ok := x.V.(ssa.Instruction); ok {
				out = append(out, in)
			}
			rec(x.Args[0], d+1)
		}
	}
	rec(t, 0)
	return out
}

func checkProbe(c *Check) {
	p := c.p
	f := p.MustFunc(fnProbe)
	fa := p.FA(f)
	name := p.Name(f)
	rps := p.Calls(f, "util.RunParallel")
	if len(rps) != 1 {
		panic(AnchorError{"single RunParallel in " + name})
	}
	mc, ok := rps[0].Common().Args[0].(*ssa.MakeClosure)
	if !ok {
		panic(AnchorError{"probe closure in " + name})
	}
	c.Req(p.IsCall(p.T(rps[0].Common().Args[1]), "(*mysql.Cluster).HANodeHosts"), name, p.InstrPos(rps[0]), "probe:over-ha-hosts", "the probe ranges over the HA hosts", "")
	cl := mc.Fn.(*ssa.Function)
	cfa := p.FA(cl)
	cname := p.Name(cl)
	status := func(t *Term) bool {
		r := ResultOf(t, 0)
		return r != nil && p.IsCall(r, "(*mysql.Node).ReplicaStatusWithTimeout")
	}
	sites := c.SuccessSites(cl, 0, "nil")
	c.Req(len(sites) >= 1, cname, "-", "probe-nil", "the probe can succeed", "")
	for i, rs := range sites {
		k := func(x string) string { return nthKey("probe-nil", i+1) + ":" + x }
		c.Gate(cfa, rs.At, k("status-read"), "live only if the replica status was read", p.NilErr("(*mysql.Node).ReplicaStatusWithTimeout"))
		c.Gate(cfa, rs.At, k("is-replica"), "live only if the host has a replica status (is not a master)", func(l Lit) bool {
			return l.T.Op == "isnil" && !l.Pos && status(l.T.Args[0])
		})
		c.Gate(cfa, rs.At, k("running"), "live only if replication is running", func(l Lit) bool {
			return l.Pos && p.IsCall(l.T, "(mysql.ReplicaStatus).ReplicationRunning") && status(l.T.Args[0])
		})
		c.Gate(cfa, rs.At, k("streams-from-local"), "live only if it streams from the local host", CmpLit("==", func(t *Term) bool {
			return p.IsCall(t, "(mysql.ReplicaStatus).GetMasterHost") && status(t.Args[0])
		}, func(t *Term) bool {
			return p.IsCall(t, "(*mysql.Node).Host") && t.Args[0].V == ssa.Value(f.Params[1])
		}))
		c.Gate(cfa, rs.At, k("semi-sync-replica"), "with semi-sync, live only if the semi-sync replica flag is set", FieldLit(false, "SemiSync"), CmpLit("!=", func(t *Term) bool { return t.IsField("SlaveEnabled") }, func(t *Term) bool { return t.IsConst("0") }))
		c.Gate(cfa, rs.At, k("semi-sync-read"), "with semi-sync, the flag was read without error", FieldLit(false, "SemiSync"), p.NilErr("(*mysql.Node).SemiSyncStatus"))
	}
	// answers
	errOf := func(t *Term) bool { return t.Op == "rangeval" && t.Args[0].V == rps[0].(ssa.Value) }
	nRet := 0
	for _, r := range Returns(f) {
		if len(r.Results) != 2 {
			continue
		}
		a0, a1 := p.T(r.Results[0]), p.T(r.Results[1])
		nRet++
		k := func(x string) string { return nthKey("answer", nRet) + ":" + x }
		// #1: unreachable > 0
		// unreachable > 0, in any spelling (0 < n, n >= 1, n != 0, !(n <= 0) …)
		var unreach *Term
		if x, y, op, okc := cmpTerm(a1); okc {
			switch {
			case op == "<" && x.IsConst("0"):
				unreach = y
			case op == "<=" && x.IsConst("1"):
				unreach = y
			case op == "!=" && y.IsConst("0"):
				unreach = x
			case op == "!=" && x.IsConst("0"):
				unreach = y
			}
		}
		ok1 := unreach != nil
		c.Req(ok1, name, p.InstrPos(r), k("unreachable"), "'some replica unreachable' is 'unreachable count > 0'", "is "+a1.String())
		if ok1 {
			incs := counterIncs(unreach)
			c.Req(len(incs) >= 1, name, p.InstrPos(r), k("unreachable:counter"), "the unreachable count is a counter", "")
			for j, in := range incs {
				c.Gate(fa, in, k(nthKey("unreachable:inc", j+1)), "a host counts as unreachable only on a deadline error", func(l Lit) bool {
					return l.Pos && p.IsCall(l.T, "errors.Is") && errOf(l.T.Args[0]) && l.T.Args[1].Op == "global" && l.T.Args[1].Name == "context.DeadlineExceeded"
				})
			}
		}
		if a0.IsConst("false") {
			continue // local semi-sync status unreadable: not live
		}
		// live >= required, in any spelling: normal form required <= live
		reqT, liveT, op0, okc0 := cmpTerm(a0)
		ok0 := okc0 && op0 == "<="
		c.Req(ok0, name, p.InstrPos(r), k("live"), "'live group' is 'live count >= required'", "is "+a0.String())
		if !ok0 {
			continue
		}
		incs := counterIncs(liveT)
		c.Req(len(incs) >= 1, name, p.InstrPos(r), k("live:counter"), "the live count is a counter", "")
		for j, in := range incs {
			c.Gate(fa, in, k(nthKey("live:inc", j+1)), "a host counts as live only if its probe returned nil", func(l Lit) bool {
				return l.T.Op == "isnil" && l.Pos && errOf(l.T.Args[0])
			})
		}
		req := reqT
		semi, _ := fa.Gated(r, FieldLit(true, "SemiSync"))
		if semi {
			okr := req.IsField("WaitSlaveCount") && ResultOf(req.Args[0], 0) != nil && p.IsCall(ResultOf(req.Args[0], 0), "(*mysql.Node).SemiSyncStatus") && ResultOf(req.Args[0], 0).Args[0].V == ssa.Value(f.Params[1])
			c.Req(okr, name, p.InstrPos(r), k("live:required"), "with semi-sync the requirement is the local node's acknowledgement count", "is "+req.String())
		} else {
			okr := req.Op == "bin" && req.Name == "-" && req.Args[0].Op == "len" && p.IsCall(req.Args[0].Args[0], "(*mysql.Cluster).HANodeHosts") && req.Args[1].IsConst("1")
			c.Req(okr, name, p.InstrPos(r), k("live:required"), "without semi-sync the requirement is all other HA hosts", "is "+req.String())
			c.Gate(fa, r, k("live:async-branch"), "the all-replicas requirement is the async branch", FieldLit(false, "SemiSync"))
		}
	}
	c.Req(nRet >= 2, name, "-", "answers", "the probe answers for semi-sync and async", fmt.Sprintf("%d", nRet))
}
