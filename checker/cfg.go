package main

// E3: branch literals, gated reachability with correlated-branch pruning,
// must-reach, success-implies.

import (
	"go/constant"
	"fmt"
	"go/token"
	"go/types"
	"sort"
	"strings"

	"golang.org/x/tools/go/ssa"
)

// Lit is a literal known on a CFG edge: term T is true (Pos) or false.
type Lit struct {
	T   *Term
	Pos bool
}

func (l Lit) String() string {
	if l.Pos {
		return l.T.String()
	}
	return "¬" + l.T.String()
}

type FuncAnalysis struct {
	p        *Prog
	Fn       *ssa.Function
	edgeLits map[*ssa.BasicBlock][2][]Lit
	condKey  map[*ssa.BasicBlock]condKey // tracked conditions (tested more than once)
}

type condKey struct {
	key string
	neg bool
}

func (p *Prog) FA(fn *ssa.Function) *FuncAnalysis {
	if fa, ok := p.fa[fn]; ok {
		return fa
	}
	fa := &FuncAnalysis{p: p, Fn: fn, edgeLits: map[*ssa.BasicBlock][2][]Lit{}, condKey: map[*ssa.BasicBlock]condKey{}}
	p.fa[fn] = fa
	count := map[string]int{}
	keys := map[*ssa.BasicBlock]condKey{}
	for _, b := range fn.Blocks {
		iff := blockIf(b)
		if iff == nil {
			continue
		}
		fa.edgeLits[b] = [2][]Lit{fa.lits(iff.Cond, true, 0), fa.lits(iff.Cond, false, 0)}
		k, neg, ok := pureKey(iff.Cond)
		if ok {
			keys[b] = condKey{k, neg}
			count[k]++
		}
	}
	for b, k := range keys {
		if count[k.key] > 1 {
			fa.condKey[b] = k
		}
	}
	return fa
}

func blockIf(b *ssa.BasicBlock) *ssa.If {
	if len(b.Instrs) == 0 {
		return nil
	}
	iff, _ := b.Instrs[len(b.Instrs)-1].(*ssa.If)
	return iff
}

// pureKey gives a structural identity to a condition built only from immutable
// SSA registers and constants (no memory loads), so that re-evaluations of the
// same source expression are recognised as the same boolean.
func pureKey(v ssa.Value) (key string, neg bool, ok bool) {
	switch x := v.(type) {
	case *ssa.UnOp:
		if x.Op == token.NOT {
			k, n, ok := pureKey(x.X)
			return k, !n, ok
		}
		return "", false, false // loads are impure
	case *ssa.BinOp:
		a, ok1 := pureOperand(x.X)
		b, ok2 := pureOperand(x.Y)
		if !ok1 || !ok2 {
			return "", false, false
		}
		op := x.Op
		switch op {
		case token.NEQ:
			return "==" + "|" + a + "|" + b, true, true
		case token.EQL:
			return "==" + "|" + a + "|" + b, false, true
		}
		return op.String() + "|" + a + "|" + b, false, true
	case *ssa.Const:
		return "", false, false
	}
	s, ok := pureOperand(v)
	return s, false, ok
}

func pureOperand(v ssa.Value) (string, bool) {
	switch x := v.(type) {
	case *ssa.Const:
		if x.Value == nil {
			return "nil", true
		}
		return "c:" + x.Value.ExactString(), true
	case *ssa.UnOp:
		if x.Op == token.MUL {
			return "", false
		}
		k, n, ok := pureKey(x)
		if n {
			k = "!" + k
		}
		return k, ok
	case *ssa.BinOp:
		k, n, ok := pureKey(x)
		if n {
			k = "!" + k
		}
		return "(" + k + ")", ok
	case *ssa.Call:
		// errors.Is over immutable operands is a pure function: re-evaluations agree
		if fn := x.Call.StaticCallee(); fn != nil && fn.String() == "errors.Is" && len(x.Call.Args) == 2 {
			a, ok1 := pureOperand(x.Call.Args[0])
			b, ok2 := pureOperand(x.Call.Args[1])
			if !ok2 {
				if ld, ok := x.Call.Args[1].(*ssa.UnOp); ok && ld.Op == token.MUL {
					if g, ok := ld.X.(*ssa.Global); ok && stableGlobal(g) {
						b, ok2 = "g:"+g.String(), true
					}
				}
			}
			if ok1 && ok2 {
				return "errors.Is(" + a + "," + b + ")", true
			}
		}
		return fmt.Sprintf("%p", v), true
	case *ssa.Parameter, *ssa.Extract, *ssa.Phi, *ssa.Lookup, *ssa.Field, *ssa.Index, *ssa.TypeAssert, *ssa.MakeInterface, *ssa.Convert, *ssa.ChangeType, *ssa.Slice, *ssa.Alloc, *ssa.FreeVar, *ssa.Function, *ssa.Global, *ssa.MakeClosure, *ssa.Next:
		return fmt.Sprintf("%p", v), true
	}
	return "", false
}

// lits decomposes "cond has truth value `truth`" into normalised literals, saturated with their equivalent spellings.
func (fa *FuncAnalysis) lits(cond ssa.Value, truth bool, depth int) []Lit {
	return fa.saturate(fa.lits0(cond, truth, depth))
}

// derivedLits marks literals added by saturate (equivalent spellings); reports print only the literals as written.
var derivedLits = map[*Term]bool{}

func intConst(t *Term) (int64, bool) {
	if t == nil || t.Op != "const" {
		return 0, false
	}
	if c, ok := t.V.(*ssa.Const); ok && c.Value != nil && c.Value.Kind() == constant.Int {
		if bt, isb := c.Type().Underlying().(*types.Basic); isb && bt.Info()&types.IsInteger != 0 {
			v, exact := constant.Int64Val(c.Value)
			return v, exact
		}
	}
	return 0, false
}

func isStringTerm(t *Term) bool {
	if t == nil || t.V == nil {
		return false
	}
	bt, ok := t.V.Type().Underlying().(*types.Basic)
	return ok && bt.Info()&types.IsString != 0
}

func isIntTerm(t *Term) bool {
	if t == nil {
		return false
	}
	if t.Op == "len" {
		return true
	}
	if t.V == nil {
		return false
	}
	bt, ok := t.V.Type().Underlying().(*types.Basic)
	return ok && bt.Info()&types.IsInteger != 0
}

// saturate adds, for every comparison literal, the other spellings of the same fact: swapped operands of == / !=,
// ¬(a<b) as b<=a, integer bounds shifted by one (x > 0 ⇔ x >= 1, len(x) < 1 ⇔ len(x) == 0), emptiness of a string as
// its length, and slices.Index(s, v) >= 0 as slices.Contains(s, v). All added literals are equivalent to one already
// present, so a gate that holds with them holds without them; rules can then name ONE spelling.
func (fa *FuncAnalysis) saturate(in []Lit) []Lit {
	seen := map[string]bool{}
	key := func(l Lit) string { return fmt.Sprint(l.Pos) + l.T.str(12) }
	out := []Lit{}
	for _, l := range in {
		if l.T == nil {
			continue
		}
		seen[key(l)] = true
		out = append(out, l)
	}
	mkConst := func(like *Term, v int64) *Term {
		var ty types.Type = types.Typ[types.Int]
		if like != nil && like.V != nil {
			ty = like.V.Type()
		}
		c := ssa.NewConst(constant.MakeInt64(v), ty)
		return &Term{Op: "const", Name: fmt.Sprint(v), V: c}
	}
	mkStr := func() *Term {
		c := ssa.NewConst(constant.MakeString(""), types.Typ[types.String])
		return &Term{Op: "const", Name: "", V: c}
	}
	for round := 0; round < 4; round++ {
		var add []Lit
		push := func(op string, a, b *Term, pos bool, at ssa.Value) {
			t := &Term{Op: op, Args: []*Term{a, b}, V: at}
			l := Lit{t, pos}
			if k := key(l); !seen[k] {
				seen[k] = true
				derivedLits[t] = true
				add = append(add, l)
			}
		}
		for _, l := range out {
			// slices.Index(s, v) compared with 0 / -1
			a, b, op, ok := Cmp(l)
			if !ok {
				continue
			}
			at := l.T.V
			switch op {
			case "==", "!=":
				pos := op == "=="
				push("eq", b, a, pos, at)
				// x == !y  ⇔  x != y
				if b.Op == "not" && len(b.Args) == 1 {
					push("eq", a, b.Args[0], !pos, at)
				}
				if a.Op == "not" && len(a.Args) == 1 {
					push("eq", a.Args[0], b, !pos, at)
				}
				for _, pr := range [][2]*Term{{a, b}, {b, a}} {
					x, k := pr[0], pr[1]
					if nonNegTerm(x) && k.IsConst("0") {
						// len(x) == 0  ⇔  ¬(0 < len(x))  ⇔  len(x) <= 0 ⇔ len(x) < 1
						push("lt", k, x, !pos, at)
						push("lt", x, mkConst(k, 1), pos, at)
						if x.Op == "len" && len(x.Args) == 1 && isStringTerm(x.Args[0]) {
							push("eq", x.Args[0], mkStr(), pos, at)
						}
					}
					if isStringTerm(x) && x.Op != "const" && k.Op == "const" && k.Name == "" && isStringTerm(k) {
						ln := &Term{Op: "len", Args: []*Term{x}}
						push("eq", ln, mkConst(nil, 0), pos, at)
					}
					if fa.p.IsCall(x, "slices.Index") && len(x.Args) == 2 {
						if v, isInt := intConst(k); isInt && v == -1 {
							ct := &Term{Op: "call", Name: "slices.Contains", Args: x.Args, Call: x.Call, V: at}
							l2 := Lit{ct, !pos}
							if kk := key(l2); !seen[kk] {
								seen[kk] = true
								derivedLits[ct] = true
								add = append(add, l2)
							}
						}
					}
				}
			case "<", "<=":
				// a < b ⇔ ¬(b <= a);  a <= b ⇔ ¬(b < a)
				if op == "<" {
					push("lt", a, b, true, at)
					push("le", b, a, false, at)
				} else {
					push("le", a, b, true, at)
					push("lt", b, a, false, at)
				}
				if v, isInt := intConst(a); isInt && isIntTerm(b) {
					if op == "<" { // c < b ⇔ c+1 <= b
						push("le", mkConst(a, v+1), b, true, at)
					} else { // c <= b ⇔ c-1 < b
						push("lt", mkConst(a, v-1), b, true, at)
					}
				}
				if v, isInt := intConst(b); isInt && isIntTerm(a) {
					if op == "<" { // a < c ⇔ a <= c-1
						push("le", a, mkConst(b, v-1), true, at)
					} else { // a <= c ⇔ a < c+1
						push("lt", a, mkConst(b, v+1), true, at)
					}
				}
				// 0 < len(x) ⇔ len(x) != 0 ;  len(x) <= 0 ⇔ len(x) == 0 (a length is never negative)
				if op == "<" && a.IsConst("0") && nonNegTerm(b) {
					push("eq", b, a, false, at)
				}
				if op == "<=" && b.IsConst("0") && nonNegTerm(a) {
					push("eq", a, b, true, at)
				}
				// 0 <= slices.Index(s, v) ⇔ slices.Contains(s, v);  slices.Index(s, v) < 0 ⇔ ¬Contains
				for _, pr := range []struct {
					x, k *Term
					pos  bool
				}{{b, a, true}, {a, b, false}} {
					x, k := pr.x, pr.k
					if fa.p.IsCall(x, "slices.Index") && len(x.Args) == 2 {
						v, isInt := intConst(k)
						hit := false
						if pr.pos { // k (<|<=) Index
							hit = isInt && ((op == "<=" && v == 0) || (op == "<" && v == -1))
						} else { // Index (<|<=) k
							hit = isInt && ((op == "<" && v == 0) || (op == "<=" && v == -1))
						}
						if hit {
							ct := &Term{Op: "call", Name: "slices.Contains", Args: x.Args, Call: x.Call, V: at}
							l2 := Lit{ct, pr.pos}
							if kk := key(l2); !seen[kk] {
								seen[kk] = true
								derivedLits[ct] = true
								add = append(add, l2)
							}
						}
					}
				}
			}
		}
		if len(add) == 0 {
			break
		}
		out = append(out, add...)
	}
	return out
}

func (fa *FuncAnalysis) lits0(cond ssa.Value, truth bool, depth int) []Lit {
	p := fa.p
	if depth > 6 {
		return nil
	}
	switch x := cond.(type) {
	case *ssa.UnOp:
		if x.Op == token.NOT {
			return fa.lits0(x.X, !truth, depth+1)
		}
	case *ssa.Const:
		return nil
	case *ssa.BinOp:
		a, b := p.T(x.X), p.T(x.Y)
		switch x.Op {
		case token.EQL, token.NEQ:
			eq := (x.Op == token.EQL) == truth
			if b.IsConst("nil") {
				return append([]Lit{{&Term{Op: "isnil", Args: []*Term{a}, V: x}, eq}}, fa.nonNilPhi(x.X, x, eq)...)
			}
			if a.IsConst("nil") {
				return append([]Lit{{&Term{Op: "isnil", Args: []*Term{b}, V: x}, eq}}, fa.nonNilPhi(x.Y, x, eq)...)
			}
			if out := fa.phiConstCmp(x, eq, depth); out != nil {
				return append([]Lit{{&Term{Op: "eq", Args: []*Term{a, b}, V: x}, eq}}, out...)
			}
			if b.IsConst("true") {
				return fa.lits0(x.X, eq, depth+1)
			}
			if b.IsConst("false") {
				return fa.lits0(x.X, !eq, depth+1)
			}
			return []Lit{{&Term{Op: "eq", Args: []*Term{a, b}, V: x}, eq}}
		case token.LSS:
			return []Lit{{&Term{Op: "lt", Args: []*Term{a, b}, V: x}, truth}}
		case token.LEQ:
			return []Lit{{&Term{Op: "le", Args: []*Term{a, b}, V: x}, truth}}
		case token.GTR:
			return []Lit{{&Term{Op: "lt", Args: []*Term{b, a}, V: x}, truth}}
		case token.GEQ:
			return []Lit{{&Term{Op: "le", Args: []*Term{b, a}, V: x}, truth}}
		}
	case *ssa.Phi:
		// materialised && / ||: value true with all-but-one edges constant false
		// (resp. false with all-but-one constant true) pins the remaining edge.
		out := []Lit{{p.T(x), truth}}
		var other ssa.Value
		otherIdx := -1
		n := 0
		for i, e := range x.Edges {
			if c, ok := e.(*ssa.Const); ok && c.Value != nil && c.Value.ExactString() == fmt.Sprint(!truth) {
				continue
			}
			other = e
			otherIdx = i
			n++
		}
		// only for a materialised short-circuit (the phi of an `a && b` / `a || b` value): there the test of the phi IS the
		// source condition. A flag variable assigned earlier (e.g. the result slot of an inlined helper) is re-tested, not
		// tested: its edges get no implied literals — the path search remembers the flag's value instead (see Reach).
		if n == 1 && x.Block().Comment == "binop.done" {
			out = append(out, fa.lits0(other, truth, depth+1)...)
			out = append(out, fa.incomingLits(x.Block(), otherIdx, depth+1)...)
		}
		return out
	}
	// a boolean parameter of a function with a single call site IS the caller's argument (`f(host, state.IsOffline)`)
	if prm, ok := cond.(*ssa.Parameter); ok && isBoolType(prm.Type()) && depth < 4 {
		if arg, caller := fa.p.uniqueCallArg(prm); arg != nil {
			return append([]Lit{{p.T(cond), truth}}, fa.p.FA(caller).lits0(arg, truth, depth+2)...)
		}
	}
	return []Lit{{p.T(cond), truth}}
}

// uniqueCallArg: the argument bound to prm at the only (static, in-module) call site of its function.
func (p *Prog) uniqueCallArg(prm *ssa.Parameter) (ssa.Value, *ssa.Function) {
	fn := prm.Parent()
	if fn == nil || p.CG == nil {
		return nil, nil
	}
	node := p.CG.Nodes[fn]
	if node == nil || len(node.In) != 1 {
		return nil, nil
	}
	site := node.In[0].Site
	if site == nil || site.Common().StaticCallee() != fn {
		return nil, nil
	}
	for i, q := range fn.Params {
		if q == prm && i < len(site.Common().Args) {
			return site.Common().Args[i], site.Parent()
		}
	}
	return nil, nil
}

// incomingLits: literals that hold when block b is entered through predecessor #pi.
func (fa *FuncAnalysis) incomingLits(b *ssa.BasicBlock, pi int, depth int) []Lit {
	pred := b.Preds[pi]
	out := fa.controlLits(pred, depth)
	if iff := blockIf(pred); iff != nil && len(pred.Succs) == 2 && pred.Succs[0] != pred.Succs[1] {
		for si, s := range pred.Succs {
			if s == b {
				out = append(out, fa.lits(iff.Cond, si == 0, depth+1)...)
			}
		}
	}
	return out
}

// phiConstCmp: `phi(c1..cn) == c` (all constants): the comparison is decided by the
// edge through which the phi's block was entered, so it implies that edge's literals.
func (fa *FuncAnalysis) phiConstCmp(x *ssa.BinOp, eq bool, depth int) []Lit {
	phi, ok := x.X.(*ssa.Phi)
	k, ok2 := x.Y.(*ssa.Const)
	if !ok || !ok2 {
		phi, ok = x.Y.(*ssa.Phi)
		k, ok2 = x.X.(*ssa.Const)
		if !ok || !ok2 {
			return nil
		}
	}
	if k.Value == nil {
		return nil
	}
	var match []int
	for i, e := range phi.Edges {
		c, ok := e.(*ssa.Const)
		if !ok || c.Value == nil {
			return nil
		}
		if (c.Value.ExactString() == k.Value.ExactString()) == eq {
			match = append(match, i)
		}
	}
	if len(match) != 1 {
		return nil
	}
	return fa.incomingLits(phi.Block(), match[0], depth+1)
}

// controlLits: literals that hold whenever block b is reached (conditions of
// dominating branches whose taken successor dominates b and has a single predecessor).
func (fa *FuncAnalysis) controlLits(b *ssa.BasicBlock, depth int) []Lit {
	var out []Lit
	cur := b
	for cur != nil {
		d := cur.Idom()
		if d == nil {
			break
		}
		if iff := blockIf(d); iff != nil {
			for si, s := range d.Succs {
				if s == cur && len(cur.Preds) == 1 && d.Succs[0] != d.Succs[1] {
					out = append(out, fa.lits(iff.Cond, si == 0, depth+1)...)
				}
			}
		}
		cur = d
	}
	return out
}

// EdgeLits returns the literals known on successor edge si of block b.
func (fa *FuncAnalysis) EdgeLits(b *ssa.BasicBlock, si int) []Lit {
	if l, ok := fa.edgeLits[b]; ok && si < 2 {
		return l[si]
	}
	return nil
}

// LitPat matches a literal.
type LitPat func(Lit) bool

type ReachOpts struct {
	Cut        []LitPat                              // edges carrying a matching literal are deleted
	CutEdge    func(b *ssa.BasicBlock, si int) bool  // additional deleted edges
	Barrier    func(in ssa.Instruction) bool         // executing this instruction ends the path
	Start      *ssa.BasicBlock                       // default: entry
	StartIdx   int
	StartKnown map[string]bool // initial valuation of tracked conditions
	NoPrune    bool
}

type pathStep struct {
	B  *ssa.BasicBlock
	Si int // successor index taken to leave B (-1 for the last)
}

// Reach searches for a path from the start to an instruction satisfying target.
// It returns the path (blocks with the successor taken) when one exists.
func (fa *FuncAnalysis) Reach(target func(ssa.Instruction) bool, o ReachOpts) ([]pathStep, ssa.Instruction) {
	fn := fa.Fn
	if len(fn.Blocks) == 0 {
		return nil, nil
	}
	start := o.Start
	if start == nil {
		start = fn.Blocks[0]
	}
	type state struct {
		b   *ssa.BasicBlock
		key string
	}
	visited := map[state]bool{}
	var path []pathStep
	var found ssa.Instruction

	encode := func(m map[string]bool) string {
		if len(m) == 0 {
			return ""
		}
		ks := make([]string, 0, len(m))
		for k, v := range m {
			ks = append(ks, fmt.Sprintf("%s=%v", k, v))
		}
		sort.Strings(ks)
		return strings.Join(ks, ";")
	}
	cutEdge := func(b *ssa.BasicBlock, si int) bool {
		if o.CutEdge != nil && o.CutEdge(b, si) {
			return true
		}
		for _, l := range fa.EdgeLits(b, si) {
			for _, c := range o.Cut {
				if c(l) {
					return true
				}
			}
			for _, c := range fa.p.AlwaysCut {
				if c(l) {
					return true
				}
			}
		}
		return false
	}
	var dfs func(b *ssa.BasicBlock, idx int, known map[string]bool) bool
	dfs = func(b *ssa.BasicBlock, idx int, known map[string]bool) bool {
		if idx == 0 {
			st := state{b, encode(known)}
			if visited[st] {
				return false
			}
			visited[st] = true
		}
		for i := idx; i < len(b.Instrs); i++ {
			in := b.Instrs[i]
			if target(in) {
				found = in
				path = append(path, pathStep{b, -1})
				return true
			}
			if o.Barrier != nil && o.Barrier(in) {
				return false
			}
		}
		for si, s := range b.Succs {
			if cutEdge(b, si) {
				continue
			}
			if iff := blockIf(b); iff != nil {
				if cv, ok := constBool(iff.Cond); ok && (si == 0) != cv {
					continue // branch on a constant: the other edge is dead
				}
				// a flag whose value on this path is known
				cond, neg := iff.Cond, false
				if u, ok := cond.(*ssa.UnOp); ok && u.Op == token.NOT {
					cond, neg = u.X, true
				}
				if ph, ok := cond.(*ssa.Phi); ok && !o.NoPrune {
					if v, ok := known["φ"+ph.Name()]; ok && ((si == 0) != (v != neg)) {
						continue
					}
					// a boolean temporary (`x := a && b; …; if x`): on this path the phi IS the value that came in through
					// the edge taken, so the test carries that value's literals
					cut := false
					for pi, e := range ph.Edges {
						if known[fmt.Sprintf("π%s#%d", ph.Name(), pi)] {
							for _, l := range fa.lits(e, (si == 0) != neg, 1) {
								for _, c := range o.Cut {
									cut = cut || c(l)
								}
								for _, c := range fa.p.AlwaysCut {
									cut = cut || c(l)
								}
							}
						}
					}
					if cut {
						continue
					}
				}
				// … or a nil test of a pointer/interface slot whose nil-ness on this path is known
				if bo, ok := cond.(*ssa.BinOp); ok && !o.NoPrune && (bo.Op == token.EQL || bo.Op == token.NEQ) {
					var ph *ssa.Phi
					if x, isP := bo.X.(*ssa.Phi); isP && isNilConst(bo.Y) {
						ph = x
					} else if y, isP := bo.Y.(*ssa.Phi); isP && isNilConst(bo.X) {
						ph = y
					}
					if ph != nil {
						if isNil, ok := known["ν"+ph.Name()]; ok {
							condTrue := isNil == (bo.Op == token.EQL)
							if (si == 0) != (condTrue != neg) {
								continue
							}
						}
					}
				}
			}
			nk := known
			if ck, ok := fa.condKey[b]; ok && !o.NoPrune && len(b.Succs) == 2 {
				val := (si == 0) != ck.neg
				if old, seen := known[ck.key]; seen {
					if old != val {
						continue // infeasible: same boolean tested with the other outcome
					}
				} else {
					nk = make(map[string]bool, len(known)+1)
					for k, v := range known {
						nk[k] = v
					}
					nk[ck.key] = val
				}
			}
			if !o.NoPrune {
				nk = fa.enterPhis(nk, b, si)
			}
			path = append(path, pathStep{b, si})
			if dfs(s, 0, nk) {
				return true
			}
			path = path[:len(path)-1]
		}
		return false
	}
	known := map[string]bool{}
	for k, v := range o.StartKnown {
		known[k] = v
	}
	if dfs(start, o.StartIdx, known) {
		return path, found
	}
	return nil, nil
}

// Gated reports whether every path from the entry to `target` crosses an edge
// carrying a literal matched by one of pats (any-of). When not gated the
// witness path is returned.
func (fa *FuncAnalysis) Gated(target ssa.Instruction, pats ...LitPat) (bool, []pathStep) {
	path, _ := fa.Reach(func(in ssa.Instruction) bool { return in == target }, ReachOpts{Cut: pats})
	return path == nil, path
}

// Reachable reports plain reachability of target (with pruning).
func (fa *FuncAnalysis) Reachable(target ssa.Instruction) bool {
	path, _ := fa.Reach(func(in ssa.Instruction) bool { return in == target }, ReachOpts{})
	return path != nil
}

// PrecededBy: every path entry->target executes an instruction matching pre.
func (fa *FuncAnalysis) PrecededBy(target ssa.Instruction, pre func(ssa.Instruction) bool) (bool, []pathStep) {
	path, _ := fa.Reach(func(in ssa.Instruction) bool { return in == target }, ReachOpts{Barrier: pre})
	return path == nil, path
}

// After: instructions reachable after `from` (exclusive) satisfying pred, optionally stopping at barrier.
func (fa *FuncAnalysis) ReachAfter(from ssa.Instruction, pred func(ssa.Instruction) bool, o ReachOpts) ([]pathStep, ssa.Instruction) {
	b := from.Block()
	idx := 0
	for i, in := range b.Instrs {
		if in == from {
			idx = i + 1
		}
	}
	o.Start = b
	o.StartIdx = idx
	return fa.Reach(pred, o)
}

// ReachFromEdge searches from the successor edge (b, si).
func (fa *FuncAnalysis) ReachFromEdge(b *ssa.BasicBlock, si int, pred func(ssa.Instruction) bool, o ReachOpts) ([]pathStep, ssa.Instruction) {
	o.Start = b.Succs[si]
	o.StartIdx = 0
	if ck, ok := fa.condKey[b]; ok {
		if o.StartKnown == nil {
			o.StartKnown = map[string]bool{}
		}
		o.StartKnown[ck.key] = (si == 0) != ck.neg
	}
	if !o.NoPrune {
		if o.StartKnown == nil {
			o.StartKnown = map[string]bool{}
		}
		o.StartKnown = fa.enterPhis(o.StartKnown, b, si)
	}
	return fa.Reach(pred, o)
}

// PathString renders a witness path as the sequence of branch decisions.
func (fa *FuncAnalysis) PathString(path []pathStep) string {
	var parts []string
	for _, st := range path {
		if st.Si < 0 {
			continue
		}
		iff := blockIf(st.B)
		if iff == nil {
			continue
		}
		lits := fa.EdgeLits(st.B, st.Si)
		var ls []string
		for _, l := range lits {
			if derivedLits[l.T] {
				continue
			}
			ls = append(ls, l.T.str(3))
			if !l.Pos {
				ls[len(ls)-1] = "¬" + ls[len(ls)-1]
			}
		}
		pos := fa.p.InstrPos(iff)
		parts = append(parts, fmt.Sprintf("%s[%s]", pos, strings.Join(ls, " ∧ ")))
	}
	if len(parts) > 14 {
		parts = append(parts[:6], append([]string{"…"}, parts[len(parts)-7:]...)...)
	}
	return strings.Join(parts, " → ")
}

// ---------------------------------------------------------------------------
// Instruction queries

// Calls returns the call instructions (call, go, defer) in fn (not nested closures)
// whose callee matches one of names.
func (p *Prog) Calls(fn *ssa.Function, names ...string) []ssa.CallInstruction {
	var out []ssa.CallInstruction
	for _, b := range fn.Blocks {
		for _, in := range b.Instrs {
			ci, ok := in.(ssa.CallInstruction)
			if !ok {
				continue
			}
			if p.siteIs(ci, names...) {
				out = append(out, ci)
			}
		}
	}
	return out
}

func (p *Prog) siteIs(ci ssa.CallInstruction, names ...string) bool {
	for _, h := range p.CalleeNames(ci) {
		for _, n := range names {
			if h == n {
				return true
			}
		}
	}
	return false
}

// CallsDeep is Calls over fn and its nested closures.
func (p *Prog) CallsDeep(fn *ssa.Function, names ...string) []ssa.CallInstruction {
	var out []ssa.CallInstruction
	for _, f := range Closures(fn) {
		out = append(out, p.Calls(f, names...)...)
	}
	return out
}

func isCallTo(p *Prog, names ...string) func(ssa.Instruction) bool {
	return func(in ssa.Instruction) bool {
		ci, ok := in.(ssa.CallInstruction)
		return ok && p.siteIs(ci, names...)
	}
}

// Returns lists the return instructions of fn.
func Returns(fn *ssa.Function) []*ssa.Return {
	var out []*ssa.Return
	for _, b := range fn.Blocks {
		for _, in := range b.Instrs {
			if r, ok := in.(*ssa.Return); ok {
				out = append(out, r)
			}
		}
	}
	return out
}

// ---------------------------------------------------------------------------
// Literal pattern constructors

// NilErr: "error result of a call to one of names is nil" (positive literal isnil(result)).
func (p *Prog) NilErr(names ...string) LitPat {
	return func(l Lit) bool {
		if l.T.Op != "isnil" || !l.Pos {
			return false
		}
		return p.isErrResultOf(l.T.Args[0], names...)
	}
}

// ErrNonNil: negative literal isnil(result of names).
func (p *Prog) ErrNonNil(names ...string) LitPat {
	return func(l Lit) bool {
		if l.T.Op != "isnil" || l.Pos {
			return false
		}
		return p.isErrResultOf(l.T.Args[0], names...)
	}
}

func (p *Prog) isErrResultOf(t *Term, names ...string) bool {
	for _, a := range t.Alts() {
		c := ResultOf(a, -1)
		if c != nil && p.IsCall(c, names...) {
			// must be the error-typed result
			if a.V != nil && isErrorType(a.V.Type()) {
				return true
			}
		}
	}
	return false
}

// OK: boolean call result (or boolean result #i of a tuple) of names is `val`.
func (p *Prog) OK(val bool, names ...string) LitPat {
	return func(l Lit) bool {
		if l.Pos != val {
			return false
		}
		c := ResultOf(l.T, -1)
		return c != nil && p.IsCall(c, names...) && l.T.V != nil && isBoolType(l.T.V.Type())
	}
}

// FieldLit: boolean field load with the given name has value val.
func FieldLit(val bool, field string) LitPat {
	return func(l Lit) bool { return l.Pos == val && l.T.IsField(field) }
}

// AnyOf combines patterns disjunctively.
func AnyOf(ps ...LitPat) LitPat {
	return func(l Lit) bool {
		for _, p := range ps {
			if p(l) {
				return true
			}
		}
		return false
	}
}

// ErrIs: errors.Is(<result of names>, <global sentinel>) is val.
func (p *Prog) ErrIs(val bool, sentinel string, names ...string) LitPat {
	return func(l Lit) bool {
		if l.Pos != val || !p.IsCall(l.T, "errors.Is") || len(l.T.Args) != 2 {
			return false
		}
		if !(l.T.Args[1].Op == "global" && l.T.Args[1].Name == sentinel) {
			return false
		}
		if len(names) == 0 {
			return true
		}
		return p.isErrResultOf(l.T.Args[0], names...)
	}
}

// Cmp normalises a comparison literal to (a op b) with op in {"<","<=","==","!="}.
func Cmp(l Lit) (a, b *Term, op string, ok bool) {
	switch l.T.Op {
	case "lt":
		if l.Pos {
			return l.T.Args[0], l.T.Args[1], "<", true
		}
		return l.T.Args[1], l.T.Args[0], "<=", true
	case "le":
		if l.Pos {
			return l.T.Args[0], l.T.Args[1], "<=", true
		}
		return l.T.Args[1], l.T.Args[0], "<", true
	case "eq":
		if l.Pos {
			return l.T.Args[0], l.T.Args[1], "==", true
		}
		return l.T.Args[0], l.T.Args[1], "!=", true
	}
	return nil, nil, "", false
}

// CmpLit matches a comparison a op b (after normalisation; == and != also with
// swapped operands).
func CmpLit(op string, pa, pb func(*Term) bool) LitPat {
	return func(l Lit) bool {
		a, b, o, ok := Cmp(l)
		if !ok || o != op {
			return false
		}
		if pa(a) && pb(b) {
			return true
		}
		if (op == "==" || op == "!=") && pa(b) && pb(a) {
			return true
		}
		return false
	}
}

func isErrorType(t interface{ String() string }) bool { return t.String() == "error" }
func isBoolType(t interface{ String() string }) bool {
	s := t.String()
	return s == "bool" || s == "untyped bool"
}

// constBool evaluates conditions that are constants (or a phi of equal constants,
// the shape of `x && false`).
func constBool(v ssa.Value) (bool, bool) { return constBoolRec(v, map[*ssa.Phi]bool{}) }

func constBoolRec(v ssa.Value, seen map[*ssa.Phi]bool) (bool, bool) {
	switch x := v.(type) {
	case *ssa.Const:
		if x.Value != nil && (x.Value.ExactString() == "true" || x.Value.ExactString() == "false") {
			return x.Value.ExactString() == "true", true
		}
	case *ssa.UnOp:
		if x.Op == token.NOT {
			b, ok := constBoolRec(x.X, seen)
			return !b, ok
		}
	case *ssa.Phi:
		if seen[x] {
			return false, false
		}
		seen[x] = true
		var val, set bool
		for _, e := range x.Edges {
			if e == ssa.Value(x) {
				continue
			}
			if ph, ok := e.(*ssa.Phi); ok && seen[ph] {
				return false, false // loop-carried: not a constant
			}
			b, ok := constBoolRec(e, seen)
			if !ok {
				return false, false
			}
			if set && b != val {
				return false, false
			}
			val, set = b, true
		}
		return val, set
	}
	return false, false
}

var stableGlobals = map[*ssa.Global]bool{}
var stableGlobalsProg *Prog

// stableGlobal: a package-level variable never assigned by module code outside a
// package initialiser (error sentinels).
func stableGlobal(g *ssa.Global) bool {
	if v, ok := stableGlobals[g]; ok {
		return v
	}
	p := stableGlobalsProg
	ok := true
	if p != nil {
		for _, fn := range p.ModFuncs {
			if fn.Name() == "init" {
				continue
			}
			for _, b := range fn.Blocks {
				for _, in := range b.Instrs {
					if st, isSt := in.(*ssa.Store); isSt && st.Addr == ssa.Value(g) {
						ok = false
					}
				}
			}
		}
	}
	stableGlobals[g] = ok
	return ok
}

func isNilConst(v ssa.Value) bool {
	c, ok := v.(*ssa.Const)
	return ok && c.Value == nil && isNillable(c.Type())
}

func isNillable(t types.Type) bool {
	switch t.Underlying().(type) {
	case *types.Pointer, *types.Interface, *types.Map, *types.Slice, *types.Chan, *types.Signature:
		return true
	}
	return false
}

// definitelyNonNil: values that are never nil by construction — a fresh allocation, a value boxed into an interface,
// the results of fmt.Errorf / errors.New.
func definitelyNonNil(v ssa.Value) bool {
	switch x := v.(type) {
	case *ssa.Alloc, *ssa.MakeInterface, *ssa.MakeMap, *ssa.MakeChan, *ssa.MakeClosure, *ssa.Function:
		return true
	case *ssa.Call:
		if f := x.Call.StaticCallee(); f != nil && f.Pkg != nil {
			switch f.Pkg.Pkg.Path() + "." + f.Name() {
			case "fmt.Errorf", "errors.New":
				return true
			}
		}
	}
	return false
}

// nonNilPhi: `p != nil` where p = phi(nil, …, nil, v): a pointer temporary that is nil unless it was assigned v
// (`var lag *float64; if s != nil { lag = s.Lag }`) — being non-nil it is v, so v is non-nil.
func (fa *FuncAnalysis) nonNilPhi(v ssa.Value, at ssa.Value, isNil bool) []Lit {
	ph, ok := v.(*ssa.Phi)
	if !ok || isNil {
		return nil
	}
	var other ssa.Value
	n := 0
	for _, e := range ph.Edges {
		if isNilConst(e) {
			continue
		}
		other = e
		n++
	}
	if n != 1 {
		return nil
	}
	return []Lit{{&Term{Op: "isnil", Args: []*Term{fa.p.T(other)}, V: at}, false}}
}

// enterPhis: the valuation after taking successor edge si of b — phis of the successor whose incoming value on this edge
// is a constant (a flag assigned on the way, e.g. the result slot of an inlined helper) are remembered for the test that
// follows; for a boolean phi with a non-constant incoming value the edge taken is remembered.
func (fa *FuncAnalysis) enterPhis(nk map[string]bool, b *ssa.BasicBlock, si int) map[string]bool {
	s := b.Succs[si]
	occ := 0
	for j := 0; j < si; j++ {
		if b.Succs[j] == s {
			occ++
		}
	}
	pi := -1
	for j, pr := range s.Preds {
		if pr == b {
			if occ == 0 {
				pi = j
				break
			}
			occ--
		}
	}
	if pi < 0 {
		return nk
	}
	for _, in := range s.Instrs {
		ph, ok := in.(*ssa.Phi)
		if !ok {
			break
		}
		if pi >= len(ph.Edges) {
			continue
		}
		key := "φ" + ph.Name()
		cv, isConst := false, false
		if isBoolType(ph.Type()) {
			cv, isConst = constBool(ph.Edges[pi])
		} else if isNillable(ph.Type()) {
			key = "ν" + ph.Name()
			if isNilConst(ph.Edges[pi]) {
				cv, isConst = true, true
			} else if definitelyNonNil(ph.Edges[pi]) {
				cv, isConst = false, true
			}
		} else {
			continue
		}
		_, had := nk[key]
		if !isConst && !had && !isBoolType(ph.Type()) {
			continue
		}
		cp := make(map[string]bool, len(nk)+1)
		for k, v := range nk {
			cp[k] = v
		}
		if isConst {
			cp[key] = cv
		} else {
			delete(cp, key)
		}
		if isBoolType(ph.Type()) {
			for j := range ph.Edges {
				delete(cp, fmt.Sprintf("π%s#%d", ph.Name(), j))
			}
			if !isConst {
				cp[fmt.Sprintf("π%s#%d", ph.Name(), pi)] = true
			}
		}
		nk = cp
	}
	return nk
}

// nonNegTerm: a length, or a counter (a phi whose alternatives are the constant 0 and increments by a positive constant).
func nonNegTerm(t *Term) bool {
	if t == nil {
		return false
	}
	if t.Op == "len" {
		return true
	}
	if t.Op != "phi" || len(t.Args) == 0 {
		return false
	}
	var ok func(x *Term, d int) bool
	ok = func(x *Term, d int) bool {
		if d > 6 || x == nil {
			return false
		}
		switch x.Op {
		case "cycle":
			return true
		case "const":
			v, isInt := intConst(x)
			return isInt && v >= 0
		case "phi":
			for _, a := range x.Args {
				if !ok(a, d+1) {
					return false
				}
			}
			return len(x.Args) > 0
		case "bin":
			if x.Name == "+" && len(x.Args) == 2 {
				return ok(x.Args[0], d+1) && ok(x.Args[1], d+1)
			}
		}
		return false
	}
	return ok(t, 0)
}
