package main

import (
	"fmt"

	"golang.org/x/tools/go/ssa"
)

const (
	fnChanges     = "(*app.App).calcActiveNodesChanges"
	fnCanShrink   = "(*app.App).canShrinkActiveNodes"
	fnSetActive   = "(*app.App).SetActiveNodes"
	fnAdjust      = "(*app.App).adjustSemiSyncOnMaster"
	fnEnableSlave = "(*app.App).enableSemiSyncOnSlave"
	fnDisableSlvs = "(*app.App).disableSemiSyncOnSlaves"
	fnReqCount    = "(mysql.ISwitchHelper).GetRequiredWaitSlaveCount"
)

func init() {
	register("C04", "other",
		"Membership rule, eviction guard and — because a crash point is a call boundary — the ORDER of effectful calls on every CFG path of the active-list update: "+
			"(MEMBER) a non-master host enters the computed list only if it is not a cascade replica, not marked for recovery, and either was already a member (keep-alive: only while unreachable, and only while dubious / still holding its health record / within the inactivation delay) or is reachable, has a replica status, replicates and is not split-brained against the master's executed set and uuid (arguments in that order); "+
			"(WRITERS) the daemon writes the list only from the update function and the recovery marking, deletes it only when entering maintenance; "+
			"(EVICT) every publication is below the eviction guard evaluated on the value that is published, the guard says yes only if nothing is removed or the master answers a ping, and all semi-sync changes are below a second master ping; "+
			"(PAIR) a failed semi-sync enable removes the host from the to-be-published list and decrements the count together; (JOINERS) semi-sync is enabled only for the joiners computed by the changes function, which filters out download-lagging and stalled hosts; (NOSEMI) without semi-sync only semi-sync disables and a guarded publication occur; "+
			"(ORDER-A) enabling acknowledgement on a joiner must be preceded by a successful publication; (ORDER-B) a master adjustment that may lower the count must be preceded by the publication, and a growing publication requires the raising adjustment to have succeeded; (BASIS/LAGGERS) the master's count is computed from the published list and the published list excludes download-lagging joiners. "+
			"ORDER-A, ORDER-B, BASIS and LAGGERS fail on the pinned tree and are recorded as known findings (see DESIGN.md section 6, F10).",
		"which replicas are reachable, runtime values of MySQL variables, 'the iteration completes with the master healthy'",
		runC04)
}

func runC04(c *Check) {
	p := c.p
	U := p.MustFunc(fnUpdateAN)
	ufa := p.FA(U)
	un := p.Name(U)
	masterNode := func(t *Term) bool {
		return p.IsCall(t, "(*mysql.Cluster).Get") && t.Args[1].Op == "param" && t.Args[1].Name == "4"
	}

	c.Rule("C04.MEMBER", func() {
		checkMemberExclusion(c, "cascade")
		checkMemberExclusion(c, "recovery")
		f := p.MustFunc(fnCalcActive)
		fa := p.FA(f)
		name := p.Name(f)
		n := 0
		for _, b := range f.Blocks {
			for _, in := range b.Instrs {
				call, ok := in.(*ssa.Call)
				if !ok {
					continue
				}
				if bi, ok := call.Call.Value.(*ssa.Builtin); !ok || bi.Name() != "append" {
					continue
				}
				elems := c.eff.variadic(call.Call.Args[1])
				if len(elems) != 1 || p.T(elems[0]).Op != "rangekey" {
					continue
				}
				n++
				host := elems[0]
				wasMember := func(l Lit) bool {
					return l.Pos && p.IsCall(l.T, "slices.Contains") && l.T.Args[0].Op == "param" && l.T.Args[0].Name == "3" && l.T.Args[1].V == host
				}
				st := func(t *Term) bool { return t.Op == "rangeval" }
				k := func(x string) string { return nthKey("member", n) + ":" + x }
				c.Gate(fa, call, k("alive"), "a new member answers pings", wasMember, func(l Lit) bool { return l.Pos && l.T.IsField("PingOk") && st(l.T.Args[0]) })
				c.Gate(fa, call, k("is-replica"), "a new member has a replica status", wasMember, func(l Lit) bool {
					return l.T.Op == "isnil" && !l.Pos && l.T.Args[0].IsField("SlaveState") && st(l.T.Args[0].Args[0])
				})
				running, _ := p.ConstString("internal/mysql", "ReplicationRunning")
				c.Gate(fa, call, k("replicating"), "a new member replicates", wasMember, CmpLit("==", func(t *Term) bool { return t.IsField("ReplicationState") }, func(t *Term) bool { return t.IsConst(running) }))
				notSplit := func(l Lit) bool {
					if l.Pos || !p.IsCall(l.T, "mysql/gtids.IsSplitBrained") {
						return false
					}
					a := l.T.Args
					ok0 := p.IsCall(a[0], "mysql/gtids.ParseGtidSet") && a[0].Args[0].IsField("ExecutedGtidSet") && a[0].Args[0].Args[0].IsField("SlaveState") && st(a[0].Args[0].Args[0].Args[0])
					r1 := ResultOf(a[1], 0)
					ok1 := r1 != nil && p.IsCall(r1, "(*mysql.Node).GTIDExecutedParsed") && masterNode(r1.Args[0])
					r2 := ResultOf(a[2], 0)
					ok2 := r2 != nil && p.IsCall(r2, "(*mysql.Node).UUID") && masterNode(r2.Args[0])
					return ok0 && ok1 && ok2
				}
				c.Gate(fa, call, k("not-diverged"), "a new member is not split-brained: IsSplitBrained(its executed set, master's executed set, master's uuid)", wasMember, notSplit)
				// keep-alive sites
				if kept, _ := fa.Gated(call, wasMember); kept {
					c.Gate(fa, call, k("keep-alive:unreachable"), "keep-alive applies only to hosts that do not answer", func(l Lit) bool { return !l.Pos && l.T.IsField("PingOk") && st(l.T.Args[0]) })
					failing := func(t *Term) bool {
						if !p.IsCall(t, "time.Since") {
							return false
						}
						g := t.Args[0]
						return p.IsCall(g, "(*app.Timings).Get") && g.Args[1].IsConst("nodeFailedAt") && g.Args[2].V == host
					}
					c.Gate(fa, call, k("keep-alive:bounded"), "a silent member is kept only while its ping is dubious, its own health record is still good, or it has been failing for less than the inactivation delay",
						func(l Lit) bool { return l.Pos && l.T.IsField("PingDubious") && st(l.T.Args[0]) },
						func(l Lit) bool {
							return l.Pos && l.T.IsField("PingOk") && l.T.Args[0].Op == "lookup" && l.T.Args[0].Args[0].Op == "param" && l.T.Args[0].Args[0].Name == "2" && l.T.Args[0].Args[1].V == host
						},
						CmpLit("<", failing, func(t *Term) bool { return t.IsField("InactivationDelay") }))
				}
			}
		}
		c.Req(n >= 3, name, "-", "members", "member append sites found (one for fresh members, keep-alive sites)", fmt.Sprintf("%d", n))
		// the failure clock of a host starts when it stops answering and is cleared when it answers
		nset := 0
		for _, ci := range p.Calls(f, "(*app.Timings).SetIfZero") {
			if p.T(ci.Common().Args[1]).IsConst("nodeFailedAt") {
				nset++
				c.Gate(fa, ci, "host-clock:start", "a host's failure clock starts when it does not answer", func(l Lit) bool { return !l.Pos && l.T.IsField("PingOk") && l.T.Args[0].Op == "rangeval" })
			}
		}
		c.Req(nset >= 1, name, "-", "host-clock", "hosts have failure clocks", "")
	})

	c.Rule("C04.WRITERS", func() {
		n := 0
		seen := map[string]bool{}
		for _, r := range c.DaemonRoots() {
			for _, e := range c.eff.Collect(r.Fn, WalkOpts{}) {
				if !dcsWrite(e) || e.Key != "active_nodes" {
					continue
				}
				k := e.Op + "@" + c.eff.ChainString(e)
				if seen[k] {
					continue
				}
				seen[k] = true
				n++
				ok := false
				switch e.Op {
				case "Set":
					ok = c.chainVia(e, fnUpdateAN) || c.chainVia(e, fnSetRecovery)
				case "Delete":
					ok = c.chainVia(e, fnEnter)
				}
				c.Req(ok, r.Name, p.InstrPos(e.Site), e.String()+" via "+p.InstrPos(e.Chain[len(e.Chain)-1]), "the list is written only by the update function and the recovery marking, deleted only when entering maintenance", "chain: "+c.eff.ChainString(e))
			}
		}
		c.Req(n >= 3, un, "-", "writers", "writers of the list are visible", fmt.Sprintf("%d", n))
	})

	pubs := p.Calls(U, fnSetActive)
	c.Rule("C04.EVICT", func() {
		c.Req(len(pubs) >= 2, un, "-", "publications", "publication sites (semi-sync and async branch)", fmt.Sprintf("%d", len(pubs)))
		for i, pub := range pubs {
			val := pub.Common().Args[1]
			guard := func(l Lit) bool {
				if !l.Pos || !p.IsCall(l.T, fnCanShrink) {
					return false
				}
				a := l.T.Args
				return masterNode(a[1]) && a[2].Op == "param" && a[2].Name == "3" && a[3].V == val
			}
			c.Gate(ufa, pub, nthKey("publish", i+1)+":guarded", "a publication is below the eviction guard, evaluated for (master, old list, the value published)", guard)
		}
		g := p.MustFunc(fnCanShrink)
		gfa := p.FA(g)
		for i, rs := range c.SuccessSites(g, 0, "true") {
			nothing := CmpLit("==", func(t *Term) bool {
				return t.Op == "len" && p.IsCall(t.Args[0], "app.filterOut") && t.Args[0].Args[0].Op == "param" && t.Args[0].Args[0].Name == "2" && t.Args[0].Args[1].Op == "param" && t.Args[0].Args[1].Name == "3"
			}, func(t *Term) bool { return t.IsConst("0") })
			ping := func(l Lit) bool {
				r := ResultOf(l.T, 0)
				return l.Pos && r != nil && p.IsCall(r, "(*mysql.Node).Ping") && r.Args[0].Op == "param" && r.Args[0].Name == "1"
			}
			c.Gate(gfa, rs.At, nthKey("guard-yes", i+1), "the guard says yes only if nothing is removed (old minus new is empty) or the master answers a ping", nothing, ping)
		}
		// semi-sync changes below the second master ping
		ping2 := func(l Lit) bool {
			r := ResultOf(l.T, 0)
			return l.Pos && r != nil && p.IsCall(r, "(*mysql.Node).Ping") && masterNode(r.Args[0])
		}
		n := 0
		for _, ci := range p.Calls(U, fnAdjust, fnDisableSlvs, fnEnableSlave) {
			n++
			c.Gate(ufa, ci, nthKey("semisync-change "+afterDot(p.CalleeNames(ci)[0]), n), "semi-sync hand-over happens only after the master answered a second ping in this update", ping2)
		}
		c.Req(n >= 4, un, "-", "semisync-changes", "hand-over sites found", fmt.Sprintf("%d", n))
	})

	var enables []ssa.CallInstruction
	c.Rule("C04.JOINERS", func() {
		enables = p.Calls(U, fnEnableSlave)
		c.Req(len(enables) == 1, un, "-", "enable-site", "semi-sync is enabled on replicas at one site", fmt.Sprintf("%d", len(enables)))
		for _, e := range enables {
			h := p.T(e.Common().Args[1])
			ok := h.Op == "index" && ResultOf(h.Args[0], 0) != nil && p.IsCall(ResultOf(h.Args[0], 0), fnChanges)
			c.Req(ok, un, p.InstrPos(e), "enable:joiners-only", "semi-sync is enabled only on the joiners computed by the changes function", "host is "+h.String())
		}
		for _, ch := range p.Calls(U, fnChanges) {
			a := ch.Common().Args
			r := ResultOf(p.T(a[2]), 0)
			c.Req(r != nil && p.IsCall(r, fnCalcActive), un, p.InstrPos(ch), "changes:from-membership", "changes are computed from the membership computed in this update", "")
		}
		checkJoinerFilter(c)
		// the effect really is the ack enable
		f := p.MustFunc(fnEnableSlave)
		have := false
		for _, e := range c.eff.Collect(f, WalkOpts{}) {
			if e.Kind == "SQL" && e.Op == "semisync_set_slave" {
				have = true
			}
		}
		c.Req(have, fnEnableSlave, p.Pos(f.Pos()), "effect", "the enable helper sets the semi-sync replica flag", "")
	})

	c.Rule("C04.PAIR", func() {
		if len(enables) != 1 {
			panic(AnchorError{"enable site"})
		}
		en := enables[0]
		// on the failure edge: count-1 and filterOut(list, [host]) in the same region, before the next iteration
		found := false
		for _, b := range U.Blocks {
			for si := range b.Succs {
				for _, l := range ufa.EdgeLits(b, si) {
					if !p.ErrNonNil(fnEnableSlave)(l) {
						continue
					}
					found = true
					blk := b.Succs[si]
					dec, rem := false, false
					for _, in := range blk.Instrs {
						if bo, ok := in.(*ssa.BinOp); ok && bo.Op.String() == "-" && p.T(bo.Y).IsConst("1") {
							dec = true
						}
						if call, ok := in.(*ssa.Call); ok && p.siteIs(call, "app.filterOut") {
							els := c.eff.elemsOfSliceLit(call.Call.Args[1])
							if len(els) == 1 && els[0] == en.Common().Args[1] {
								rem = true
							}
						}
					}
					c.Req(dec && rem, un, p.InstrPos(blockIf(b)), "enable-failure:pair", "a failed enable both decrements the count and removes that host from the to-be-published list", fmt.Sprintf("decrement=%v removal=%v", dec, rem))
				}
			}
		}
		c.Req(found, un, "-", "enable-failure:edge", "the enable result is tested", "")
		// the decremented count and the filtered list are what flows to the adjust-after and publish sites
		for _, pub := range pubs {
			if ok, _ := ufa.PrecededBy(pub, func(in ssa.Instruction) bool { return in == en.(ssa.Instruction) }); ok {
				v := p.T(pub.Common().Args[1])
				has := v.Contains(func(x *Term) bool { return p.IsCall(x, "app.filterOut") })
				c.Req(has, un, p.InstrPos(pub), "publish:filtered-list", "the list published after the enable loop is the one hosts were removed from", "publishes "+v.String())
			}
		}
	})

	c.Rule("C04.NOSEMI", func() {
		// calls on the ¬SemiSync side
		n := 0
		for _, b := range U.Blocks {
			for _, in := range b.Instrs {
				ci, ok := in.(ssa.CallInstruction)
				if !ok {
					continue
				}
				if g, _ := ufa.Gated(ci, FieldLit(false, "SemiSync")); !g {
					continue
				}
				if !c.mutatingCall(U, ci) {
					continue
				}
				n++
				switch {
				case p.siteIs(ci, fnSetActive):
					// guarded by EVICT
					c.Hold(un, p.InstrPos(ci), nthKey("async-branch", n), "publication (guarded, see EVICT)")
				default:
					okE := true
					for _, cal := range c.eff.calleesOf(ci, c.eff.rootEnv(U), 0) {
						for _, e := range c.eff.CollectEnv(cal, WalkOpts{}) {
							if sqlMutating(e) && e.Op != "semisync_disable" {
								okE = false
							}
							if dcsWrite(e) {
								okE = false
							}
						}
					}
					c.Req(okE, un, p.InstrPos(ci), nthKey("async-branch", n), "without semi-sync the update only disables semi-sync where it is still on", "call "+p.CalleeNames(ci)[0])
				}
			}
		}
		c.Req(n >= 2, un, "-", "async-branch", "the async branch exists", fmt.Sprintf("%d", n))
		// with semi-sync on, nothing of the hand-over is reachable on the async side
		for _, ci := range p.Calls(U, fnAdjust, fnEnableSlave, fnDisableSlvs) {
			c.Gate(ufa, ci, "semisync-only:"+afterDot(p.CalleeNames(ci)[0])+"@"+fmt.Sprint(ci.Block().Index), "semi-sync hand-over only with semi-sync configured", FieldLit(true, "SemiSync"))
		}
	})

	published := p.NilErr(fnSetActive)
	c.Rule("C04.ORDER-A", func() {
		for _, e := range enables {
			ok, path := ufa.Gated(e, published)
			c.Req(ok, un, p.InstrPos(e), "enable-before-publish", "acknowledgement is enabled on a joiner only after a list containing it was published (a crash or failed publish after the enable must not leave an acker outside the list)", "path to the enable without a successful publication: "+ufa.PathString(path))
		}
		c.Req(len(enables) > 0, un, "-", "enable-site", "enable site", "")
	})

	c.Rule("C04.ORDER-B", func() {
		adj := p.Calls(U, fnAdjust)
		c.Req(len(adj) == 2, un, "-", "adjust-sites", "the master is adjusted before and after the replicas", fmt.Sprintf("%d", len(adj)))
		for i, a := range adj {
			// may this site lower the count? its guard's value set contains `new < old`
			mayLower := false
			var guardPos string
			for _, b := range U.Blocks {
				for si := range b.Succs {
					if b.Succs[si] != a.Block() {
						continue
					}
					iff := blockIf(b)
					if iff == nil {
						continue
					}
					guardPos = p.InstrPos(iff)
					t := p.T(iff.Cond)
					for _, alt := range t.Alts() {
						if alt.Op == "bin" && (alt.Name == "<" || alt.Name == ">") {
							lhsNew := p.IsCall(alt.Args[0], fnReqCount) || alt.Args[0].Contains(func(x *Term) bool { return p.IsCall(x, fnReqCount) })
							if (alt.Name == "<" && lhsNew) || (alt.Name == ">" && !lhsNew) {
								mayLower = true
							}
						}
					}
				}
			}
			which := "before-replicas"
			if ok, _ := ufa.PrecededBy(a, isCallTo(p, fnDisableSlvs)); ok {
				which = "after-replicas"
			}
			if !mayLower {
				c.Hold(un, p.InstrPos(a), "adjust:"+which, "this adjustment can only raise the count")
				continue
			}
			ok, path := ufa.Gated(a, published)
			c.Req(ok, un, p.InstrPos(a), "adjust:"+which+":lower-before-publish", "an adjustment that may lower the master's acknowledgement count is preceded by the publication of the smaller list (guard at "+guardPos+" admits new < old)", "path: "+ufa.PathString(path))
			_ = i
		}
		// a growing publication requires the raising adjustment to have succeeded
		for _, pub := range pubs {
			if ok, _ := ufa.PrecededBy(pub, isCallTo(p, fnDisableSlvs)); !ok {
				continue
			}
			for _, a := range adj {
				if pre, _ := ufa.PrecededBy(a, isCallTo(p, fnDisableSlvs)); !pre {
					continue
				}
				// is the publication reachable from the failure edge of this adjustment?
				for _, b := range U.Blocks {
					for si := range b.Succs {
						for _, l := range ufa.EdgeLits(b, si) {
							if l.T.Op == "isnil" && !l.Pos && l.T.Args[0].V == a.(ssa.Value) {
								path, _ := ufa.ReachFromEdge(b, si, func(in ssa.Instruction) bool { return in == pub.(ssa.Instruction) }, ReachOpts{})
								c.Req(path == nil, un, p.InstrPos(pub), "publish-after-failed-raise", "the list is not published when the adjustment that raises the master's count failed (the published size would imply a count the master does not wait for)", "path: "+ufa.PathString(path))
							}
						}
					}
				}
			}
		}
	})

	c.Rule("C04.ORDER-C", func() {
		// a host is evicted from the published list only if acknowledgement was switched off on it: the publication that
		// follows the disable loop requires that loop to have reported no error
		n := 0
		for _, pub := range pubs {
			if ok, _ := ufa.PrecededBy(pub, isCallTo(p, fnDisableSlvs)); !ok {
				continue
			}
			n++
			c.Gate(ufa, pub, "publish-after-failed-disable", "the smaller list is published only if switching acknowledgement off succeeded on every host that leaves it (a reachable host whose disable failed keeps acknowledging outside the list)", func(l Lit) bool {
				a, b, op, ok := Cmp(l)
				if !ok {
					return false
				}
				isErrs := func(t *Term) bool { return t.Op == "len" && len(t.Args) == 1 && p.IsCall(t.Args[0], fnDisableSlvs) }
				return (op == "==" && ((isErrs(a) && b.IsConst("0")) || (isErrs(b) && a.IsConst("0")))) || (op == "<=" && isErrs(a) && b.IsConst("0"))
			})
		}
		c.Req(n == 1, un, "-", "publish-after-disable:site", "the semi-sync publication follows the disable loop", fmt.Sprintf("%d", n))
	})

	c.Rule("C04.BASIS", func() {
		// the count handed to the master derives from GetRequiredWaitSlaveCount(L), L = the published list
		var pubVal ssa.Value
		for _, pub := range pubs {
			if ok, _ := ufa.PrecededBy(pub, isCallTo(p, fnDisableSlvs)); ok {
				pubVal = pub.Common().Args[1]
			}
		}
		if pubVal == nil {
			panic(AnchorError{"semi-sync publication in " + un})
		}
		pubT := p.T(pubVal)
		n := 0
		for _, rc := range p.Calls(U, fnReqCount) {
			n++
			_, args := recvArgs(rc)
			L := p.T(args[0])
			same := false
			for _, a := range pubT.Alts() {
				if a.V == L.V {
					same = true
				}
			}
			c.Req(same, un, p.InstrPos(rc), "count-basis", "the master's acknowledgement count is computed from the list that is published", "computed from "+L.String()+" but published "+pubT.String())
			// the weaker half, which holds on the pinned tree: the basis is at least THIS iteration's list (possibly with
			// hosts filtered out), never the previous list or anything else
			fromNew := same
			base := L
			if p.IsCall(L, "app.filterOut") {
				base = L.Args[0]
			}
			for _, a := range pubT.Alts() {
				for _, b := range base.Alts() {
					if a.V == b.V {
						fromNew = true
					}
				}
			}
			c.Req(fromNew, un, p.InstrPos(rc), "count-basis:this-iteration", "the basis of the master's acknowledgement count is the list computed in this iteration (at most with hosts filtered out), not the previously published one", "computed from "+L.String()+" while the published list is "+pubT.String())
		}
		c.Req(n == 1, un, "-", "count-basis:site", "one count computation", fmt.Sprintf("%d", n))
		for _, a := range p.Calls(U, fnAdjust) {
			cnt := p.T(a.Common().Args[3])
			okc := derivesOnly(cnt, func(x *Term) bool {
				if p.IsCall(x, fnReqCount) {
					return true
				}
				if x.Op == "bin" && x.Name == "-" && x.Args[1].IsConst("1") {
					in, ok := x.V.(ssa.Instruction)
					if !ok {
						return false
					}
					g, _ := ufa.Gated(in, p.ErrNonNil(fnEnableSlave))
					return g
				}
				return false
			})
			c.Req(okc, un, p.InstrPos(a), "count-flow@"+fmt.Sprint(a.Block().Index), "the count handed to the master is the required count, minus failed enables only", "is "+cnt.String())
		}
	})

	c.Rule("C04.LAGGERS", func() {
		var pubVal ssa.Value
		for _, pub := range pubs {
			if ok, _ := ufa.PrecededBy(pub, isCallTo(p, fnDisableSlvs)); ok {
				pubVal = pub.Common().Args[1]
			}
		}
		if pubVal == nil {
			panic(AnchorError{"semi-sync publication in " + un})
		}
		// the published list must have the download-lagging joiners (result #2 of the changes function) removed
		pubT := p.T(pubVal)
		removed := pubT.Contains(func(x *Term) bool {
			if !p.IsCall(x, "app.filterOut") {
				return false
			}
			r := ResultOf(x.Args[1], 2)
			return r != nil && p.IsCall(r, fnChanges)
		})
		c.Req(removed, un, p.InstrPos(pubs[len(pubs)-1]), "published-excludes-laggers", "the published list excludes joiners that are still too far behind in download to be made semi-sync", "published value is "+pubT.String())
	})

	c.Rule("C04.REC", func() {
		// recovery marking removes the host from the list first (C11.ORDER): re-checked here in its gate form
		S := p.MustFunc(fnSetRecovery)
		sfa := p.FA(S)
		for _, mk := range p.Calls(S, "(app.IAppDCS).SetRecovery") {
			c.Gate(sfa, mk, "mark:after-publish", "the recovery mark is created only after the list without the host was published", p.NilErr("(app.IAppDCS).SetActiveNodes"))
		}
	})
	extraC04(c)
}

// elemsOfSliceLit returns the elements of a `[]T{a, b}` literal value.
func (e *Effects) elemsOfSliceLit(v ssa.Value) []ssa.Value { return e.variadic(v) }

// checkJoinerFilter: the changes function returns as joiners only hosts that are not
// download-lagging and not stalled.
func checkJoinerFilter(c *Check) {
	p := c.p
	f := p.MustFunc(fnChanges)
	fa := p.FA(f)
	name := p.Name(f)
	lagging := CmpLit("<", func(t *Term) bool { return t.IsField("SemiSyncEnableLag") }, func(t *Term) bool { return p.IsCall(t, "app.calcLagBytes") })
	// accumulators that receive hosts under the lag literal
	var accs []*Term
	n := 0
	for _, b := range f.Blocks {
		for _, in := range b.Instrs {
			call, ok := in.(*ssa.Call)
			if !ok {
				continue
			}
			if bi, ok := call.Call.Value.(*ssa.Builtin); !ok || bi.Name() != "append" {
				continue
			}
			if ok, _ := fa.Gated(call, lagging); ok && fa.Reachable(call) {
				n++
				accs = append(accs, p.T(call))
			}
		}
	}
	c.Req(n == 2, name, "-", "lag-appends", "hosts above the download-lag threshold are put aside (stalled → leave, progressing → lagging)", fmt.Sprintf("%d", n))
	isAcc := func(t *Term) bool {
		for _, a := range t.Alts() {
			for _, acc := range accs {
				if a.V == acc.V {
					return true
				}
			}
		}
		return false
	}
	for _, r := range Returns(f) {
		if len(r.Results) != 4 {
			continue
		}
		if k, _ := c.retKind(fa, r, 3); k != "const:nil" {
			continue
		}
		t := p.T(r.Results[0])
		phi, isPhi := r.Results[0].(*ssa.Phi)
		double := func(x *Term) bool {
			return p.IsCall(x, "app.filterOut") && isAcc(x.Args[1]) && p.IsCall(x.Args[0], "app.filterOut") && isAcc(x.Args[0].Args[1])
		}
		// an early `return joiners, …` taken only when there are no joiners at all
		emptyList := func(l Lit) bool {
			a, b, op, okc := Cmp(l)
			if !okc {
				return false
			}
			if (op == "==" || op == "<=") && a.Op == "len" && b.IsConst("0") && sameAlts(a.Args[0], t) {
				return true
			}
			return op == "==" && b.Op == "len" && a.IsConst("0") && sameAlts(b.Args[0], t)
		}
		if g, _ := fa.Gated(r, emptyList); g && !double(t) {
			c.Hold(name, p.InstrPos(r), "joiners:filtered", "the unfiltered joiners are returned only when there are none")
			continue
		}
		if !isPhi {
			c.Req(double(t), name, p.InstrPos(r), "joiners:filtered", "the joiners returned are filtered by both put-aside sets", "returns "+t.String())
			continue
		}
		ok := true
		det := ""
		nd := 0
		for i, e := range phi.Edges {
			et := p.T(e)
			if double(et) {
				nd++
				continue
			}
			// unfiltered alternative: only on the "no joiners" edge
			none := false
			for _, l := range fa.incomingLits(phi.Block(), i, 0) {
				a, b, op, okc := Cmp(l)
				if okc && op == "<=" && a.Op == "len" && b.IsConst("0") {
					none = true
				}
			}
			if !none {
				ok = false
				det = "alternative " + et.String()
			}
		}
		c.Req(ok && nd >= 1, name, p.InstrPos(r), "joiners:filtered", "the joiners returned are filtered by both put-aside sets (unfiltered only when there are no joiners)", det)
	}
}
