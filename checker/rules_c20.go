package main

import (
	"fmt"
	"go/types"
	"sort"
	"strings"

	"golang.org/x/tools/go/ssa"
)

func init() {
	register("C20", "other",
		"Each sub-claim of daemon robustness through its classical static counterpart, over all functions reachable from the daemon roots: "+
			"(TABLES) every query name reaching the statement layer is a key of the default query table, every command name a key of the command table, every algorithm id a key of the algorithm table (state handlers: C02) — the lookups that end in an explicit panic cannot miss; "+
			"(PANICS) every explicit panic reachable from a daemon root is in a reasoned table (guarded by a rule above, a marshal of a statically JSON-able value, or a constant condition); a new panic site fails; "+
			"(NILKEY) a registry handle or state-map entry looked up with a name that is not registry-derived — recorded master, published active list, request fields, stream_from — is dereferenced only below a presence test; classes of parameters are the meet over all call sites (fixed point), closures of the two fan-out helpers receive the class of the list's elements; "+
			"(NILSTATUS) a replica status ('nil means master') is used only below a nil test; "+
			"(OWN) a node handle created outside the registry is closed on every path, every row set obtained without error reaches its close, every context cancel is deferred, captured or returned; "+
			"(GO) every go statement matches a bounded pattern — fan-out with a channel buffered to the list length and one send per goroutine, a quit channel the spawner signals on every return, a loop selecting on a context / a channel range ending with its connection — an unknown spawn fails; "+
			"(LOCKSET) for the structs shared by the daemon's loops every access to a field that is written after construction happens with the struct's mutex held (locally, or in every caller), and the clock maps are partitioned by constant clock type with a single owning root each.",
		"crashes inside third-party libraries, memory corruption, leaks that need time to show (timers), races on memory reached through interfaces of external packages",
		runC20)
}

func (c *Check) daemonFuncs() map[*ssa.Function]bool {
	reach := map[*ssa.Function]bool{}
	for _, r := range c.DaemonRoots() {
		for _, f := range c.reachableFuncs(r.Fn) {
			reach[f] = true
		}
	}
	return reach
}

func runC20(c *Check) {
	p := c.p
	reach := c.daemonFuncs()

	c.Rule("C20.TABLES", func() {
		names := map[string]bool{}
		unknown := 0
		for _, fn := range p.ModFuncs {
			n := p.Name(fn)
			if !(strings.HasPrefix(n, "(*mysql.Node).") || strings.HasPrefix(n, "(*mysql.ExternalReplication).")) || fn.Parent() != nil {
				continue
			}
			if !ssaExported(fn) {
				continue
			}
			for _, e := range c.eff.Collect(fn, WalkOpts{}) {
				if e.Kind != "SQL" {
					continue
				}
				names[e.Op] = true
				if e.Op == "?" || e.Key == "?" {
					unknown++
					c.Fail(n, p.InstrPos(e.Site), "query-name "+e.Op, "every query name reaching the statement layer is a key of the default query table (the lookup panics otherwise)", "chain: "+c.eff.ChainString(e))
				}
			}
		}
		c.Req(len(names) >= 45 && unknown == 0, "internal/mysql", "-", "query-names", "query names resolved from constants and version helpers", fmt.Sprintf("%d names", len(names)))
		c.extra["query_names"] = len(names)
		// commands
		cmds := p.StringMapLiteral("internal/mysql", "defaultCommands")
		nc := 0
		for _, fn := range p.ModFuncs {
			for _, ci := range p.Calls(fn, "(*mysql.Node).runCommand", "(*mysql.Node).getCommand") {
				if p.Name(fn) == "(*mysql.Node).runCommand" {
					c.Req(ci.Common().Args[1] == ssa.Value(fn.Params[1]), p.Name(fn), p.InstrPos(ci), "command:forward", "the command helper looks up the name it was given", "")
					continue
				}
				nc++
				a := p.T(ci.Common().Args[1])
				_, ok := cmds[a.Name]
				c.Req(a.Op == "const" && ok, p.Name(fn), p.InstrPos(ci), "command-name "+a.Name, "every command name is a key of the default command table", "")
			}
		}
		c.Req(nc >= 1 && len(cmds) >= 1, "internal/mysql", "-", "commands", "command uses found", fmt.Sprintf("%d uses, %d table entries", nc, len(cmds)))
		// algorithm ids
		mapping := p.StringMapLiteralIdents("internal/app", "mapping")
		for _, ord := range []string{"defaultOrder", "aggressiveOrder", "externalReplicationOrder"} {
			for _, id := range p.SliceLiteralIdents("internal/app", ord) {
				_, ok := mapping[id]
				c.Req(ok, "app."+ord, "-", "algorithm-id "+id, "every algorithm id has a table entry (no call of a nil function)", "")
			}
		}
		// the three order lists are the only values the selector can return
		O := p.MustFunc(fnAlgoOrder)
		for i, r := range Returns(O) {
			t := p.T(r.Results[0])
			c.Req(t.Op == "global" && strings.HasSuffix(t.Name, "Order"), fnAlgoOrder, p.InstrPos(r), nthKey("order", i+1), "the selector returns one of the checked order lists", "returns "+t.String())
		}
	})

	c.Rule("C20.PANICS", func() {
		table := map[string]string{
			"(*app.App).performChangeMaster": "host == master: excluded at every call site by C10.SELF",
			"(*app.App).Run":                 "unknown state: excluded by C02.AUTO-i (every answer has a handler)",
			"(*mysql.Node).getQuery":         "unknown query name: excluded by C20.TABLES",
			"(*mysql.Node).getCommand":       "unknown command name: excluded by C20.TABLES",
			"(*mysql.Node).runCommand":       "remote command: the only caller (IsRunning) returns ErrNotLocalNode for a remote node first — checked below",
			"mysql/gtids.ParseGtidSet":       "unparsable GTID text: the text comes from the MySQL servers (gtid_executed, replica status) — trusted input A6; not decided",
			"(*dcs.zkDCS).buildFullPath":     "constant condition on the one-byte separator constant",
			"(*dcs.zkDCS).AcquireLock":       "json.Marshal of LockOwner{string,int}: statically JSON-able",
			"(*dcs.zkDCS).create":            "json.Marshal of the value: callers pass JSON-able records (structs of strings, numbers, times, nested records) — checked below",
			"(*dcs.zkDCS).set":               "json.Marshal of the value: same as create",
		}
		n := 0
		for fn := range reach {
			if fn.Synthetic != "" {
				continue
			}
			for _, b := range fn.Blocks {
				for _, in := range b.Instrs {
					pn, ok := in.(*ssa.Panic)
					if !ok || !pn.Pos().IsValid() {
						continue
					}
					n++
					name := p.Name(fn)
					reason, known := table[name]
					c.Req(known, name, p.InstrPos(pn), "panic-site", "every explicit panic reachable from a daemon root is in the checker's reasoned table", "unknown panic site (triage and extend the table)")
					_ = reason
				}
			}
		}
		c.Req(n >= 6, "module", "-", "panic-sites", "explicit panic sites reachable from daemon roots", fmt.Sprintf("%d", n))
		c.extra["panic_table"] = table
		// the main loop's own panic (Run is the root of the handlers, not reachable from them)
		R := p.MustFunc(fnRun)
		rfa := p.FA(R)
		for _, b := range R.Blocks {
			for _, in := range b.Instrs {
				if pn, ok := in.(*ssa.Panic); ok && pn.Pos().IsValid() {
					c.Gate(rfa, pn, "main-loop-panic:missing-handler-only", "the main loop panics only for a state without handler (excluded by C02.AUTO-i)", func(l Lit) bool {
						return l.T.Op == "isnil" && l.Pos && l.T.Args[0].Op == "lookup"
					})
				}
			}
		}
		// runCommand's guard
		I := p.MustFunc("(*mysql.Node).IsRunning")
		ifa := p.FA(I)
		for _, ci := range p.Calls(I, "(*mysql.Node).runCommand") {
			c.Gate(ifa, ci, "runCommand:local-only", "the command helper is called for the local node only", p.OK(true, "(*mysql.Node).IsLocal"))
		}
		callers := 0
		for _, fn := range p.ModFuncs {
			callers += len(p.Calls(fn, "(*mysql.Node).runCommand"))
		}
		c.Req(callers == 1, "(*mysql.Node).runCommand", "-", "callers", "one caller of the command helper", fmt.Sprintf("%d", callers))
		// values marshalled by create/set: no channels, funcs or complex numbers in their static types
		bad := []string{}
		nvals := 0
		for fn := range reach {
			for _, ci := range p.Calls(fn, "(dcs.DCS).Create", "(dcs.DCS).CreateEphemeral", "(dcs.DCS).Set", "(dcs.DCS).SetEphemeral") {
				nvals++
				v := ci.Common().Args[1]
				if mi, ok := v.(*ssa.MakeInterface); ok {
					if !jsonable(mi.X.Type(), map[types.Type]bool{}) {
						bad = append(bad, p.InstrPos(ci)+" "+mi.X.Type().String())
					}
				}
			}
		}
		c.Req(len(bad) == 0 && nvals >= 15, "internal/app", "-", "marshalled-values", "values written to the coordination service have JSON-able static types", strings.Join(bad, "; "))
	})

	c.Rule("C20.NILKEY", func() {
		na := newNilAnalysis(c)
		na.strictMap = true
		fs, n := na.Findings()
		nexc := 0
		for _, f := range fs {
			// exception (one symbol): the resolver's answer in the cascade repair. Its only answer that may be an
			// unregistered host is the first-hop 'already streaming from it' one, which equals the current upstream;
			// these uses are on the candidate != current upstream branch (checked here), and every other non-master
			// answer passed the resolver's own nil test (C16.NIL).
			if p.Name(f.Fn) == fnRepairCascade && strings.Contains(f.Construct, "findBestStreamFrom") {
				fa := p.FA(f.Fn)
				differs := CmpLit("!=", func(t *Term) bool { return p.IsCall(t, fnResolver) }, func(t *Term) bool { return t.IsField("MasterHost") })
				if ok, _ := fa.Gated(f.At, differs); ok {
					nexc++
					continue
				}
			}
			c.Fail(p.Name(f.Fn), p.InstrPos(f.At), f.Construct, "a registry handle or state-map entry looked up with a name that is not registry-derived (recorded master, active list from the coordination service, request fields, stream_from) is dereferenced only below a presence test", f.Detail)
		}
		c.Req(n >= 60, "internal/app", "-", "derefs-examined", "dereferences of registry / state-map lookups examined", fmt.Sprintf("%d (exception applied %d times)", n, nexc))
		c.extra["nilkey_examined"] = n
		// premise of the positions rule: the provider records a position only for a non-nil handle
		G := p.MustFunc(fnPositions + "$1")
		gfa := p.FA(G)
		k := 0
		for _, b := range G.Blocks {
			for _, in := range b.Instrs {
				if call, ok := in.(*ssa.Call); ok {
					if bi, ok := call.Call.Value.(*ssa.Builtin); ok && bi.Name() == "append" {
						k++
						c.Gate(gfa, call, "positions-guard", "a position is recorded only for a host whose registry handle is non-nil", func(l Lit) bool {
							return l.T.Op == "isnil" && !l.Pos && p.IsCall(l.T.Args[0], "(*mysql.Cluster).Get") && l.T.Args[0].Args[1].V == ssa.Value(G.Params[0])
						})
					}
				}
			}
		}
		c.Req(k == 1, p.Name(G), "-", "positions-append", "one append in the positions provider", "")
		// the registry itself: Get under the lock, both maps
		// premise A2-related: state maps are built from the registry's host list
		for _, fname := range []string{"(*app.App).getClusterStateFromDB", "(*app.App).getClusterStateFromDcs"} {
			f := p.MustFunc(fname)
			ok := false
			for _, ci := range p.Calls(f, "app.getNodeStatesInParallel") {
				if p.IsCall(p.T(ci.Common().Args[0]), "(*mysql.Cluster).AllNodeHosts") {
					ok = true
				}
			}
			c.Req(ok, fname, "-", "state-map:from-registry", "state maps are built for exactly the registry's hosts (so a key of a state map is a registered host)", "")
		}
	})

	c.Rule("C20.NILSTATUS", func() {
		na := newNilAnalysis(c)
		fs, n := na.StatusFindings()
		for _, f := range fs {
			c.Fail(p.Name(f.Fn), p.InstrPos(f.At), f.Construct, "a replica status — nil when the node is a master or its replication was reset — is used only below a nil test", f.Detail)
		}
		c.Req(n >= 15, "internal/app", "-", "status-uses-examined", "uses of replica statuses examined", fmt.Sprintf("%d", n))
	})

	c.Rule("C20.OWN", func() { checkOwnership(c) })
	c.Rule("C20.GO", func() { checkGoroutines(c) })
	c.Rule("C20.LOCKSET", func() { checkLockset(c, reach) })
	extraC20(c)
}

func ssaExported(fn *ssa.Function) bool {
	n := fn.Name()
	return len(n) > 0 && n[0] >= 'A' && n[0] <= 'Z'
}

func jsonable(t types.Type, seen map[types.Type]bool) bool {
	if seen[t] {
		return true
	}
	seen[t] = true
	switch u := t.Underlying().(type) {
	case *types.Basic:
		return u.Info()&types.IsComplex == 0 && u.Kind() != types.UnsafePointer
	case *types.Pointer:
		return jsonable(u.Elem(), seen)
	case *types.Slice:
		return jsonable(u.Elem(), seen)
	case *types.Array:
		return jsonable(u.Elem(), seen)
	case *types.Map:
		if b, ok := u.Key().Underlying().(*types.Basic); !ok || b.Info()&(types.IsString|types.IsInteger) == 0 {
			return false
		}
		return jsonable(u.Elem(), seen)
	case *types.Struct:
		if strings.HasPrefix(t.String(), "time.Time") {
			return true
		}
		for i := 0; i < u.NumFields(); i++ {
			if !u.Field(i).Exported() {
				continue
			}
			if !jsonable(u.Field(i).Type(), seen) {
				return false
			}
		}
		return true
	case *types.Interface:
		return true // dynamic; nil is written by callers here
	case *types.Chan, *types.Signature:
		return false
	}
	return true
}

// ---------------------------------------------------------------------------

func checkOwnership(c *Check) {
	p := c.p
	// node handles
	n := 0
	for _, fn := range p.ModFuncs {
		for _, ci := range p.Calls(fn, "mysql.NewNode") {
			n++
			call := ci.(*ssa.Call)
			var node ssa.Value
			for _, r := range *call.Referrers() {
				if ex, ok := r.(*ssa.Extract); ok && ex.Index == 0 {
					node = ex
				}
			}
			name := p.Name(fn)
			if node == nil {
				c.Fail(name, p.InstrPos(ci), "new-node:unused", "the created handle is used", "")
				continue
			}
			stored := false
			var walk func(v ssa.Value, d int)
			walk = func(v ssa.Value, d int) {
				if d > 3 || v.Referrers() == nil {
					return
				}
				for _, r := range *v.Referrers() {
					switch u := r.(type) {
					case *ssa.MapUpdate:
						if u.Value == v {
							stored = true
						}
					case *ssa.Store:
						if u.Val == v {
							if _, ok := u.Addr.(*ssa.FieldAddr); ok {
								stored = true
							}
							if al, ok := u.Addr.(*ssa.Alloc); ok {
								for _, rr := range *al.Referrers() {
									if ld, ok := rr.(*ssa.UnOp); ok {
										walk(ld, d+1)
									}
								}
							}
						}
					case *ssa.Phi:
						walk(u, d+1)
					}
				}
			}
			walk(node, 0)
			if stored {
				c.Hold(name, p.InstrPos(ci), "new-node:registered", "the handle is stored in the registry (closed by the registry when the host leaves)")
				continue
			}
			// must be closed on every path after successful creation
			fa := p.FA(fn)
			closed := func(in ssa.Instruction) bool {
				if d, ok := in.(*ssa.Defer); ok {
					if mc, ok := d.Call.Value.(*ssa.MakeClosure); ok {
						for _, cc := range p.Calls(mc.Fn.(*ssa.Function), "(*mysql.Node).Close") {
							_ = cc
							return true
						}
					}
					if f := d.Call.StaticCallee(); f != nil && p.Name(f) == "(*mysql.Node).Close" {
						return true
					}
				}
				if cc, ok := in.(ssa.CallInstruction); ok && p.siteIs(cc, "(*mysql.Node).Close") {
					return true
				}
				return false
			}
			path, _ := fa.ReachAfter(ci, func(in ssa.Instruction) bool { _, ok := in.(*ssa.Return); return ok }, ReachOpts{Barrier: closed, Cut: []LitPat{p.ErrNonNil("mysql.NewNode")}})
			c.Req(path == nil, name, p.InstrPos(ci), "new-node:closed", "a handle created outside the registry is closed on every path (its connection pool owns a goroutine and connections)", "path without Close: "+fa.PathString(path))
		}
	}
	c.Req(n >= 4, "internal/mysql", "-", "new-node:sites", "creation sites", fmt.Sprintf("%d", n))
	// registry removal closes
	for _, fname := range []string{"(*mysql.Cluster).updateHAHostsInfo", "(*mysql.Cluster).updateCascadeHostsInfo"} {
		f := p.MustFunc(fname)
		dels := 0
		for _, b := range f.Blocks {
			for _, in := range b.Instrs {
				if call, ok := in.(*ssa.Call); ok {
					if bi, ok := call.Call.Value.(*ssa.Builtin); ok && bi.Name() == "delete" {
						dels++
						fa := p.FA(f)
						local := func(l Lit) bool {
							a, b, op, ok := Cmp(l)
							return ok && op == "==" && (a.IsField("host") || b.IsField("host"))
						}
						c.Gate(fa, call, "registry-remove:closed", "a host leaving the registry has its handle closed first (unless it is the local node's shared handle)", p.NilErr("(*mysql.Node).Close"), local)
					}
				}
			}
		}
		c.Req(dels == 1, fname, "-", "registry-remove", "one removal site", "")
	}
	// rows
	nr := 0
	for _, fn := range p.ModFuncs {
		if !strings.Contains(p.Name(fn), "mysql.") {
			continue
		}
		for _, ci := range p.Calls(fn, "(*github.com/jmoiron/sqlx.DB).NamedQueryContext", "(*github.com/jmoiron/sqlx.DB).QueryxContext") {
			nr++
			fa := p.FA(fn)
			isClose := func(in ssa.Instruction) bool {
				d, ok := in.(*ssa.Defer)
				if !ok {
					return false
				}
				if mc, ok := d.Call.Value.(*ssa.MakeClosure); ok {
					return len(p.Calls(mc.Fn.(*ssa.Function), "(*github.com/jmoiron/sqlx.Rows).Close", "(*database/sql.Rows).Close")) > 0
				}
				if f := d.Call.StaticCallee(); f != nil {
					return strings.HasSuffix(p.Name(f), "Rows).Close")
				}
				return false
			}
			found := false
			for _, b := range fn.Blocks {
				for si := range b.Succs {
					for _, l := range fa.EdgeLits(b, si) {
						if l.T.Op == "isnil" && l.Pos && ResultOf(l.T.Args[0], 1) != nil && ResultOf(l.T.Args[0], 1).V == ci.(ssa.Value) {
							found = true
							path, _ := fa.ReachFromEdge(b, si, func(in ssa.Instruction) bool {
								if _, ok := in.(*ssa.Return); ok {
									return true
								}
								_, ok := in.(*ssa.RunDefers)
								return ok
							}, ReachOpts{Barrier: isClose})
							c.Req(path == nil, p.Name(fn), p.InstrPos(ci), nthKey("rows", nr)+":closed", "a row set obtained without error has its Close deferred before anything can return", "path: "+fa.PathString(path))
						}
					}
				}
			}
			c.Req(found, p.Name(fn), p.InstrPos(ci), nthKey("rows", nr)+":error-tested", "the query's error is tested", "")
		}
	}
	c.Req(nr >= 5, "internal/mysql", "-", "rows:sites", "row-returning query sites", fmt.Sprintf("%d", nr))
	// contexts
	nc := 0
	for _, fn := range p.ModFuncs {
		for _, ci := range p.Calls(fn, "context.WithTimeout", "context.WithCancel", "context.WithDeadline") {
			nc++
			call := ci.(*ssa.Call)
			var cancel ssa.Value
			for _, r := range *call.Referrers() {
				if ex, ok := r.(*ssa.Extract); ok && ex.Index == 1 {
					cancel = ex
				}
			}
			ok := false
			if cancel != nil && cancel.Referrers() != nil {
				for _, r := range *cancel.Referrers() {
					switch u := r.(type) {
					case *ssa.Defer:
						if u.Call.Value == cancel {
							ok = true
						}
					case *ssa.MakeClosure, *ssa.Return:
						ok = true
					case *ssa.Store:
						// spilled for capture by a closure
						if al, isAl := u.Addr.(*ssa.Alloc); isAl {
							for _, rr := range *al.Referrers() {
								if _, isMC := rr.(*ssa.MakeClosure); isMC {
									ok = true
								}
							}
						}
					}
				}
			}
			if ok && cancel != nil {
				// a deferred cancel must be registered right away (before anything can return)
				fa := p.FA(fn)
				for _, r := range *cancel.Referrers() {
					if d, isD := r.(*ssa.Defer); isD {
						path, _ := fa.ReachAfter(ci, func(in ssa.Instruction) bool { _, ok := in.(*ssa.Return); return ok }, ReachOpts{Barrier: func(in ssa.Instruction) bool { return in == ssa.Instruction(d) }})
						ok = path == nil
					}
				}
			}
			c.Req(ok, p.Name(fn), p.InstrPos(ci), nthKey("context", nc), "a context's cancel is deferred at once, captured by a closure that calls it, or returned", "")
		}
	}
	c.Req(nc >= 8, "module", "-", "contexts", "context creation sites", fmt.Sprintf("%d", nc))
}

// ---------------------------------------------------------------------------

func checkGoroutines(c *Check) {
	p := c.p
	selectsOn := func(fn *ssa.Function, what func(*Term) bool) bool {
		for _, f := range Closures(fn) {
			for _, b := range f.Blocks {
				for _, in := range b.Instrs {
					if sel, ok := in.(*ssa.Select); ok {
						for _, st := range sel.States {
							if what(p.T(st.Chan)) {
								return true
							}
						}
					}
					if u, ok := in.(*ssa.UnOp); ok && u.Op.String() == "<-" && what(p.T(u.X)) {
						return true
					}
				}
			}
		}
		return false
	}
	ctxDone := func(t *Term) bool { return p.IsCall(t, "(context.Context).Done") }
	n := 0
	for _, fn := range p.ModFuncs {
		for _, b := range fn.Blocks {
			for _, in := range b.Instrs {
				g, ok := in.(*ssa.Go)
				if !ok {
					continue
				}
				n++
				name := p.Name(fn)
				var body *ssa.Function
				if mc, ok := g.Call.Value.(*ssa.MakeClosure); ok {
					body = mc.Fn.(*ssa.Function)
				} else if f := g.Call.StaticCallee(); f != nil {
					body = f
				}
				key := nthKey("go@"+name, n)
				if body == nil {
					c.Fail(name, p.InstrPos(g), key, "the goroutine's body is known", "")
					continue
				}
				switch name {
				case "util.RunParallel", "app.getNodeStatesInParallel":
					// fan-out: channel buffered with len(list), one send per goroutine
					var ch *ssa.MakeChan
					for _, bb := range fn.Blocks {
						for _, x := range bb.Instrs {
							if m, ok := x.(*ssa.MakeChan); ok {
								ch = m
							}
						}
					}
					okBuf := ch != nil && p.T(ch.Size).Op == "len" && p.T(ch.Size).Args[0].Op == "param"
					sends := 0
					for _, bb := range body.Blocks {
						for _, x := range bb.Instrs {
							if _, ok := x.(*ssa.Send); ok {
								sends++
							}
						}
					}
					loops := countLoops(body)
					// the spawner receives len(list) results
					c.Req(okBuf && sends == 1 && loops == 0, name, p.InstrPos(g), key, "fan-out: the result channel is buffered to the list length and each goroutine sends exactly once (no goroutine can block forever)", fmt.Sprintf("buffered=%v sends=%d loops=%d", okBuf, sends, loops))
					// spawned once per list element
					rangesList := false
					for _, bb := range fn.Blocks {
						for _, x := range bb.Instrs {
							if bo, ok := x.(*ssa.BinOp); ok && bo.Op.String() == "<" && p.T(bo.Y).Op == "len" && p.T(bo.Y).Args[0].Op == "param" {
								rangesList = true
							}
						}
					}
					c.Req(rangesList, name, p.InstrPos(g), key+":per-element", "one goroutine per list element", "")
				case "(*mysql.Node).SetReadOnlyWithForce":
					quit := func(t *Term) bool { return t.Op == "makechan" }
					okSel := selectsOn(body, quit)
					// spawner defers a send on the quit channel
					okDefer := false
					for _, bb := range fn.Blocks {
						for _, x := range bb.Instrs {
							if d, ok := x.(*ssa.Defer); ok {
								if mc, ok := d.Call.Value.(*ssa.MakeClosure); ok {
									for _, b3 := range mc.Fn.(*ssa.Function).Blocks {
										for _, y := range b3.Instrs {
											if _, ok := y.(*ssa.Send); ok {
												okDefer = true
											}
										}
									}
								}
							}
						}
					}
					// the defer is registered on every path after the spawn
					fa := p.FA(fn)
					path, _ := fa.ReachAfter(g, func(x ssa.Instruction) bool { _, ok := x.(*ssa.Return); return ok }, ReachOpts{Barrier: func(x ssa.Instruction) bool { _, ok := x.(*ssa.Defer); return ok }})
					c.Req(okSel && okDefer && path == nil, name, p.InstrPos(g), key, "quit channel: the goroutine selects on it and the spawner signals it on every return", fmt.Sprintf("selects=%v deferred-send=%v", okSel, okDefer))
					// the dual: the spawner's signal is a blocking send on an unbuffered channel, so the goroutine may end ONLY by
					// taking it — every return of the body lies behind the select
					bfa := p.FA(body)
					nret := 0
					for _, r := range Returns(body) {
						nret++
						okp, pth := bfa.PrecededBy(r, func(x ssa.Instruction) bool { _, ok := x.(*ssa.Select); return ok })
						c.Req(okp, p.Name(body), p.InstrPos(r), nthKey(key+":exit-only-on-quit", nret), "the helper goroutine ends only by receiving the quit signal: an earlier return leaves the spawner blocked for ever in its deferred send (the switchover that called it never returns, is never counted, never times out)", "path to this return without the select: "+bfa.PathString(pth))
					}
					// and the channel really is unbuffered or the send blocking: record which
					for _, bb := range fn.Blocks {
						for _, x := range bb.Instrs {
							if m, ok := x.(*ssa.MakeChan); ok {
								c.Req(p.T(m.Size).IsConst("0"), name, p.InstrPos(m), key+":unbuffered", "the quit channel is unbuffered (the send is a rendezvous; with a buffer the goroutine could outlive the call)", "size "+p.T(m.Size).String())
							}
						}
					}
				case "(*app.App).startSyncerGoroutine":
					c.Req(selectsOn(body, ctxDone), name, p.InstrPos(g), key, "context: the loop selects on the context whose cancel the spawner's caller defers (C19.SPAWN)", "")
				case fnRun:
					c.Req(selectsOn(body, ctxDone), name, p.InstrPos(g), key+":"+afterDot(p.Name(body)), "init-only spawn: a background loop that ends with the process context", "")
					// spawned outside the main loop
					head := loopHead(fn)
					c.Req(head == nil || !head.Dominates(b), name, p.InstrPos(g), key+":once", "spawned once, before the main loop", "")
				case "(*app.App).baseContext":
					c.Hold(name, p.InstrPos(g), key, "init-only: signal waiter of the process context")
				case "dcs.NewZookeeper":
					// ranges over the event channel, which the zk client closes
					ranges := false
					for _, bb := range body.Blocks {
						for _, x := range bb.Instrs {
							if u, ok := x.(*ssa.UnOp); ok && u.Op.String() == "<-" && u.CommaOk {
								ranges = true
							}
						}
					}
					c.Req(ranges, name, p.InstrPos(g), key, "init-only: the event loop ranges over the client's event channel and ends when it is closed", "")
				case "(*dcs.RandomHostProvider).Init":
					c.Req(selectsOn(body, ctxDone), name, p.InstrPos(g), key, "init-only: the resolver loop is started once per client connect and ends with the process context", "")
				case "dcs.NewRandomHostProvider", "log.ReOpenOnSignal":
					c.Hold(name, p.InstrPos(g), key, "init-only: started once by the constructor (host resolver / log re-open on signal)")
					// constructor is not reachable from periodic roots
				default:
					c.Fail(name, p.InstrPos(g), key, "every go statement matches a known bounded pattern (fan-out, quit channel, context loop, init-only)", "unknown spawn: triage it and extend the table")
				}
			}
		}
	}
	c.Req(n >= 12, "module", "-", "go-statements", "go statements found", fmt.Sprintf("%d", n))
	// init-only constructors are not reachable from the periodic handlers
	periodic := map[*ssa.Function]bool{}
	for _, r := range c.DaemonRoots() {
		if r.Class == "handler" || r.Class == "background" {
			for _, f := range c.reachableFuncs(r.Fn) {
				periodic[f] = true
			}
		}
	}
	for _, ctor := range []string{"dcs.NewZookeeper", "dcs.NewRandomHostProvider", "(*dcs.RandomHostProvider).Init", "log.ReOpenOnSignal", "(*app.App).baseContext"} {
		f := p.Func(ctor)
		if f == nil {
			continue
		}
		c.Req(!periodic[f], ctor, p.Pos(f.Pos()), "init-only:not-periodic", "an init-only spawner is not reachable from a state handler or a background loop", "")
	}
}

// ---------------------------------------------------------------------------

type lockedStruct struct {
	typ   string // short type name
	mutex string // mutex field name ("" = embedded sync.Mutex)
	ctors []string
}

func checkLockset(c *Check, reach map[*ssa.Function]bool) {
	p := c.p
	structs := []lockedStruct{
		{"dcs.zkDCS", "connectedLock", []string{"dcs.NewZookeeper"}},
		{"mysql.Cluster", "Mutex", []string{"mysql.NewCluster", "(*mysql.Cluster).registerLocalNode"}},
		{"mysql.Node", "mu|cacheMu", []string{"mysql.NewNode"}},
		{"app/dcs.OptimizationDCSAdapter", "<none>", []string{"app/dcs.NewOptimizationDCSAdapter"}},
		{"app.App", "daemonMutex", []string{"app.NewApp", "(*app.App).connectDCS", "(*app.App).newDBCluster", "(*app.App).lockFile", "(*app.App).initializeOptimizationModule", "(*app.App).cliInitApp"}},
	}
	// single-root fields of App (main loop only) and explanations
	mainOnly := map[string]string{
		"app.App.state": "written by the main loop only", "app.App.lostQuorumTime": "manager/candidate handlers only",
		"app.App.slaveReadPositions": "manager handler only", "app.App.replRepairState": "manager handler only",
		"app.App.optSyncer": "set by the first-run handler before any use", "app.App.optController": "set by the first-run handler before any use",
	}
	rootsOf := c.rootsOfFuncs()
	for _, ls := range structs {
		muts := strings.Split(ls.mutex, "|")
		isCtor := map[string]bool{}
		for _, k := range ls.ctors {
			isCtor[k] = true
		}
		type access struct {
			fn    *ssa.Function
			in    ssa.Instruction
			write bool
		}
		acc := map[string][]access{}
		for _, fn := range p.ModFuncs {
			if fn.Synthetic != "" {
				continue
			}
			for _, b := range fn.Blocks {
				for _, in := range b.Instrs {
					fad, ok := in.(*ssa.FieldAddr)
					if !ok {
						continue
					}
					fnm := fieldName(fad.X.Type(), fad.Field)
					if !strings.HasPrefix(fnm, ls.typ+".") {
						continue
					}
					for _, r := range *fad.Referrers() {
						switch u := r.(type) {
						case *ssa.Store:
							if u.Addr == ssa.Value(fad) {
								acc[fnm] = append(acc[fnm], access{fn, u, true})
							}
						case *ssa.UnOp:
							acc[fnm] = append(acc[fnm], access{fn, u, false})
							// map writes through the loaded map
							for _, rr := range *u.Referrers() {
								if mu, ok := rr.(*ssa.MapUpdate); ok && mu.Map == ssa.Value(u) {
									acc[fnm] = append(acc[fnm], access{fn, mu, true})
								}
								if call, ok := rr.(*ssa.Call); ok {
									if bi, ok := call.Call.Value.(*ssa.Builtin); ok && bi.Name() == "delete" {
										acc[fnm] = append(acc[fnm], access{fn, call, true})
									}
								}
							}
						}
					}
				}
			}
		}
		var fields []string
		for f := range acc {
			fields = append(fields, f)
		}
		sort.Strings(fields)
		for _, f := range fields {
			short := afterDot(f)
			skip := false
			for _, m := range muts {
				if short == m {
					skip = true
				}
			}
			if skip || short == "lockHeld" || short == "done" { // sync.Map / atomic: self-synchronised
				continue
			}
			mutable := false
			for _, a := range acc[f] {
				if a.write && !isCtor[p.Name(top(a.fn))] && !isCtor[p.Name(a.fn)] {
					mutable = true
				}
			}
			if !mutable {
				continue
			}
			if why, ok := mainOnly[f]; ok {
				// verify single root
				rs := map[string]bool{}
				for _, a := range acc[f] {
					if isCtor[p.Name(top(a.fn))] {
						continue
					}
					for r := range rootsOf[top(a.fn)] {
						rs[r] = true
					}
				}
				bg := []string{}
				for r := range rs {
					if !strings.Contains(r, ".state") {
						bg = append(bg, r)
					}
				}
				sort.Strings(bg)
				c.Req(len(bg) == 0, f, "-", "single-owner", "the field is accessed by the main loop's handlers only ("+why+")", "also reached from "+strings.Join(bg, ","))
				continue
			}
			bad := 0
			for _, a := range acc[f] {
				if isCtor[p.Name(top(a.fn))] || isCtor[p.Name(a.fn)] {
					continue
				}
				if !reach[top(a.fn)] && !reach[a.fn] {
					continue // CLI-only code: single goroutine
				}
				held := false
				for _, m := range muts {
					if c.lockHeldAt(a.fn, a.in, ls.typ, m, 0) {
						held = true
					}
				}
				if !held {
					bad++
					kind := "read"
					if a.write {
						kind = "write"
					}
					c.Fail(p.Name(a.fn), p.InstrPos(a.in), "unlocked-"+kind+" "+f, "a field of a struct shared by the daemon's loops that is written after construction is accessed only with the struct's mutex held", "")
				}
			}
			if bad == 0 {
				c.Hold(f, "-", "locked", fmt.Sprintf("%d accesses after construction, all under %s", len(acc[f]), ls.mutex))
			}
		}
	}
	// clocks: partition by constant type, single owner each
	owners := map[string]map[string]bool{}
	for fn := range reach {
		for _, ci := range p.Calls(fn, "(*app.Timings).Get", "(*app.Timings).Set", "(*app.Timings).SetIfZero", "(*app.Timings).Clean") {
			tt := p.T(ci.Common().Args[1])
			if tt.Op != "const" {
				c.Fail(p.Name(fn), p.InstrPos(ci), "clock-type", "clock accesses name their clock type by a constant (the maps are partitioned by it)", tt.String())
				continue
			}
			if owners[tt.Name] == nil {
				owners[tt.Name] = map[string]bool{}
			}
			for r := range rootsOf[top(fn)] {
				cls := "main"
				if !strings.Contains(r, ".state") {
					cls = r
				}
				owners[tt.Name][cls] = true
			}
		}
	}
	var tts []string
	for k := range owners {
		tts = append(tts, k)
	}
	sort.Strings(tts)
	for _, k := range tts {
		var os []string
		for o := range owners[k] {
			os = append(os, o)
		}
		sort.Strings(os)
		c.Req(len(os) == 1, "(*app.Timings)", "-", "clock "+k, "each clock map has a single owning root (the main loop counts as one)", strings.Join(os, ","))
	}
	c.Req(len(tts) >= 4, "(*app.Timings)", "-", "clocks", "clock types found", fmt.Sprintf("%d", len(tts)))
	// the outer map is never written after construction
	T := p.MustFunc("app.NewTimings")
	_ = T
	for _, m := range []string{"(*app.Timings).Set", "(*app.Timings).SetIfZero", "(*app.Timings).Clean"} {
		f := p.MustFunc(m)
		for _, b := range f.Blocks {
			for _, in := range b.Instrs {
				if mu, ok := in.(*ssa.MapUpdate); ok {
					mt := p.T(mu.Map)
					c.Req(mt.Op == "lookup", m, p.InstrPos(mu), "inner-map-only", "clock writes go to the inner map of their type; the outer map is read-only after construction", "")
				}
			}
		}
	}
}

// rootsOfFuncs maps each function to the daemon roots that reach it.
func (c *Check) rootsOfFuncs() map[*ssa.Function]map[string]bool {
	out := map[*ssa.Function]map[string]bool{}
	for _, r := range c.DaemonRoots() {
		for _, f := range c.reachableFuncs(r.Fn) {
			t := top(f)
			if out[t] == nil {
				out[t] = map[string]bool{}
			}
			out[t][r.Name] = true
			if out[f] == nil {
				out[f] = map[string]bool{}
			}
			out[f][r.Name] = true
		}
	}
	return out
}

// lockHeldAt: the mutex `mut` of the receiver struct is held at instruction `at`
// of fn — because a Lock precedes it on every path with no Unlock in between, or
// because every caller holds it.
func (c *Check) lockHeldAt(fn *ssa.Function, at ssa.Instruction, typ, mut string, depth int) bool {
	p := c.p
	if depth > 4 {
		return false
	}
	isLockOp := func(in ssa.Instruction, op string) bool {
		ci, ok := in.(ssa.CallInstruction)
		if !ok {
			return false
		}
		if _, isDefer := in.(*ssa.Defer); isDefer {
			return false
		}
		f := ci.Common().StaticCallee()
		if f == nil || p.Name(f) != "(*sync.Mutex)."+op {
			return false
		}
		recv := p.T(ci.Common().Args[0])
		if recv.Op != "fieldaddr" {
			return false
		}
		return recv.Name == typ+"."+mut
	}
	fa := p.FA(fn)
	// path from entry to `at` that does not execute Lock
	pathNoLock, _ := fa.Reach(func(in ssa.Instruction) bool { return in == at }, ReachOpts{Barrier: func(in ssa.Instruction) bool { return isLockOp(in, "Lock") }})
	localHeld := pathNoLock == nil
	if localHeld {
		// no Unlock between a Lock and the access
		for _, b := range fn.Blocks {
			for _, in := range b.Instrs {
				if isLockOp(in, "Unlock") {
					if pth, _ := fa.ReachAfter(in, func(x ssa.Instruction) bool { return x == at }, ReachOpts{Barrier: func(x ssa.Instruction) bool { return isLockOp(x, "Lock") }}); pth != nil {
						localHeld = false
					}
				}
			}
		}
	}
	if localHeld {
		return true
	}
	// closures: held at creation time in the parent (immediately invoked or deferred closures are not modelled) → no
	if fn.Parent() != nil {
		return false
	}
	// every caller holds it at the call site
	var sites []ssa.CallInstruction
	for _, g := range p.ModFuncs {
		for _, ci := range p.Calls(g, p.Name(fn)) {
			sites = append(sites, ci)
		}
	}
	if len(sites) == 0 {
		return false
	}
	for _, s := range sites {
		if !c.lockHeldAt(s.Parent(), s.(ssa.Instruction), typ, mut, depth+1) {
			return false
		}
	}
	return true
}
