package main

import (
	"fmt"
	"strings"

	"golang.org/x/tools/go/ssa"
)

const (
	fnFinish        = "(*app.App).FinishSwitchover"
	fnFail          = "(*app.App).FailSwitchover"
	fnStart         = "(*app.App).StartSwitchover"
	fnApproveSwitch = "(*app.App).approveSwitchover"
	fnOptPhase      = "(*app.App).optimizationPhase"
)

func init() {
	register("C06", "other",
		"The life cycle of the switch-request key as a typestate over three coordination keys, decided on every CFG path / call chain: "+
			"(WRITERS) the request key is created only with create-if-absent (CLI switch, automatic filing), re-written only by start/fail bookkeeping below 'a request exists', deleted only by the terminal bookkeeping or the operator's abort; the outcome keys are written only by the terminal bookkeeping; "+
			"(TERMINAL) the terminal bookkeeping deletes the request before it records the outcome, records 'succeeded' iff it was given no error, and stores the matching ok flag; "+
			"(COUNT) a failed attempt increments the attempt counter before the request is re-written; (LIMIT/ONCE) approval rejects planned switchovers at the attempt limit, judges quorum only on the first attempt, and a rejection must reach the terminal bookkeeping before the iteration returns; "+
			"(TIMEOUT) a request older than the timeout must reach the terminal bookkeeping (rejected) before the iteration returns; "+
			"(AFTER) after the procedure returns the outcome is recorded only if the request still exists, failure → fail bookkeeping, success → terminal bookkeeping(nil), on every path; "+
			"(NODOUBLE) a rejection made inside the procedure is followed by a non-nil error on every path; (SUCCESS) the procedure returns nil only after the promoted node was made writable and recorded as master; "+
			"(START) the procedure runs only after approval and start bookkeeping succeeded, and the light-maintenance parking branch reaches none of approve/start/fail/finish.",
		"wall-clock bounds, concurrent initiators beyond the atomic create, behaviour when coordination calls fail (C07)",
		runC06)
}

// cliRoots: exported Cli* methods of App.
func (c *Check) cliRoots() []Root {
	var out []Root
	for _, fn := range c.p.ModFuncs {
		n := c.p.Name(fn)
		if strings.HasPrefix(n, "(*app.App).Cli") && fn.Parent() == nil && !strings.Contains(n, "$") {
			out = append(out, Root{"cli", fn, n})
		}
	}
	return out
}

// chainVia reports whether the effect's call chain passes through a call to one of names.
func (c *Check) chainVia(e Effect, names ...string) bool {
	for _, ch := range e.Chain {
		if ci, ok := ch.(ssa.CallInstruction); ok && c.p.siteIs(ci, names...) {
			return true
		}
	}
	return false
}

func runC06(c *Check) {
	p := c.p
	m := newMgrCtx(c)
	M, fa, name := m.M, m.fa, m.name
	kSwitch, _ := p.ConstString("internal/app", "pathCurrentSwitch")
	kLast, _ := p.ConstString("internal/app", "pathLastSwitch")
	kRej, _ := p.ConstString("internal/app", "pathLastRejectedSwitch")

	c.Rule("C06.WRITERS", func() {
		type rule struct{ op, key string }
		allowedVia := map[rule][]string{
			{"Create", kSwitch}: {fnIssueFailover, "(*app.App).CliSwitch"},
			{"Set", kSwitch}:    {fnStart, fnFail},
			{"Delete", kSwitch}: {fnFinish, "(*app.App).CliAbort"},
			{"Set", kLast}:      {fnFinish},
			{"Set", kRej}:       {fnFinish},
		}
		n := 0
		seen := map[string]bool{}
		roots := append(c.DaemonRoots(), c.cliRoots()...)
		for _, r := range roots {
			for _, e := range c.eff.Collect(r.Fn, WalkOpts{}) {
				if !dcsWrite(e) || !(e.Key == kSwitch || e.Key == kLast || e.Key == kRej || e.Key == "?") {
					continue
				}
				k := e.String() + "@" + c.eff.ChainString(e) + "/" + r.Name // per call chain: the same write site is reached through several wrappers
				if seen[k] {
					continue
				}
				seen[k] = true
				n++
				via := allowedVia[rule{e.Op, e.Key}]
				ok := false
				for _, v := range via {
					if r.Name == v || c.chainVia(e, v) {
						ok = true
					}
				}
				c.Req(ok, r.Name, p.InstrPos(e.Site), e.String(), "request/outcome keys are written only by their designated writers (create-if-absent for filing, start/fail re-write, terminal delete + outcome, operator abort)", "chain: "+c.eff.ChainString(e))
			}
		}
		c.Req(n >= 6, name, "-", "writers-found", "the writers of the request and outcome keys are visible to the effect engine", fmt.Sprintf("%d", n))
		// start/fail in the manager iteration only below "a request exists"
		for i, ci := range p.Calls(M, fnStart, fnFail) {
			c.Gate(fa, ci, nthKey("rewrite", i+1), "the request is re-written only after it was read successfully in this iteration", p.NilErr(fnGetSwitch))
		}
		// CLI: success answer only after a successful create
		cli := p.MustFunc("(*app.App).CliSwitch")
		cfa := p.FA(cli)
		creates := p.Calls(cli, "(*app.App).CreateCurrentSwitchover")
		c.Req(len(creates) == 1, p.Name(cli), "-", "cli-create", "the CLI files through create-if-absent at one site", fmt.Sprintf("%d", len(creates)))
		for _, cr := range creates {
			path, hit := cfa.ReachAfter(cr, func(in ssa.Instruction) bool {
				r, ok := in.(*ssa.Return)
				if !ok {
					return false
				}
				k, _ := c.retKind(cfa, r, 0)
				return k == "const:0"
			}, ReachOpts{Cut: []LitPat{p.NilErr("(*app.App).CreateCurrentSwitchover")}})
			_ = hit
			c.Req(path == nil, p.Name(cli), p.InstrPos(cr), "cli-create:checked", "the CLI reports success only if the create succeeded ('exists' is reported as another switchover in progress)", "path: "+cfa.PathString(path))
		}
	})

	c.Rule("C06.TERMINAL", func() {
		f := p.MustFunc(fnFinish)
		ffa := p.FA(f)
		fname := p.Name(f)
		noErr := func(pos bool) LitPat {
			return func(l Lit) bool {
				return l.T.Op == "isnil" && l.Pos == pos && l.T.Args[0].Op == "param" && l.T.Args[0].Name == "2"
			}
		}
		deleted := p.NilErr("(app.IAppDCS).DeleteCurrentSwitchover")
		ok1, rej := p.Calls(f, "(app.IAppDCS).SetLastSwitchover"), p.Calls(f, "(app.IAppDCS).SetLastRejectedSwitchover")
		c.Req(len(ok1) == 1 && len(rej) == 1, fname, "-", "outcome-writes", "one 'succeeded' and one 'rejected' outcome write", fmt.Sprintf("%d/%d", len(ok1), len(rej)))
		for _, ci := range ok1 {
			c.Gate(ffa, ci, "succeeded:after-delete", "the outcome is recorded only after the request key was deleted", deleted)
			c.Gate(ffa, ci, "succeeded:iff-no-error", "'succeeded' is recorded only when no error was given", noErr(true))
		}
		for _, ci := range rej {
			c.Gate(ffa, ci, "rejected:after-delete", "the outcome is recorded only after the request key was deleted", deleted)
			c.Gate(ffa, ci, "rejected:iff-error", "'rejected' is recorded only when an error was given", noErr(false))
		}
		// every nil return passed an outcome write
		for i, rs := range c.SuccessSites(f, 0, "nil") {
			kind, call := c.valKind(ffa, rs.At, rs.Val)
			if kind == "call" && p.IsCall(call, "(app.IAppDCS).SetLastSwitchover", "(app.IAppDCS).SetLastRejectedSwitchover") {
				c.Hold(fname, p.InstrPos(rs.At), nthKey("nil-return", i+1), "the terminal bookkeeping's answer is the outcome write's answer")
				continue
			}
			c.Gate(ffa, rs.At, nthKey("nil-return", i+1), "the terminal bookkeeping succeeds only if an outcome write succeeded", p.NilErr("(app.IAppDCS).SetLastSwitchover"), p.NilErr("(app.IAppDCS).SetLastRejectedSwitchover"))
		}
		// Result.Ok follows the same test
		n := 0
		for _, b := range f.Blocks {
			for _, in := range b.Instrs {
				st, ok := in.(*ssa.Store)
				if !ok {
					continue
				}
				fa2, ok := st.Addr.(*ssa.FieldAddr)
				if !ok || fieldName(fa2.X.Type(), fa2.Field) != "app.SwitchoverResult.Ok" {
					continue
				}
				n++
				okv := false
				if phi, ok := st.Val.(*ssa.Phi); ok {
					okv = true
					for i, e := range phi.Edges {
						k, isC := e.(*ssa.Const)
						if !isC || k.Value == nil {
							okv = false
							continue
						}
						lits := ffa.incomingLits(phi.Block(), i, 0)
						want := k.Value.ExactString() == "true"
						found := false
						for _, l := range lits {
							if noErr(want)(l) {
								found = true
							}
						}
						if !found {
							okv = false
						}
					}
				}
				if !okv {
					// `ok := err == nil` stored directly: the value, taken as a condition, is the test itself
					has := func(ls []Lit, pat LitPat) bool {
						for _, l := range ls {
							if pat(l) {
								return true
							}
						}
						return false
					}
					okv = has(ffa.lits(st.Val, true, 0), noErr(true)) && has(ffa.lits(st.Val, false, 0), noErr(false))
				}
				c.Req(okv, fname, p.InstrPos(st), "result-ok-flag", "the stored ok flag is true exactly when no error was given", "stored "+p.T(st.Val).String())
			}
		}
		c.Req(n == 1, fname, "-", "result-ok-flag:site", "the ok flag is stored once", fmt.Sprintf("%d", n))
	})

	c.Rule("C06.COUNT", func() {
		f := p.MustFunc(fnFail)
		ffa := p.FA(f)
		var inc ssa.Instruction
		for _, b := range f.Blocks {
			for _, in := range b.Instrs {
				st, ok := in.(*ssa.Store)
				if !ok {
					continue
				}
				fa2, ok := st.Addr.(*ssa.FieldAddr)
				if !ok || fieldName(fa2.X.Type(), fa2.Field) != "app.Switchover.RunCount" {
					continue
				}
				v := p.T(st.Val)
				if v.Op == "bin" && v.Name == "+" && v.Args[0].IsField("RunCount") && v.Args[1].IsConst("1") {
					inc = st
				}
			}
		}
		c.Req(inc != nil, p.Name(f), p.Pos(f.Pos()), "runcount++", "a failed attempt increments the attempt counter", "")
		for _, ci := range p.Calls(f, "(app.IAppDCS).SetCurrentSwitchover") {
			ok, path := ffa.PrecededBy(ci, func(in ssa.Instruction) bool { return in == inc })
			c.Req(ok && inc != nil, p.Name(f), p.InstrPos(ci), "rewrite-after-count", "the request is re-written with the incremented counter", "path: "+ffa.PathString(path))
			c.Req(ci.Common().Args[0] == ssa.Value(f.Params[1]), p.Name(f), p.InstrPos(ci), "rewrite:same-record", "the record that is re-written is the one that was counted", "")
		}
	})

	c.Rule("C06.LIMIT", func() {
		f := p.MustFunc(fnApproveSwitch)
		ffa := p.FA(f)
		fname := p.Name(f)
		isFailover := CmpLit("==", func(t *Term) bool { return t.IsField("MasterTransition") }, func(t *Term) bool { return t.IsConst("failover") })
		noLimit := CmpLit("<=", func(t *Term) bool { return t.IsField("SwitchoverMaxAttempts") }, func(t *Term) bool { return t.IsConst("0") })
		below := CmpLit("<", func(t *Term) bool { return t.IsField("RunCount") }, func(t *Term) bool { return t.IsField("SwitchoverMaxAttempts") })
		sites := c.SuccessSites(f, 0, "nil")
		for i, rs := range sites {
			c.Gate(ffa, rs.At, nthKey("approve-nil", i+1), "a planned switchover is approved only below the attempt limit (failover-type requests and limit 0 are exempt)", isFailover, noLimit, below)
		}
		c.Req(len(sites) > 0, fname, "-", "approve-nil", "approval can succeed", "")
		// rejection reaches the terminal bookkeeping
		found := false
		for _, b := range M.Blocks {
			for si := range b.Succs {
				for _, l := range fa.EdgeLits(b, si) {
					if p.ErrNonNil(fnApproveSwitch)(l) {
						found = true
						errV := l.T.Args[0].V
						path, _ := fa.ReachFromEdge(b, si, func(in ssa.Instruction) bool { _, ok := in.(*ssa.Return); return ok }, ReachOpts{Barrier: func(in ssa.Instruction) bool {
							ci, ok := in.(ssa.CallInstruction)
							return ok && p.siteIs(ci, fnFinish) && ci.Common().Args[2] == errV
						}})
						c.Req(path == nil, name, p.InstrPos(blockIf(b)), "reject-edge:finish", "a rejected request reaches the terminal bookkeeping (with the rejection error) before the iteration returns", "path: "+fa.PathString(path))
					}
				}
			}
		}
		c.Req(found, name, "-", "reject-edge", "the iteration tests the approval result", "")
	})

	c.Rule("C06.ONCE", func() {
		f := p.MustFunc(fnApproveSwitch)
		ffa := p.FA(f)
		first := CmpLit("<=", func(t *Term) bool { return t.IsField("RunCount") }, func(t *Term) bool { return t.IsConst("0") })
		qs := p.Calls(f, fnQuorum)
		c.Req(len(qs) >= 1, p.Name(f), "-", "quorum-judgement", "approval judges quorum", "")
		for i, q := range qs {
			c.Gate(ffa, q, nthKey("quorum-judgement", i+1), "quorum is judged only on the first attempt (an approved request is not re-judged on retry)", first)
		}
	})

	c.Rule("C06.TIMEOUT", func() {
		timedOut := CmpLit("<", func(t *Term) bool { return t.IsField("SwitchoverTimeout") }, func(t *Term) bool {
			return p.IsCall(t, "time.Since") && t.Args[0].IsField("InitiatedAt")
		})
		found := false
		for _, b := range M.Blocks {
			for si := range b.Succs {
				for _, l := range fa.EdgeLits(b, si) {
					if timedOut(l) {
						found = true
						path, _ := fa.ReachFromEdge(b, si, func(in ssa.Instruction) bool { _, ok := in.(*ssa.Return); return ok }, ReachOpts{Barrier: func(in ssa.Instruction) bool {
							ci, ok := in.(ssa.CallInstruction)
							if !ok || !p.siteIs(ci, fnFinish) {
								return false
							}
							k, _ := c.valKind(fa, in, ci.Common().Args[2])
							return k == "nonnil"
						}})
						c.Req(path == nil, name, p.InstrPos(blockIf(b)), "edge(time.Since(InitiatedAt)>SwitchoverTimeout)", "a request older than the timeout reaches the terminal bookkeeping (rejected) before the iteration returns", "path to return without FinishSwitchover(err): "+fa.PathString(path))
						// and the performing path is on the other side
						for _, pc := range p.Calls(M, fnSwitch) {
							pth, _ := fa.ReachFromEdge(b, si, func(in ssa.Instruction) bool { return in == pc.(ssa.Instruction) }, ReachOpts{})
							c.Req(pth == nil, name, p.InstrPos(blockIf(b)), "timeout-edge:no-perform", "a timed-out request is not performed", "")
						}
					}
				}
			}
		}
		c.Req(found, name, "-", "timeout-test", "the iteration compares the request's age with the switchover timeout", "")
		// the timeout test dominates approval/start/perform
		for i, ci := range p.Calls(M, fnApproveSwitch, fnStart, fnSwitch) {
			notOld := func(l Lit) bool { return timedOut(Lit{l.T, !l.Pos}) }
			unset := func(l Lit) bool { return l.Pos && p.IsCall(l.T, "(time.Time).IsZero") && l.T.Args[0].IsField("InitiatedAt") }
			c.Gate(fa, ci, nthKey("within-timeout", i+1), "a request is processed only within the timeout (or without an initiation time)", notOld, unset)
		}
	})

	var pCall ssa.CallInstruction
	c.Rule("C06.START", func() {
		pcs := p.Calls(M, fnSwitch)
		if len(pcs) != 1 {
			panic(AnchorError{"single call of the switchover procedure in " + name})
		}
		pCall = pcs[0]
		c.Gate(fa, pCall, "perform:started", "the procedure runs only after the start bookkeeping succeeded", p.NilErr(fnStart))
		c.Gate(fa, pCall, "perform:approved", "the procedure runs only after approval", p.NilErr(fnApproveSwitch))
		c.Gate(fa, pCall, "perform:request-read", "the procedure runs only for a request read in this iteration", p.NilErr(fnGetSwitch))
		for _, s := range p.Calls(M, fnStart) {
			c.Gate(fa, s, "start:approved", "start bookkeeping only after approval", p.NilErr(fnApproveSwitch))
		}
		// same record flows through approve/start/perform/fail/finish
		rec := pCall.Common().Args[3]
		for i, ci := range p.Calls(M, fnApproveSwitch, fnStart, fnFail, fnFinish) {
			c.Req(ci.Common().Args[1] == rec, name, p.InstrPos(ci), nthKey("same-record", i+1), "approval, start, procedure and outcome bookkeeping all work on the record read in this iteration", "")
		}
		for _, g := range p.Calls(M, fnGetSwitch) {
			if ok, _ := fa.PrecededBy(pCall, func(in ssa.Instruction) bool { return in == g.(ssa.Instruction) }); ok {
				_, gargs := recvArgs(g)
				c.Req(len(gargs) == 1 && gargs[0] == rec, name, p.InstrPos(g), "read-record", "the record processed is the one read from the request key", "")
			}
		}
		// parking branch under light maintenance
		parked := false
		for _, b := range M.Blocks {
			for si := range b.Succs {
				isFo, isLight := false, false
				for _, l := range fa.EdgeLits(b, si) {
					if CmpLit("==", func(t *Term) bool { return t.IsField("MasterTransition") }, func(t *Term) bool { return t.IsConst("failover") })(l) {
						isFo = true
					}
				}
				if !isFo {
					continue
				}
				if ok, _ := fa.Gated(b.Instrs[len(b.Instrs)-1], m.light(true)); ok {
					isLight = true
				}
				if !isLight {
					continue
				}
				parked = true
				path, hit := fa.ReachFromEdge(b, si, isCallTo(p, fnApproveSwitch, fnStart, fnFail, fnFinish, fnSwitch), ReachOpts{})
				det := ""
				if hit != nil {
					det = p.InstrPos(hit) + " via " + fa.PathString(path)
				}
				c.Req(path == nil, name, p.InstrPos(blockIf(b)), "parking-branch", "a failover-type request under light maintenance is parked: none of approve/start/perform/fail/finish is reachable", det)
			}
		}
		c.Req(parked, name, "-", "parking-branch:exists", "light maintenance parks failover-type requests", "")
	})

	c.Rule("C06.AFTER", func() {
		if pCall == nil {
			panic(AnchorError{"call of the switchover procedure"})
		}
		still := func(l Lit) bool {
			if !p.ErrIs(false, "dcs.ErrNotFound", fnGetSwitch)(l) {
				return false
			}
			// the re-read happens after the procedure
			var rd ssa.CallInstruction
			for _, a := range l.T.Args[0].Alts() {
				if r := ResultOf(a, -1); r != nil {
					rd, _ = r.In.(ssa.CallInstruction)
				}
			}
			if rd == nil {
				return false
			}
			ok, _ := fa.PrecededBy(rd, func(in ssa.Instruction) bool { return in == pCall.(ssa.Instruction) })
			return ok
		}
		perr := pCall.(ssa.Value)
		n := 0
		for _, ci := range p.Calls(M, fnFail, fnFinish) {
			if ok, _ := fa.PrecededBy(ci, func(in ssa.Instruction) bool { return in == pCall.(ssa.Instruction) }); !ok {
				continue
			}
			n++
			k := nthKey("after:"+afterDot(p.CalleeNames(ci)[0]), n)
			c.Gate(fa, ci, k+":still-exists", "after the procedure the outcome is recorded only if the request still exists (an abort or an in-procedure rejection is not overwritten)", still)
			if p.siteIs(ci, fnFinish) {
				c.Req(p.T(ci.Common().Args[2]).IsConst("nil"), name, p.InstrPos(ci), k+":arg", "after the procedure the terminal bookkeeping records success", "")
				c.Gate(fa, ci, k+":on-success", "success is recorded only if the procedure returned nil", func(l Lit) bool {
					return l.T.Op == "isnil" && l.Pos && l.T.Args[0].V == perr
				})
			} else {
				c.Req(ci.Common().Args[2] == perr, name, p.InstrPos(ci), k+":arg", "the failure recorded is the procedure's error", "")
				c.Gate(fa, ci, k+":on-failure", "a failed attempt is recorded only if the procedure returned an error", func(l Lit) bool {
					return l.T.Op == "isnil" && !l.Pos && l.T.Args[0].V == perr
				})
			}
		}
		c.Req(n == 2, name, "-", "after:sites", "one fail and one finish site after the procedure", fmt.Sprintf("%d", n))
		// must-reach on both outcomes
		for _, b := range M.Blocks {
			for si := range b.Succs {
				for _, l := range fa.EdgeLits(b, si) {
					if l.T.Op != "isnil" || l.T.Args[0].V != perr {
						continue
					}
					want := fnFail
					if l.Pos {
						want = fnFinish
					}
					path, _ := fa.ReachFromEdge(b, si, func(in ssa.Instruction) bool { _, ok := in.(*ssa.Return); return ok }, ReachOpts{Barrier: isCallTo(p, want)})
					c.Req(path == nil, name, p.InstrPos(blockIf(b)), "after:must-record:"+afterDot(want), "once the request is known to still exist, the outcome bookkeeping is reached on every path", "path: "+fa.PathString(path))
				}
			}
		}
	})

	c.Rule("C06.NODOUBLE", func() {
		n := 0
		for _, fname := range []string{fnSwitch, fnOptPhase} {
			f := p.MustFunc(fname)
			ffa := p.FA(f)
			for _, ci := range p.Calls(f, fnFinish) {
				n++
				bad := ""
				for _, r := range Returns(f) {
					pth, _ := ffa.ReachAfter(ci, func(in ssa.Instruction) bool { return in == ssa.Instruction(r) }, ReachOpts{})
					if pth == nil {
						continue
					}
					if k, _ := c.retKind(ffa, r, 0); k != "nonnil" {
						bad = p.InstrPos(r) + " returns " + k
					}
				}
				c.Req(bad == "", fname, p.InstrPos(ci), nthKey("finish-inside", n), "a rejection recorded inside the procedure is followed by a non-nil error on every path (the iteration never finishes it twice)", bad)
			}
		}
		// the procedure propagates the phase's error
		P := p.MustFunc(fnSwitch)
		pfa := p.FA(P)
		for _, b := range P.Blocks {
			for si := range b.Succs {
				for _, l := range pfa.EdgeLits(b, si) {
					if p.ErrNonNil(fnOptPhase)(l) {
						bad := ""
						for _, r := range Returns(P) {
							pth, _ := pfa.ReachFromEdge(b, si, func(in ssa.Instruction) bool { return in == ssa.Instruction(r) }, ReachOpts{})
							if pth != nil {
								if k, _ := c.retKind(pfa, r, 0); k != "nonnil" {
									bad = p.InstrPos(r) + " returns " + k
								}
							}
						}
						c.Req(bad == "", fnSwitch, p.InstrPos(blockIf(b)), "phase-error-propagates", "an error of the pre-switchover phase (which may have rejected the request) makes the procedure return an error", bad)
					}
				}
			}
		}
		c.Req(n >= 1, fnSwitch, "-", "finish-inside:sites", "in-procedure rejections exist", "")
	})

	c.Rule("C06.SUCCESS", func() {
		P, target := promotionTarget(c)
		pfa := p.FA(P)
		recvT := p.T(target.Common().Args[0])
		sites := c.SuccessSites(P, 0, "nil")
		for i, rs := range sites {
			wr := func(l Lit) bool {
				if !p.NilErr("(*mysql.Node).SetWritable")(l) {
					return false
				}
				return callInstr(l) == target
			}
			c.Gate(pfa, rs.At, nthKey("nil", i+1)+":writable", "the procedure succeeds only after the promoted node was made writable without error", wr)
			rec := func(l Lit) bool {
				if !p.NilErr("(*app.App).SetMasterHost")(l) {
					return false
				}
				ci := callInstr(l)
				return ci != nil && sameHostCell(p, p.T(ci.Common().Args[1]), recvT)
			}
			c.Gate(pfa, rs.At, nthKey("nil", i+1)+":recorded", "the procedure succeeds only after the promoted host was recorded as master without error", rec)
		}
		c.Req(len(sites) >= 1, fnSwitch, "-", "nil:sites", "the procedure can succeed", "")
	})
}
