package main

import (
	"fmt"
	"sort"
	"strings"

	"golang.org/x/tools/go/ssa"
)

func init() {
	register("C02", "other",
		"Deliberately narrow: the only structural condition that belongs to single-fault tolerance and to no other property is the recoverability of the daemon's mode automaton, extracted from Run's handler table and the handlers' return values over all paths: "+
			"(i) every state a handler (or the helper it delegates to) can return is a key of the handler table, and the quorum helper's empty state is returned only together with ok=true and used only when ok is false; "+
			"(ii) the manager and candidate handlers test the connection before anything else and answer Lost exactly when not connected; (iii) the lost handler answers Candidate exactly when connected; "+
			"(iv) in the transition graph Manager is reachable from every state and Lost from Manager and Candidate; (v) the main loop re-dispatches until the state is stable and stores the handler's answer as the next state. "+
			"The safety half of the statement is the conjunction of C01/C03/C04/C07/C08/C10/C11 and is not re-claimed here.",
		"no acknowledged loss, exactly one writable master after healing, no second node acknowledging writes while the fault lasts: end-to-end properties of several daemons, MySQL replication and ZooKeeper over fault sequences and time",
		runC02)
}

// stateReturns collects the state constants function fn can return as result #idx.
func (c *Check) stateReturns(fn *ssa.Function, idx int, seen map[*ssa.Function]bool) map[string]bool {
	out := map[string]bool{}
	if seen[fn] {
		return out
	}
	seen[fn] = true
	p := c.p
	for _, r := range Returns(fn) {
		if idx >= len(r.Results) {
			continue
		}
		t := p.T(r.Results[idx])
		for _, a := range t.Alts() {
			switch {
			case a.Op == "const":
				out[a.Name] = true
			default:
				call := ResultOf(a, -1)
				ri := 0
				if a.Op == "extract" {
					fmt.Sscanf(a.Name, "%d", &ri)
				}
				if call != nil {
					if ci, ok := call.In.(ssa.CallInstruction); ok {
						for _, cal := range p.Callees(ci) {
							if p.InModule(cal) {
								for k := range c.stateReturns(cal, ri, seen) {
									out[k] = true
								}
								continue
							}
							out["?"] = true
						}
						continue
					}
				}
				out["?:"+a.String()] = true
			}
		}
	}
	return out
}

func runC02(c *Check) {
	p := c.p
	run := p.MustFunc(fnRun)
	rfa := p.FA(run)
	// table
	table := map[string]*ssa.Function{}
	for _, b := range run.Blocks {
		for _, in := range b.Instrs {
			if mu, ok := in.(*ssa.MapUpdate); ok {
				k := p.T(mu.Key)
				if k.Op != "const" {
					continue
				}
				if mc, ok := mu.Value.(*ssa.MakeClosure); ok {
					if t := boundTarget(mc.Fn.(*ssa.Function)); t != nil {
						table[k.Name] = t
					} else {
						table[k.Name] = mc.Fn.(*ssa.Function)
					}
				}
			}
		}
	}
	var states []string
	for k := range table {
		states = append(states, k)
	}
	sort.Strings(states)
	c.extra["states"] = len(states)
	c.extra["state_names"] = states
	graph := map[string]map[string]bool{}

	c.Rule("C02.AUTO-i", func() {
		c.Req(len(table) >= 5, fnRun, "-", "table", "the handler table was extracted from Run", fmt.Sprintf("%d entries", len(table)))
		ntr := 0
		for _, s := range states {
			h := table[s]
			rets := c.stateReturns(h, 0, map[*ssa.Function]bool{})
			graph[s] = map[string]bool{}
			var ks []string
			for k := range rets {
				ks = append(ks, k)
			}
			sort.Strings(ks)
			for _, k := range ks {
				if k == "" {
					// only through the quorum helper, checked below
					continue
				}
				ntr++
				_, ok := table[k]
				graph[s][k] = true
				c.Req(ok, p.Name(h), p.Pos(h.Pos()), "transition "+s+"→"+k, "every state a handler can answer has a handler (otherwise the main loop panics)", "")
			}
		}
		c.extra["transitions"] = ntr
		// initial state
		NA := p.MustFunc("app.NewApp")
		okInit := false
		for _, b := range NA.Blocks {
			for _, in := range b.Instrs {
				if st, ok := in.(*ssa.Store); ok {
					if fad, ok := st.Addr.(*ssa.FieldAddr); ok && fieldName(fad.X.Type(), fad.Field) == "app.App.state" {
						if _, ok := table[p.T(st.Val).Name]; ok {
							okInit = true
						}
					}
				}
			}
		}
		c.Req(okInit, p.Name(NA), "-", "initial-state", "the initial state has a handler", "")
		// quorum helper
		Q := p.MustFunc("(*app.App).checkQuorum")
		qfa := p.FA(Q)
		for i, r := range Returns(Q) {
			s, ok := p.T(r.Results[0]), p.T(r.Results[1])
			if s.IsConst("") {
				c.Req(ok.IsConst("true"), p.Name(Q), p.InstrPos(r), nthKey("quorum-return", i+1), "the empty state is answered only together with ok=true", "")
			} else {
				_, has := table[s.Name]
				c.Req(has && ok.IsConst("false"), p.Name(Q), p.InstrPos(r), nthKey("quorum-return", i+1), "a state answered with ok=false has a handler", "")
			}
		}
		_ = qfa
		M := p.MustFunc(fnManager)
		mfa := p.FA(M)
		for i, r := range Returns(M) {
			t := p.T(r.Results[0])
			if rr := ResultOf(t, 0); rr != nil && p.IsCall(rr, "(*app.App).checkQuorum") {
				c.Gate(mfa, r, nthKey("quorum-state-used", i+1), "the quorum helper's state is used only when ok is false", func(l Lit) bool {
					x := ResultOf(l.T, 1)
					return !l.Pos && x != nil && x.V == rr.V
				})
			}
		}
	})

	connected := func(val bool) LitPat {
		return func(l Lit) bool { return l.Pos == val && p.IsCall(l.T, "(dcs.DCS).IsConnected") }
	}
	c.Rule("C02.AUTO-ii", func() {
		for _, hn := range []string{fnManager, fnCandidate} {
			h := p.MustFunc(hn)
			hfa := p.FA(h)
			tests := p.Calls(h, "(dcs.DCS).IsConnected")
			c.Req(len(tests) == 1, hn, "-", "connection-test", "the handler tests the connection once", fmt.Sprintf("%d", len(tests)))
			if len(tests) != 1 {
				continue
			}
			// first: every other call is preceded by it
			n := 0
			for _, b := range h.Blocks {
				for _, in := range b.Instrs {
					ci, ok := in.(ssa.CallInstruction)
					if !ok || ci == tests[0] {
						continue
					}
					if pre, _ := hfa.PrecededBy(ci, func(x ssa.Instruction) bool { return x == tests[0].(ssa.Instruction) }); !pre {
						n++
						c.Fail(hn, p.InstrPos(ci), nthKey("before-connection-test", n), "nothing happens before the connection test", p.CalleeNames(ci)[0])
					}
				}
			}
			if n == 0 {
				c.Hold(hn, p.InstrPos(tests[0]), "connection-test:first", "the connection test precedes every other call")
			}
			nl := 0
			for i, r := range Returns(h) {
				k, _ := c.retKind(hfa, r, 0)
				if k == "const:Lost" {
					nl++
					c.Gate(hfa, r, nthKey("to-lost", i+1), "Lost is answered only when not connected", connected(false))
				}
			}
			c.Req(nl >= 1, hn, "-", "to-lost", "the handler can notice the loss", "")
			// not connected → always Lost
			for _, b := range h.Blocks {
				for si := range b.Succs {
					for _, l := range hfa.EdgeLits(b, si) {
						if connected(false)(l) {
							bad := ""
							for _, r := range Returns(h) {
								pth, _ := hfa.ReachFromEdge(b, si, func(in ssa.Instruction) bool { return in == ssa.Instruction(r) }, ReachOpts{})
								if pth != nil {
									if k, _ := c.retKind(hfa, r, 0); k != "const:Lost" {
										bad = p.InstrPos(r) + " " + k
									}
								}
							}
							c.Req(bad == "", hn, p.InstrPos(blockIf(b)), "not-connected→lost", "when not connected the handler always answers Lost", bad)
						}
					}
				}
			}
		}
	})

	c.Rule("C02.AUTO-iii", func() {
		L := p.MustFunc(fnLost)
		lfa := p.FA(L)
		n := 0
		for i, r := range Returns(L) {
			k, _ := c.retKind(lfa, r, 0)
			if k == "const:Candidate" {
				n++
				c.Gate(lfa, r, nthKey("back", i+1), "the lost handler answers Candidate only when connected", connected(true))
			}
		}
		c.Req(n >= 1, fnLost, "-", "back", "the lost handler can come back", "")
		for _, b := range L.Blocks {
			for si := range b.Succs {
				for _, l := range lfa.EdgeLits(b, si) {
					if connected(true)(l) {
						bad := ""
						for _, r := range Returns(L) {
							pth, _ := lfa.ReachFromEdge(b, si, func(in ssa.Instruction) bool { return in == ssa.Instruction(r) }, ReachOpts{})
							if pth != nil {
								if k, _ := c.retKind(lfa, r, 0); k != "const:Candidate" {
									bad = p.InstrPos(r) + " " + k
								}
							}
						}
						c.Req(bad == "", fnLost, p.InstrPos(blockIf(b)), "connected→candidate", "when connected the lost handler always answers Candidate", bad)
					}
				}
			}
		}
		// the connection test is the first decision
		tests := p.Calls(L, "(dcs.DCS).IsConnected")
		c.Req(len(tests) == 1, fnLost, "-", "connection-test", "one connection test", "")
	})

	c.Rule("C02.AUTO-iv", func() {
		reach := func(from string) map[string]bool {
			seen := map[string]bool{}
			var rec func(s string)
			rec = func(s string) {
				for t := range graph[s] {
					if !seen[t] {
						seen[t] = true
						rec(t)
					}
				}
			}
			rec(from)
			return seen
		}
		for _, s := range states {
			r := reach(s)
			c.Req(r["Manager"] || s == "Manager", fnRun, "-", "reach:"+s+"→Manager", "the manager state is reachable from every state", fmt.Sprint(r))
		}
		for _, s := range []string{"Manager", "Candidate"} {
			c.Req(graph[s]["Lost"], fnRun, "-", "edge:"+s+"→Lost", "a connected mode has a direct transition to Lost", "")
		}
		c.Req(graph["Lost"]["Candidate"], fnRun, "-", "edge:Lost→Candidate", "Lost leads back to Candidate", "")
		c.Req(graph["Candidate"]["Manager"] && graph["FirstRun"]["Manager"] && graph["Maintenance"]["Manager"], fnRun, "-", "edges:→Manager", "Candidate, FirstRun and Maintenance lead to Manager directly", "")
		var es []string
		for _, s := range states {
			var ts []string
			for t := range graph[s] {
				ts = append(ts, t)
			}
			sort.Strings(ts)
			es = append(es, s+"→{"+strings.Join(ts, ",")+"}")
		}
		c.extra["graph"] = es
	})

	c.Rule("C02.AUTO-v", func() {
		// the dynamic handler call, its comparison with the current state and the store of the next state
		var dyn ssa.CallInstruction
		for _, b := range run.Blocks {
			for _, in := range b.Instrs {
				if ci, ok := in.(ssa.CallInstruction); ok && ci.Common().StaticCallee() == nil && !ci.Common().IsInvoke() {
					if _, isB := ci.Common().Value.(*ssa.Builtin); !isB {
						if _, isGo := in.(*ssa.Go); !isGo {
							if _, isDefer := in.(*ssa.Defer); !isDefer {
								dyn = ci
							}
						}
					}
				}
			}
		}
		if dyn == nil {
			panic(AnchorError{"handler dispatch in " + fnRun})
		}
		hv := p.T(dyn.Common().Value)
		c.Req(hv.Op == "lookup" && hv.Args[1].IsField("state"), fnRun, p.InstrPos(dyn), "dispatch:by-state", "the handler called is the table entry of the current state", "is "+hv.String())
		c.Gate(rfa, dyn, "dispatch:non-nil", "a missing handler is detected before the call", func(l Lit) bool { return l.T.Op == "isnil" && !l.Pos && sameValue(l.T.Args[0], hv) })
		stable := CmpLit("==", func(t *Term) bool { return t.V == dyn.(ssa.Value) }, func(t *Term) bool { return t.IsField("state") })
		var st *ssa.Store
		for _, b := range run.Blocks {
			for _, in := range b.Instrs {
				if s, ok := in.(*ssa.Store); ok {
					if fad, ok := s.Addr.(*ssa.FieldAddr); ok && fieldName(fad.X.Type(), fad.Field) == "app.App.state" {
						st = s
					}
				}
			}
		}
		c.Req(st != nil && st.Val == dyn.(ssa.Value), fnRun, "-", "next-state:stored", "the handler's answer becomes the next state", "")
		if st != nil {
			c.Gate(rfa, st, "next-state:on-change", "the state is stored when it changed", func(l Lit) bool { return stable(Lit{l.T, !l.Pos}) })
			// after storing, the dispatch is reached again without waiting for the ticker
			pth, _ := rfa.ReachAfter(st, func(in ssa.Instruction) bool { return in == dyn.(ssa.Instruction) }, ReachOpts{Barrier: func(in ssa.Instruction) bool { _, ok := in.(*ssa.Select); return ok }})
			c.Req(pth != nil, fnRun, p.InstrPos(st), "re-dispatch", "after a state change the new state's handler runs immediately (states are run without sleep while the state changes)", "")
		}
		// the inner loop is left only when the state is stable
		for _, b := range run.Blocks {
			for si := range b.Succs {
				for _, l := range rfa.EdgeLits(b, si) {
					if stable(l) {
						pth, _ := rfa.ReachFromEdge(b, si, func(in ssa.Instruction) bool { return in == dyn.(ssa.Instruction) }, ReachOpts{Barrier: func(in ssa.Instruction) bool { _, ok := in.(*ssa.Select); return ok }})
						c.Req(pth == nil, fnRun, p.InstrPos(blockIf(b)), "stable→wait", "a stable state waits for the next tick", "")
					}
				}
			}
		}
	})
	extraC02(c)
}
