package main

import "fmt"

func cmdMutate(args []string) int { return 2 }

func cmdEffects(args []string) {
	p := LoadProg(repoRoot(), nil)
	e := NewEffects(p)
	for _, name := range args {
		fn := p.Func(name)
		if fn == nil {
			fmt.Println("no such function", name)
			continue
		}
		fmt.Println("===", name)
		for _, ef := range e.Collect(fn, WalkOpts{}) {
			if ef.Kind == "SQL" && (ef.Key == "READ" || ef.Key == "SESSION") {
				continue
			}
			fmt.Printf("  %-50s %s\n", ef.String(), e.ChainString(ef))
		}
	}
}
