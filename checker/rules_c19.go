package main

import (
	"fmt"
	"strings"

	"golang.org/x/tools/go/ssa"
)

const (
	optPkg        = "app/optimization."
	fnSync        = "(*app/optimization.Syncer).Sync"
	fnBalance     = "(*app/optimization.Syncer).balanceToSingleNode"
	fnStopNodes   = "(*app/optimization.Syncer).stopNodes"
	fnStartNodes  = "(*app/optimization.Syncer).startNodes"
	fnDisableNs   = "(*app/optimization.Syncer).disableNodes"
	fnSyncOpts    = "(*app/optimization.Syncer).syncNodeOptions"
	fnCtlDisable  = "(*app/optimization.Controller).disable"
	fnCtlWaitStep = "(*app/optimization.Controller).isOptimizedDuringWaiting"
	optDelete     = "(app/optimization.DCS).DeleteHosts"
	optRestore    = "(app/optimization.Node).SetReplicationSettings"
	optRelax      = "(app/optimization.Node).OptimizeReplication"
	fnStopOpt     = "(*app.App).stopActiveNodeOptimization"
)

func init() {
	register("C19", "other",
		"Restore-before-deregister, single relaxed host and the order before the freeze, on every CFG path: "+
			"(RESTORE) every deregistration from the optimisation registry is below a successful restore of the master's settings on the same host(s) (the bulk restore answers nil only if every host was restored or is no longer a registered cluster host); "+
			"(SINGLE) relaxed settings are applied only by the syncer's two helpers, for the first not-yet-optimising host when none is optimising, or for the first optimising host after the surplus was stopped; more than one optimising host must reach the stop of the surplus; "+
			"(CLASSIFY) hosts classified as master, without known lag, or converged flow only into restore-then-deregister; "+
			"(PRESWITCH) the switchover freezes only after the candidates' optimisation was switched off, and nothing that registers a host or relaxes settings may run between that switch-off and the freeze without a restore of its own; "+
			"(SPAWN) the speed-up phase's sync goroutine is bound to a context whose cancel its spawner defers. "+
			"RESTORE fails at the waiting routine and PRESWITCH at the speed-up phase on the pinned tree: recorded as known findings (DESIGN.md section 6, F11).",
		"lag values, the effect of failing settings statements on real servers",
		runC19)
}

func runC19(c *Check) {
	p := c.p

	c.Rule("C19.RESTORE", func() {
		n := 0
		for _, fn := range p.ModFuncs {
			if !strings.Contains(p.Name(fn), "optimization") {
				continue
			}
			for _, d := range p.Calls(fn, optDelete) {
				n++
				name := p.Name(fn)
				fa := p.FA(fn)
				var hosts []ssa.Value
				if v := c.eff.variadic(d.Common().Args[0]); v != nil {
					hosts = v
				}
				switch name {
				case fnCtlDisable, fnCtlWaitStep:
					// single host: node.Host(); restore on the same node
					okh := len(hosts) == 1 && p.IsCall(p.T(hosts[0]), "(app/optimization.Node).Host")
					var node *Term
					if okh {
						node = p.T(hosts[0]).Args[0]
					}
					restored := func(l Lit) bool {
						if !p.NilErr(optRestore)(l) {
							return false
						}
						ci := callInstr(l)
						return ci != nil && node != nil && ci.Common().Value == node.V
					}
					ok, path := fa.Gated(d, restored)
					c.Req(okh && ok, name, p.InstrPos(d), "deregister-after-restore", "a host is dropped from the optimisation registry only after the master's settings were restored on it", "path to the deregistration without a restore: "+fa.PathString(path))
				case fnDisableNs:
					var stop ssa.CallInstruction
					bulk := func(l Lit) bool {
						if !p.NilErr(fnStopNodes)(l) {
							return false
						}
						stop = callInstr(l)
						return stop != nil
					}
					if c.Gate(fa, d, "bulk-deregister-after-restore", "hosts are dropped only after the bulk restore answered nil", bulk) {
						c.Req(stop.Common().Args[2] == d.Common().Args[0], name, p.InstrPos(d), "bulk:same-hosts", "the hosts dropped are the hosts restored", "")
					}
				default:
					c.Fail(name, p.InstrPos(d), "deregister-site", "every deregistration site is known to the checker (triage and extend)", "unknown site")
				}
			}
		}
		c.Req(n == 3, "internal/app/optimization", "-", "deregister-sites", "three deregistration sites", fmt.Sprintf("%d", n))
		// bulk restore: nil only if every host was restored or is absent from the cluster registry
		S := p.MustFunc(fnStopNodes)
		sfa := p.FA(S)
		head := loopHead(S)
		if head == nil {
			panic(AnchorError{"loop in " + fnStopNodes})
		}
		nb := 0
		for _, b := range S.Blocks {
			for si, s := range b.Succs {
				if s != head || !head.Dominates(b) {
					continue
				}
				nb++
				absent := func(l Lit) bool { return l.T.Op == "isnil" && l.Pos && p.IsCall(l.T.Args[0], "(app/optimization.Cluster).GetNode") }
				restored := p.NilErr(optRestore)
				okEdge := false
				for _, l := range sfa.EdgeLits(b, si) {
					if absent(l) || restored(l) {
						okEdge = true
					}
				}
				if !okEdge {
					g, _ := sfa.Gated(b.Instrs[len(b.Instrs)-1], absent, restored)
					okEdge = g
				}
				c.Req(okEdge, fnStopNodes, p.InstrPos(b.Instrs[len(b.Instrs)-1]), nthKey("next-host", nb), "the bulk restore moves on to the next host only after this one was restored or found absent from the cluster registry", "")
			}
		}
		c.Req(nb >= 2, fnStopNodes, "-", "loop-edges", "loop continuation edges found", fmt.Sprintf("%d", nb))
		for _, r := range p.Calls(S, optRestore) {
			t := p.T(r.Common().Value)
			c.Req(p.IsCall(t, "(app/optimization.Cluster).GetNode") && t.Args[1].Op == "index" && t.Args[1].Args[0].Op == "param" && t.Args[1].Args[0].Name == "2", fnStopNodes, p.InstrPos(r), "restore:which", "the node restored is the registry node of the listed host", "")
			c.Req(p.T(r.Common().Args[0]).Op == "param" && p.T(r.Common().Args[0]).Name == "3", fnStopNodes, p.InstrPos(r), "restore:settings", "the settings restored are the master's settings given by the caller", "")
		}
		for i, rs := range c.SuccessSites(S, 0, "nil") {
			exhausted := func(l Lit) bool {
				a, b, op, ok := Cmp(l)
				return ok && op == "<=" && a.Op == "len" && b != nil
			}
			c.Gate(sfa, rs.At, nthKey("bulk-nil", i+1), "the bulk restore answers nil only after the list is exhausted", exhausted)
		}
	})

	c.Rule("C19.SINGLE", func() {
		// relax sites
		n := 0
		for _, fn := range p.ModFuncs {
			for _, ci := range p.Calls(fn, optRelax, "(*mysql.Node).OptimizeReplication") {
				n++
				name := p.Name(fn)
				c.Req(name == fnStartNodes || name == fnSyncOpts, name, p.InstrPos(ci), "relax-site", "relaxed settings are applied only by the syncer's start and re-sync helpers", "")
			}
		}
		c.Req(n == 2, "internal/app/optimization", "-", "relax-sites", "two relax sites", fmt.Sprintf("%d", n))
		B := p.MustFunc(fnBalance)
		bfa := p.FA(B)
		optimizing := func(t *Term) bool { return t.IsField("OptimizingHosts") }
		lenIs := func(k string) LitPat {
			return CmpLit("==", func(t *Term) bool { return t.Op == "len" && optimizing(t.Args[0]) }, func(t *Term) bool { return t.IsConst(k) })
		}
		for _, s := range p.Calls(B, fnStartNodes) {
			arg := p.T(s.Common().Args[2])
			ok := arg.Op == "slice" && arg.Args[0].IsField("DisabledHosts") && len(arg.Args) == 3 && arg.Args[1].IsConst("0") && arg.Args[2].IsConst("1")
			c.Req(ok, fnBalance, p.InstrPos(s), "start:one-host", "optimisation is started for one host (the first not-yet-optimising one)", "argument "+arg.String())
			c.Gate(bfa, s, "start:none-optimising", "… and only when no host is optimising", lenIs("0"))
		}
		surplusStopped := func(l Lit) bool {
			if !p.NilErr(fnStopNodes)(l) {
				return false
			}
			ci := callInstr(l)
			if ci == nil {
				return false
			}
			a := p.T(ci.Common().Args[2])
			return a.Op == "slice" && optimizing(a.Args[0]) && a.Args[1].IsConst("1") && len(a.Args) == 2
		}
		k := 0
		for _, s := range p.Calls(B, fnSyncOpts) {
			k++
			h := p.T(s.Common().Args[1])
			c.Req(h.Op == "index" && optimizing(h.Args[0]) && h.Args[1].IsConst("0"), fnBalance, p.InstrPos(s), nthKey("resync", k)+":first", "settings are re-synced for the first optimising host only", "")
			lenOf := func(t *Term) bool { return t.Op == "len" && optimizing(t.Args[0]) }
			atMostOne := CmpLit("<=", lenOf, func(t *Term) bool { return t.IsConst("1") }) // ¬(1 < len)
			nonEmpty := func(l Lit) bool {
				return CmpLit("!=", lenOf, func(t *Term) bool { return t.IsConst("0") })(l) || CmpLit("<", func(t *Term) bool { return t.IsConst("0") }, lenOf)(l) ||
					CmpLit("<=", func(t *Term) bool { return t.IsConst("1") }, lenOf)(l)
			}
			c.Gate(bfa, s, nthKey("resync", k)+":single", "… when it is the only one, or after the surplus was stopped", lenIs("1"), atMostOne, surplusStopped)
			c.Gate(bfa, s, nthKey("resync", k)+":non-empty", "… and there is one (the surplus branch implies more than one)", lenIs("1"), nonEmpty, surplusStopped)
		}
		// more than one → stop the surplus
		for _, b := range B.Blocks {
			for si := range b.Succs {
				for _, l := range bfa.EdgeLits(b, si) {
					a, bb, op, ok := Cmp(l)
					if ok && op == "<" && a.IsConst("1") && bb.Op == "len" && optimizing(bb.Args[0]) {
						path, _ := bfa.ReachFromEdge(b, si, func(in ssa.Instruction) bool {
							_, isRet := in.(*ssa.Return)
							ci, isCall := in.(ssa.CallInstruction)
							return isRet || (isCall && p.siteIs(ci, fnSyncOpts, fnStartNodes))
						}, ReachOpts{Barrier: isCallTo(p, fnStopNodes)})
						c.Req(path == nil, fnBalance, p.InstrPos(blockIf(b)), "surplus:stopped", "with more than one optimising host the surplus is stopped first", "path: "+bfa.PathString(path))
					}
				}
			}
		}
		// start helper relaxes each host given (one)
		St := p.MustFunc(fnStartNodes)
		for _, ci := range p.Calls(St, optRelax) {
			t := p.T(ci.Common().Value)
			c.Req(p.IsCall(t, "(app/optimization.Cluster).GetNode"), fnStartNodes, p.InstrPos(ci), "start:node", "the host relaxed is the listed host's registry node", "")
		}
	})

	c.Rule("C19.CLASSIFY", func() {
		S := p.MustFunc(fnSync)
		ds := p.Calls(S, fnDisableNs)
		c.Req(len(ds) == 1, fnSync, "-", "disable-call", "the sync disables classified hosts once", fmt.Sprintf("%d", len(ds)))
		for _, d := range ds {
			u := p.T(d.Common().Args[2])
			okU := p.IsCall(u, "util.Union")
			var flds []string
			if okU {
				for _, v := range c.eff.variadic(u.Call.Args[0]) {
					flds = append(flds, afterDot(p.T(v).Name))
				}
			}
			okF := fmt.Sprint(flds) == "[OptimizedHosts MalfunctioningHosts]" || fmt.Sprint(flds) == "[MalfunctioningHosts OptimizedHosts]"
			c.Req(okU && okF, fnSync, p.InstrPos(d), "disable:who", "converged hosts and hosts that should not be optimised (master, unknown lag) are restored and deregistered", fmt.Sprint(flds))
		}
		for _, b := range p.Calls(S, fnBalance) {
			ok, path := p.FA(S).Gated(b, p.NilErr(fnDisableNs))
			c.Req(ok, fnSync, p.InstrPos(b), "balance-after-disable", "balancing runs only after the disable step succeeded", "path: "+p.FA(S).PathString(path))
		}
		B := p.MustFunc(fnBalance)
		bad := false
		for _, b := range B.Blocks {
			for _, in := range b.Instrs {
				if fad, ok := in.(*ssa.FieldAddr); ok {
					fn := afterDot(fieldName(fad.X.Type(), fad.Field))
					if fn == "OptimizedHosts" || fn == "MalfunctioningHosts" {
						bad = true
					}
				}
			}
		}
		c.Req(!bad, fnBalance, "-", "balance:ignores-classified", "balancing never touches converged / malfunctioning hosts", "")
		// classification of master / unknown lag
		G := p.MustFunc("(*app/optimization.Syncer).getClusterHostsState")
		gfa := p.FA(G)
		n := 0
		for _, b := range G.Blocks {
			for _, in := range b.Instrs {
				st, ok := in.(*ssa.Store)
				if !ok {
					continue
				}
				fad, ok := st.Addr.(*ssa.FieldAddr)
				if !ok {
					continue
				}
				fn := afterDot(fieldName(fad.X.Type(), fad.Field))
				switch fn {
				case "OptimizingHosts", "DisabledHosts":
					n++
					// never for a master or a host without known lag
					notMaster := func(l Lit) bool { return !l.Pos && l.T.IsField("IsMaster") }
					c.Gate(gfa, st, fmt.Sprintf("classify:%s:not-master", fn), "a master is never classified as (to be) optimised", notMaster)
					hasLag := func(l Lit) bool {
						return l.T.Op == "isnil" && !l.Pos && l.T.Args[0].IsField("ReplicationLag")
					}
					c.Gate(gfa, st, fmt.Sprintf("classify:%s:known-lag", fn), "a host without known lag is never classified as (to be) optimised", hasLag)
					if fn == "DisabledHosts" {
						// "planned" means: not switched on in the registry AND still running with the master's settings. A host
						// that already runs relaxed must count as optimising — balancing starts a planned host whenever nobody
						// is optimising, and would then leave two relaxed replicas.
						notEnabled := CmpLit("!=", func(t *Term) bool { return t.IsField("Status") }, func(t *Term) bool { return t.IsConst("enabled") })
						sameSettings := func(l Lit) bool {
							return l.Pos && p.IsCall(l.T, "(*mysql.ReplicationSettings).Equal", "(mysql.ReplicationSettings).Equal")
						}
						c.Gate(gfa, st, "classify:DisabledHosts:not-enabled", "a host is only planned if the registry does not say it is switched on", notEnabled)
						c.Gate(gfa, st, "classify:DisabledHosts:not-relaxed", "a host is only planned if it still runs with the master's durability settings (a relaxed one is optimising)", sameSettings)
					}
				}
			}
		}
		c.Req(n == 2, p.Name(G), "-", "classify:stores", "classification stores found", fmt.Sprintf("%d", n))
	})

	c.Rule("C19.PRESWITCH", func() {
		P, _ := promotionTarget(c)
		fa := p.FA(P)
		name := p.Name(P)
		ro := freezeCalls(c, P, "set_readonly(_no_super)?")
		if len(ro) == 0 {
			panic(AnchorError{"freeze in " + name})
		}
		freeze := ro[0]
		c.Gate(fa, freeze, "freeze:after-switch-off", "the freeze runs only after the candidates' optimisation was switched off successfully", p.NilErr(fnStopOpt))
		So := p.MustFunc(fnStopOpt)
		for _, d := range p.Calls(So, "(app.OptimizationController).DisableAll") {
			m := p.T(d.Common().Args[0])
			c.Req(p.IsCall(m, "(*mysql.Cluster).Get") && m.Args[1].Op == "param" && m.Args[1].Name == "1", fnStopOpt, p.InstrPos(d), "switch-off:master", "settings are restored from the old master", "")
			c.Req(p.IsCall(p.T(d.Common().Args[1]), "app.convertNodesToReplicationControllers"), fnStopOpt, p.InstrPos(d), "switch-off:nodes", "… on the registry nodes of the active list", "")
		}
		c.Req(len(p.Calls(So, "(app.OptimizationController).DisableAll")) == 1, fnStopOpt, "-", "switch-off", "one bulk switch-off", "")
		// nothing that registers or relaxes between the switch-off and the freeze without its own restore
		stops := p.Calls(P, fnStopOpt)
		if len(stops) != 1 {
			panic(AnchorError{"switch-off call in " + name})
		}
		n := 0
		for _, b := range P.Blocks {
			for _, in := range b.Instrs {
				ci, ok := in.(ssa.CallInstruction)
				if !ok || ci == stops[0] || ci == freeze {
					continue
				}
				if pre, _ := fa.PrecededBy(ci, func(x ssa.Instruction) bool { return x == stops[0].(ssa.Instruction) }); !pre {
					continue
				}
				if pth, _ := fa.ReachAfter(ci, func(x ssa.Instruction) bool { return x == freeze.(ssa.Instruction) }, ReachOpts{}); pth == nil {
					continue
				}
				if after, _ := fa.PrecededBy(ci, func(x ssa.Instruction) bool { return x == freeze.(ssa.Instruction) }); after {
					continue
				}
				relaxes := false
				for _, cal := range c.eff.calleesOf(ci, c.eff.rootEnv(P), 0) {
					if !p.InModule(cal.Fn) {
						continue
					}
					for _, e := range c.eff.CollectEnv(cal, WalkOpts{}) {
						if (e.Kind == "DCS" && (e.Op == "Create" || e.Op == "Set") && strings.HasPrefix(e.Key, "optimization_nodes/")) || (e.Kind == "SQL" && e.Site != nil && p.Name(e.Site.Parent()) == "(*mysql.Node).OptimizeReplication") {
							relaxes = true
						}
					}
					// relax through the OptimizeReplication method
					for _, e := range c.eff.CollectEnv(cal, WalkOpts{}) {
						for _, ch := range e.Chain {
							if cc, ok := ch.(ssa.CallInstruction); ok && p.siteIs(cc, optRelax, "(*mysql.Node).OptimizeReplication") {
								relaxes = true
							}
						}
					}
				}
				if !relaxes {
					continue
				}
				n++
				// must be followed by a restore before the freeze
				pth, _ := fa.ReachAfter(ci, func(x ssa.Instruction) bool { return x == freeze.(ssa.Instruction) }, ReachOpts{Barrier: isCallTo(p, fnStopOpt)})
				c.Req(pth == nil, name, p.InstrPos(ci), "relax-between-switch-off-and-freeze:"+afterDot(p.CalleeNames(ci)[0]), "a phase that registers a host or relaxes its settings after the switch-off is followed by a restore before the freeze (no node is frozen and promoted with relaxed settings or while registered)", "path to the freeze without a restore: "+fa.PathString(pth))
			}
		}
		c.Note("C19.PRESWITCH examined %d relaxing call(s) between the switch-off and the freeze", n)
		c.Hold(name, p.InstrPos(stops[0]), "switch-off:site", "the switch-off precedes the freeze")
	})

	c.Rule("C19.SPAWN", func() {
		f := p.MustFunc("(*app.App).optimizeReplicaWithSmallestLag")
		var ctxCall *ssa.Call
		for _, ci := range p.Calls(f, "context.WithTimeout", "context.WithCancel") {
			ctxCall, _ = ci.(*ssa.Call)
		}
		if ctxCall == nil {
			panic(AnchorError{"context in " + p.Name(f)})
		}
		deferred := false
		for _, b := range f.Blocks {
			for _, in := range b.Instrs {
				if d, ok := in.(*ssa.Defer); ok {
					if r := ResultOf(p.T(d.Call.Value), 1); r != nil && r.V == ssa.Value(ctxCall) {
						deferred = true
					}
				}
			}
		}
		c.Req(deferred, p.Name(f), p.InstrPos(ctxCall), "cancel-deferred", "the spawner defers the cancel of the goroutine's context", "")
		for _, s := range p.Calls(f, "(*app.App).startSyncerGoroutine") {
			r := ResultOf(p.T(s.Common().Args[1]), 0)
			c.Req(r != nil && r.V == ssa.Value(ctxCall), p.Name(f), p.InstrPos(s), "goroutine-ctx", "the goroutine receives that context", "")
		}
		g := p.MustFunc("(*app.App).startSyncerGoroutine$1")
		hasDone := false
		for _, b := range g.Blocks {
			for _, in := range b.Instrs {
				if sel, ok := in.(*ssa.Select); ok {
					for _, st := range sel.States {
						if p.IsCall(p.T(st.Chan), "(context.Context).Done") {
							hasDone = true
						}
					}
				}
			}
		}
		c.Req(hasDone, p.Name(g), "-", "selects-done", "the goroutine's loop selects on the context's Done channel", "")
		// Wait also returns when the context ends
		w := p.MustFunc("(*app/optimization.Controller).Wait")
		wd := false
		for _, b := range w.Blocks {
			for _, in := range b.Instrs {
				if sel, ok := in.(*ssa.Select); ok {
					for _, st := range sel.States {
						if p.IsCall(p.T(st.Chan), "(context.Context).Done") {
							wd = true
						}
					}
				}
			}
		}
		c.Req(wd, p.Name(w), "-", "wait:bounded", "the wait ends with the context", "")
	})
}
