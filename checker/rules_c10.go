package main

import (
	"fmt"
	"go/ast"
	"go/token"
	"strings"

	"golang.org/x/tools/go/ssa"
)

const (
	fnRepairCluster = "(*app.App).repairCluster"
	fnTryRepair     = "(*app.App).TryRepairReplication"
	fnResetAlgo     = "app.ResetSlaveAlgorithm"
	fnSuitable      = "(*app.App).getSuitableAlgorithmType"
	fnAlgoOrder     = "(*app.App).getAlgorithmOrder"
)

func init() {
	register("C10", "other",
		"The four 'never' clauses and the stale-master duties of repair, by effect containment over call chains and gates over CFG paths: "+
			"(MASTERKEY) the repair entry points cannot reach a write of the recorded master; (REGISTRY) node handles are created only by the registry and the one-shot probe, every statement of a daemon root that changes a server goes to the local node or a registry handle (never a fresh or unknown handle), and the probe's host comes from a state-map key; "+
			"(SELF) at every call site that re-points a server, source ≠ server is established — by a dominating inequality, by the caller's host ≠ master branch, or because the source is the resolver's answer (C16.NOTSELF) — a frozen per-site table, unknown sites fail; "+
			"(RESET) from repair a replication reset is reachable only through the algorithm table, the resetting algorithm is in the order list returned only under aggressive mode, the dynamic algorithm call is below the cooldown test and an attempt count below the limit, and after it the attempt is counted (except source change) and the time stamped on every path; "+
			"(STALE) = C11.MARK-STALE; (UNFENCE) the master is brought online only when not marked (writability: C18).",
		"convergence of repeated iterations, the effect of failing statements",
		runC10)
}

// SliceLiteralIdents returns the identifiers of a package-level `var X = []T{a, b}`.
func (p *Prog) SliceLiteralIdents(rel, name string) []string {
	pk := p.Pkg(rel)
	for _, f := range pk.Syntax {
		for _, d := range f.Decls {
			gd, ok := d.(*ast.GenDecl)
			if !ok || gd.Tok != token.VAR {
				continue
			}
			for _, sp := range gd.Specs {
				vs := sp.(*ast.ValueSpec)
				for i, n := range vs.Names {
					if n.Name != name || i >= len(vs.Values) {
						continue
					}
					cl, ok := vs.Values[i].(*ast.CompositeLit)
					if !ok {
						continue
					}
					var out []string
					for _, e := range cl.Elts {
						if id, ok := e.(*ast.Ident); ok {
							if obj := pk.TypesInfo.Uses[id]; obj != nil {
								out = append(out, obj.Name())
								continue
							}
						}
						out = append(out, "?")
					}
					return out
				}
			}
		}
	}
	panic(AnchorError{rel + "." + name})
}

func runC10(c *Check) {
	p := c.p
	repairRoots := []string{fnRepairCluster, fnOfflinePass}

	c.Rule("C10.MASTERKEY", func() {
		for _, rn := range repairRoots {
			f := p.MustFunc(rn)
			bad := 0
			effs := c.eff.Collect(f, WalkOpts{})
			for _, e := range effs {
				if dcsWrite(e) && (e.Key == "master" || e.Key == "?") {
					bad++
					c.Fail(rn, p.InstrPos(e.Site), "writes "+e.String(), "repair never changes the recorded master", "chain: "+c.eff.ChainString(e))
				}
			}
			if bad == 0 {
				c.Hold(rn, p.Pos(f.Pos()), "no-master-write", fmt.Sprintf("%d effects reachable, none writes the master record", len(effs)))
			}
		}
	})

	c.Rule("C10.REGISTRY", func() {
		allowedNew := map[string]bool{"(*mysql.Cluster).registerLocalNode": true, "(*mysql.Cluster).updateHAHostsInfo": true, "(*mysql.Cluster).updateCascadeHostsInfo": true, "(*mysql.Cluster).PingNode": true}
		n := 0
		for _, fn := range p.ModFuncs {
			for _, ci := range p.Calls(fn, "mysql.NewNode") {
				n++
				c.Req(allowedNew[p.Name(fn)], p.Name(fn), p.InstrPos(ci), "new-node", "node handles are created only by the host registry and the one-shot probe", "")
			}
		}
		c.Req(n >= 4, "internal/mysql", "-", "new-node:sites", "creation sites found", fmt.Sprintf("%d", n))
		// registry stores every node under its own name
		for _, fname := range []string{"(*mysql.Cluster).updateHAHostsInfo", "(*mysql.Cluster).updateCascadeHostsInfo"} {
			f := p.MustFunc(fname)
			k := 0
			for _, b := range f.Blocks {
				for _, in := range b.Instrs {
					if mu, ok := in.(*ssa.MapUpdate); ok {
						kt := p.T(mu.Key)
						if p.IsCall(kt, "(*mysql.Node).Host") {
							k++
							c.Req(sameValue(kt.Args[0], p.T(mu.Value)), fname, p.InstrPos(mu), "registry-key", "a node is registered under its own host name", "")
						}
					}
				}
			}
			c.Req(k == 1, fname, "-", "registry-store", "one registration site", fmt.Sprintf("%d", k))
		}
		// receivers of mutating statements
		nroots := 0
		for _, r := range c.DaemonRoots() {
			nroots++
			bad := 0
			for _, e := range c.eff.Collect(r.Fn, WalkOpts{}) {
				if !sqlMutating(e) && !(e.Kind == "SQL" && e.Key == "DATA") {
					continue
				}
				for _, cls := range strings.Split(e.Recv, "+") {
					if cls != "local" && cls != "reg" {
						bad++
						c.Fail(r.Name, p.InstrPos(e.Site), "unregistered-receiver "+e.String(), "a statement is sent only to the local node or to a handle from the host registry", "chain: "+c.eff.ChainString(e))
					}
				}
			}
			if bad == 0 {
				c.Hold(r.Name, p.Pos(r.Fn.Pos()), "receivers", "all mutating statements go to local/registry handles")
			}
		}
		// the probe in the daemon: host is a key found in a state map
		v := p.MustFunc("(*app.App).checkMasterVisible")
		for _, ci := range p.Calls(v, "(*mysql.Cluster).PingNode") {
			h := p.T(ci.Common().Args[1])
			ok := ResultOf(h, 0) != nil && p.IsCall(ResultOf(h, 0), fnGetMaster)
			c.Req(ok, p.Name(v), p.InstrPos(ci), "probe-host", "the one-shot probe's host is a key of the health-state map (a registered host)", "is "+h.String())
		}
		P := p.MustFunc("(*mysql.Cluster).PingNode")
		for _, e := range c.eff.Collect(P, WalkOpts{}) {
			c.Req(!sqlMutating(e), p.Name(P), p.InstrPos(e.Site), "probe-effect "+e.String(), "the one-shot probe only pings", "")
		}
	})

	c.Rule("C10.SELF", func() { checkRepointNotSelf(c) })

	c.Rule("C10.RESET", func() {
		// from repair, resets only through the algorithm
		for _, rn := range repairRoots {
			f := p.MustFunc(rn)
			n := 0
			for _, e := range c.eff.Collect(f, WalkOpts{}) {
				if e.Kind == "SQL" && matchAny(e.Op, "reset_(slave|replica)_all") {
					if c.chainVia(e, "(mysql.IExternalReplication).Reset") {
						// exception (one symbol): the EXTERNAL replication channel of a stale master is reset when it
						// is demoted; this is not the replica's replication to the cluster master the clause is about
						continue
					}
					n++
					c.Req(c.chainVia(e, fnTryRepair) && e.Site.Parent() != nil, rn, p.InstrPos(e.Site), "reset via "+p.InstrPos(e.Chain[len(e.Chain)-1]), "from repair a replication reset is reachable only through the bounded repair", "chain: "+c.eff.ChainString(e))
				}
			}
			if rn == fnRepairCluster {
				c.Req(n >= 1, rn, "-", "reset-reachable", "the resetting algorithm is visible to the effect engine", "")
			}
		}
		// which algorithm resets
		resets := map[string]bool{}
		mapping := map[string]string{}
		mp := p.StringMapLiteralIdents("internal/app", "mapping")
		for k, v := range mp {
			mapping[k] = v
			f := p.Func("app." + v)
			if f == nil {
				c.Fail("app.mapping", "-", "entry "+k, "table entries are functions", v)
				continue
			}
			for _, e := range c.eff.Collect(f, WalkOpts{}) {
				if e.Kind == "SQL" && matchAny(e.Op, "reset_(slave|replica)_all") {
					resets[k] = true
				}
			}
		}
		c.Req(len(mapping) >= 3, "app.mapping", "-", "table", "algorithm table resolved", fmt.Sprintf("%d", len(mapping)))
		c.Req(len(resets) == 1, "app.mapping", "-", "resetting-algorithms", "exactly one algorithm resets replication", fmt.Sprint(resets))
		// order lists: only the aggressive one contains a resetting id; every id is a table key
		for _, ord := range []string{"defaultOrder", "aggressiveOrder", "externalReplicationOrder"} {
			ids := p.SliceLiteralIdents("internal/app", ord)
			has := false
			for _, id := range ids {
				if resets[id] {
					has = true
				}
				_, ok := mapping[id]
				c.Req(ok, "app."+ord, "-", "id "+id, "every algorithm id in an order list has a table entry (no nil call)", "")
			}
			c.Req(has == (ord == "aggressiveOrder"), "app."+ord, "-", "contains-reset", "only the aggressive order contains the resetting algorithm", fmt.Sprint(ids))
		}
		O := p.MustFunc(fnAlgoOrder)
		ofa := p.FA(O)
		for i, r := range Returns(O) {
			t := p.T(r.Results[0])
			if t.Op == "global" && t.Name == "app.aggressiveOrder" {
				c.Gate(ofa, r, nthKey("order", i+1)+":aggressive", "the aggressive order is returned only under aggressive mode", FieldLit(true, "ReplicationRepairAggressiveMode"))
			}
		}
		// the dynamic call
		T := p.MustFunc(fnTryRepair)
		tfa := p.FA(T)
		var dyn ssa.CallInstruction
		for _, b := range T.Blocks {
			for _, in := range b.Instrs {
				if ci, ok := in.(ssa.CallInstruction); ok && ci.Common().StaticCallee() == nil && !ci.Common().IsInvoke() {
					if _, isB := ci.Common().Value.(*ssa.Builtin); !isB {
						dyn = ci
					}
				}
			}
		}
		if dyn == nil {
			panic(AnchorError{"dynamic algorithm call in " + fnTryRepair})
		}
		fv := p.T(dyn.Common().Value)
		// through the table's getter, or by indexing the table directly
		var selT *Term
		if p.IsCall(fv, "app.getRepairAlgorithm") {
			selT = fv.Args[0]
		} else if fv.Op == "lookup" && len(fv.Args) == 2 && (fv.Args[0].Name == "app.mapping") {
			selT = fv.Args[1]
		}
		c.Req(selT != nil && ResultOf(selT, 0) != nil && p.IsCall(ResultOf(selT, 0), fnSuitable), fnTryRepair, p.InstrPos(dyn), "algorithm:selected", "the algorithm called is the table entry of the selected type", "is "+fv.String())
		c.Gate(tfa, dyn, "algorithm:cooldown", "an algorithm runs only after the cooldown passed", p.OK(true, "(*app.ReplicationRepairState).cooldownPassed"))
		c.Gate(tfa, dyn, "algorithm:selected-ok", "… and a type with attempts left was found", p.NilErr(fnSuitable))
		Sf := p.MustFunc(fnSuitable)
		sfa := p.FA(Sf)
		for i, rs := range c.SuccessSites(Sf, 2, "nil") {
			c.Gate(sfa, rs.At, nthKey("suitable", i+1)+":below-limit", "a type is suitable only while its attempt count is below the limit", CmpLit("<", func(t *Term) bool {
				return t.Op == "lookup" && t.Args[0].IsField("History")
			}, func(t *Term) bool { return t.IsField("ReplicationRepairMaxAttempts") }))
		}
		// after the call: count and stamp
		var stamp ssa.Instruction
		var count *ssa.MapUpdate
		for _, b := range T.Blocks {
			for _, in := range b.Instrs {
				if st, ok := in.(*ssa.Store); ok {
					if fad, ok := st.Addr.(*ssa.FieldAddr); ok && fieldName(fad.X.Type(), fad.Field) == "app.ReplicationRepairState.LastAttempt" {
						stamp = st
					}
				}
				if mu, ok := in.(*ssa.MapUpdate); ok && p.T(mu.Map).IsField("History") {
					count = mu
				}
			}
		}
		ret := func(in ssa.Instruction) bool { _, ok := in.(*ssa.Return); return ok }
		path, _ := tfa.ReachAfter(dyn, ret, ReachOpts{Barrier: func(in ssa.Instruction) bool { return in == stamp }})
		c.Req(stamp != nil && path == nil, fnTryRepair, p.InstrPos(dyn), "algorithm:stamped", "after an attempt the time is stamped on every path (the cooldown restarts)", "path: "+tfa.PathString(path))
		okc := count != nil
		if okc {
			v := p.T(count.Value)
			okc = v.Op == "bin" && v.Name == "+" && v.Args[1].IsConst("1") && ResultOf(v.Args[0], 1) != nil && p.IsCall(ResultOf(v.Args[0], 1), fnSuitable)
		}
		c.Req(okc, fnTryRepair, "-", "algorithm:counted", "the attempt is counted (count + 1 for the selected type)", "")
		if count != nil {
			changeSource := "2"
			path2, _ := tfa.ReachAfter(dyn, ret, ReachOpts{Barrier: func(in ssa.Instruction) bool { return in == ssa.Instruction(count) }, Cut: []LitPat{func(l Lit) bool {
				a, b, op, ok := Cmp(l)
				return ok && op == "==" && ((ResultOf(a, 0) != nil && b.IsConst(changeSource)) || (ResultOf(b, 0) != nil && a.IsConst(changeSource)))
			}}})
			c.Req(path2 == nil, fnTryRepair, p.InstrPos(dyn), "algorithm:counted-always", "every attempt except a source change is counted, whatever its outcome", "path: "+tfa.PathString(path2))
		}
	})

	c.Rule("C10.STALE", func() { checkStaleMaster(c) })
	c.Rule("C10.UNFENCE", func() { checkMasterOnline(c); extraC10Unfence(c) })
	extraC10(c)
}

// StringMapLiteralIdents evaluates `var X = map[K]V{ident: ident}` to identifier names.
func (p *Prog) StringMapLiteralIdents(rel, name string) map[string]string {
	pk := p.Pkg(rel)
	out := map[string]string{}
	for _, f := range pk.Syntax {
		for _, d := range f.Decls {
			gd, ok := d.(*ast.GenDecl)
			if !ok || gd.Tok != token.VAR {
				continue
			}
			for _, sp := range gd.Specs {
				vs := sp.(*ast.ValueSpec)
				for i, n := range vs.Names {
					if n.Name != name || i >= len(vs.Values) {
						continue
					}
					cl, ok := vs.Values[i].(*ast.CompositeLit)
					if !ok {
						continue
					}
					for _, e := range cl.Elts {
						kv, ok := e.(*ast.KeyValueExpr)
						if !ok {
							continue
						}
						k, ok1 := kv.Key.(*ast.Ident)
						v, ok2 := kv.Value.(*ast.Ident)
						if ok1 && ok2 {
							out[k.Name] = v.Name
						}
					}
					return out
				}
			}
		}
	}
	panic(AnchorError{rel + "." + name})
}

// checkRepointNotSelf: C10.SELF
func checkRepointNotSelf(c *Check) {
	p := c.p
	// caller precondition: the replica repair runs on the host != master branch with node = registry[host]
	RC := p.MustFunc(fnRepairCluster)
	rfa := p.FA(RC)
	for _, ci := range p.Calls(RC, fnRepairSlave) {
		a := ci.Common().Args
		okargs := p.IsCall(p.T(a[1]), "(*mysql.Cluster).Get") && p.T(a[1]).Args[1].Op == "rangekey" && p.T(a[3]).Op == "param" && p.T(a[3]).Name == "3"
		c.Req(okargs, p.Name(RC), p.InstrPos(ci), "replica-repair:args", "the replica repair receives the registry handle of the examined host and the recorded master", "")
		c.Gate(rfa, ci, "replica-repair:host!=master", "the replica repair runs only for hosts other than the recorded master", CmpLit("!=", func(t *Term) bool { return t.Op == "rangekey" }, func(t *Term) bool { return t.Op == "param" && t.Name == "3" }))
	}
	// repairCascadeNode / TryRepairReplication are called from the replica repair with the same node and master
	RS := p.MustFunc(fnRepairSlave)
	for _, ci := range p.Calls(RS, fnRepairCascade, fnTryRepair) {
		a := ci.Common().Args
		ok := a[1] == ssa.Value(RS.Params[1])
		var m ssa.Value
		if p.siteIs(ci, fnRepairCascade) {
			m = a[3]
		} else {
			m = a[2]
		}
		ok = ok && m == ssa.Value(RS.Params[3])
		c.Req(ok, p.Name(RS), p.InstrPos(ci), "forward:"+afterDot(p.CalleeNames(ci)[0]), "node and recorded master are passed on unchanged (host != master is inherited)", "")
	}
	callers := func(target string) []string {
		var out []string
		for _, fn := range p.ModFuncs {
			if len(p.Calls(fn, target)) > 0 {
				out = append(out, p.Name(fn))
			}
		}
		return out
	}
	c.Req(fmt.Sprint(callers(fnRepairSlave)) == fmt.Sprint([]string{fnRepairCluster}), fnRepairSlave, "-", "callers", "the replica repair has the one caller whose precondition was checked", fmt.Sprint(callers(fnRepairSlave)))
	c.Req(fmt.Sprint(callers(fnRepairCascade)) == fmt.Sprint([]string{fnRepairSlave}), fnRepairCascade, "-", "callers", "the cascade repair has the one caller", fmt.Sprint(callers(fnRepairCascade)))

	hostOf := func(f *ssa.Function) func(*Term) bool {
		return func(t *Term) bool { return p.IsCall(t, "(*mysql.Node).Host") && t.Args[0].V == ssa.Value(f.Params[1]) }
	}
	n := 0
	for _, fn := range p.ModFuncs {
		for _, ci := range p.Calls(fn, fnChange) {
			n++
			a := ci.Common().Args
			host, src := p.T(a[1]), p.T(a[2])
			fa := p.FA(fn)
			name := p.Name(fn)
			key := nthKey("repoint@"+name, n)
			neq := func(l Lit) bool {
				x, y, op, ok := Cmp(l)
				if !ok || op != "!=" {
					return false
				}
				same := func(u, v *Term) bool { return sameValue(u, v) || (cellOf(u) != nil && cellOf(u) == cellOf(v)) }
				return (same(x, host) && same(y, src)) || (same(x, src) && same(y, host))
			}
			if ok, _ := fa.Gated(ci, neq); ok {
				c.Hold(name, p.InstrPos(ci), key, "source ≠ server by a dominating inequality")
				continue
			}
			switch {
			case name == fnRepairSlave && hostOf(fn)(host) && src.Op == "param" && src.Name == "3":
				c.Hold(name, p.InstrPos(ci), key, "server = node.Host(), source = recorded master; caller guarantees host ≠ master")
			case name == fnRepairCascade && hostOf(fn)(host) && p.IsCall(src, fnResolver):
				// resolver answer: never the replica (C16.NOTSELF) unless it is the master, which differs by the caller's precondition
				ok := src.Args[1].V == ssa.Value(fn.Params[1]) && src.Args[3].V == ssa.Value(fn.Params[3])
				c.Req(ok, name, p.InstrPos(ci), key, "source = resolver(node, …, master): never the node itself (C16.NOTSELF), and the master differs by the caller's precondition", "")
			case name == fnRepairCascade && hostOf(fn)(host):
				// blind re-point: alternatives checked by C16.NIL
				okAll := true
				if phi, isPhi := a[2].(*ssa.Phi); isPhi {
					for i, e := range phi.Edges {
						et := p.T(e)
						if et.Op == "param" && et.Name == "3" {
							continue
						}
						ls := fa.incomingLits(phi.Block(), i, 0)
						if !hasLit(ls, func(l Lit) bool {
							x, y, op, ok := Cmp(l)
							return ok && op == "!=" && ((sameValue(x, et) && sameValue(y, host)) || (sameValue(y, et) && sameValue(x, host)))
						}) {
							okAll = false
						}
					}
				} else {
					okAll = false
				}
				c.Req(okAll, name, p.InstrPos(ci), key, "blind re-point: the configured source is used only when it differs from the replica, otherwise the master", "source "+src.String())
			default:
				c.Fail(name, p.InstrPos(ci), key, "source ≠ server is established at every re-pointing call site (unknown site: triage it and extend the table)", "server "+host.String()+" source "+src.String())
			}
		}
	}
	c.Req(n >= 6, fnChange, "-", "repoint:sites", "re-pointing call sites found", fmt.Sprintf("%d", n))
	// direct ChangeMaster statements outside the helper
	for _, fn := range p.ModFuncs {
		if p.Name(fn) == fnChange {
			continue
		}
		for _, ci := range p.Calls(fn, "(*mysql.Node).ChangeMaster") {
			name := p.Name(fn)
			ok := name == fnResetAlgo && ci.Common().Args[0] == ssa.Value(fn.Params[1]) && ci.Common().Args[1] == ssa.Value(fn.Params[2])
			c.Req(ok, name, p.InstrPos(ci), "direct-change-master", "the only direct re-point outside the helper is the resetting algorithm's, with the node and master it was given (replica repair: host ≠ master)", "")
		}
	}
	// the helper's explicit panic is the last line of defence; it must stay in front of the statement
	H := p.MustFunc(fnChange)
	hfa := p.FA(H)
	for _, ci := range p.Calls(H, "(*mysql.Node).ChangeMaster") {
		c.Gate(hfa, ci, "helper:guard", "the helper refuses host == master before issuing the statement", CmpLit("!=", func(t *Term) bool { return t.Op == "param" && t.Name == "1" }, func(t *Term) bool { return t.Op == "param" && t.Name == "2" }))
		rt := p.T(ci.Common().Args[0])
		c.Req(p.IsCall(rt, "(*mysql.Cluster).Get") && rt.Args[1].Op == "param" && rt.Args[1].Name == "1" && p.T(ci.Common().Args[1]).Op == "param" && p.T(ci.Common().Args[1]).Name == "2", fnChange, p.InstrPos(ci), "helper:args", "the helper re-points registry[host] to master", "")
	}
}
