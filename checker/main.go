package main

import (
	"encoding/json"
	"flag"
	"fmt"
	"os"
	"sort"
	"strings"

	"golang.org/x/tools/go/ssa"
)

func main() {
	if len(os.Args) < 2 {
		fmt.Fprintln(os.Stderr, "usage: mysyncsa check <Cxx> [-tier quick|thorough] | dump <func> | funcs [substr] | effects <func>")
		os.Exit(2)
	}
	switch os.Args[1] {
	case "check":
		os.Exit(cmdCheck(os.Args[2:]))
	case "dump":
		cmdDump(os.Args[2:])
	case "funcs":
		cmdFuncs(os.Args[2:])
	case "effects":
		cmdEffects(os.Args[2:])
	case "list":
		cmdList()
	case "baseline":
		// prints the function list of the tree (used once, on the pinned tree, to freeze baseline_funcs.txt)
		d, err := listDecls(repoRoot())
		if err != nil {
			fmt.Fprintln(os.Stderr, err)
			os.Exit(2)
		}
		var ks []string
		for k := range d {
			ks = append(ks, k)
		}
		sort.Strings(ks)
		for _, k := range ks {
			fmt.Println(k + "\t" + d[k].Sig)
		}
	case "forwarders":
		// prints the pure forwarders of the tree: F's body is `return G(params…)` (used once, on the pinned tree, to freeze
		// baseline_forwarders.txt)
		prog := LoadProg(repoRoot(), nil)
		var out []string
		for _, fn := range prog.ModFuncs {
			if g := forwarderTarget(prog, fn); g != "" {
				out = append(out, prog.Name(fn)+"\t"+g)
			}
		}
		sort.Strings(out)
		for _, l := range out {
			fmt.Println(l)
		}
	case "normalised":
		// debugging aid: prints the normalised source of the files the overlay replaces
		for path, c := range normaliseOverlay(repoRoot()) {
			fmt.Printf("==== %s\n%s\n", path, c)
		}
		for _, n := range normaliseNotes {
			fmt.Println("note:", n)
		}
	case "mutate":
		os.Exit(cmdMutate(os.Args[2:]))
	default:
		fmt.Fprintln(os.Stderr, "unknown command", os.Args[1])
		os.Exit(2)
	}
}

func repoRoot() string {
	if r := os.Getenv("MYSYNC_REPO"); r != "" {
		return r
	}
	return "/repo"
}

func cmdFuncs(args []string) {
	p := LoadProg(repoRoot(), nil)
	sub := ""
	if len(args) > 0 {
		sub = args[0]
	}
	var names []string
	for _, fn := range p.ModFuncs {
		n := p.Name(fn)
		if strings.Contains(n, sub) {
			names = append(names, n)
		}
	}
	sort.Strings(names)
	for _, n := range names {
		fmt.Println(n)
	}
}

func cmdDump(args []string) {
	fs := flag.NewFlagSet("dump", flag.ExitOnError)
	calls := fs.Bool("calls", true, "print calls")
	_ = fs.Parse(args)
	p := LoadProg(repoRoot(), nil)
	for _, name := range fs.Args() {
		fn := p.Func(name)
		if fn == nil {
			fmt.Println("no such function:", name)
			continue
		}
		for _, f := range Closures(fn) {
			fa := p.FA(f)
			fmt.Printf("=== %s (%d blocks)\n", p.Name(f), len(f.Blocks))
			for _, b := range f.Blocks {
				if *calls {
					for _, in := range b.Instrs {
						if ci, ok := in.(ssa.CallInstruction); ok {
							var as []string
							for _, a := range ci.Common().Args {
								as = append(as, p.T(a).str(3))
							}
							fmt.Printf("  b%d %s call %s(%s)\n", b.Index, p.InstrPos(in), strings.Join(p.CalleeNames(ci), "|"), strings.Join(as, ", "))
						}
					}
				}
				if iff := blockIf(b); iff != nil {
					ck := ""
					if k, ok := fa.condKey[b]; ok {
						ck = fmt.Sprintf(" [tracked %s neg=%v]", k.key, k.neg)
					}
					fmt.Printf("  b%d %s IF%s\n", b.Index, p.InstrPos(iff), ck)
					for si := 0; si < 2; si++ {
						var ls []string
						for _, l := range fa.EdgeLits(b, si) {
							ls = append(ls, l.String())
						}
						fmt.Printf("      -> b%d : %s\n", b.Succs[si].Index, strings.Join(ls, "  ∧  "))
					}
				}
				for _, in := range b.Instrs {
					if r, ok := in.(*ssa.Return); ok {
						var rs []string
						for _, v := range r.Results {
							rs = append(rs, p.T(v).str(3))
						}
						fmt.Printf("  b%d %s RETURN %s\n", b.Index, p.InstrPos(in), strings.Join(rs, ", "))
					}
				}
			}
		}
	}
}

func cmdList() {
	type row struct {
		ID, Level, Explanation, NotDecided string
	}
	var rows []row
	for id, pi := range props {
		rows = append(rows, row{id, pi.Level, fullExplanation(id, pi), pi.NotDecided})
	}
	sort.Slice(rows, func(i, j int) bool { return rows[i].ID < rows[j].ID })
	b, _ := json.MarshalIndent(rows, "", " ")
	fmt.Println(string(b))
}
