package main

import (
	"fmt"

	"golang.org/x/tools/go/ssa"
)

const (
	fnPositions   = "(*app.App).getNodePositions"
	fnSearch      = "app.findMostRecentNodeAndDetectSplitbrain"
	fnDetect      = "app.detectSplitbrain"
	fnWait        = "(*app.App).waitForCatchUp"
	fnAsync       = "(*app.App).CheckAsyncSwitchAllowed"
	fnChange      = "(*app.App).performChangeMaster"
	fnQuorum      = "(mysql.ISwitchHelper).CheckFailoverQuorum"
	fnSetRecovery = "(*app.App).SetRecovery"
	gtidContain   = "(mysql/gtids.GTIDSet).Contain"
	gtidEqual     = "(mysql/gtids.GTIDSet).Equal"
	gtidUpdate    = "(mysql/gtids.GTIDSet).Update"
)

func init() {
	register("C01", "other",
		"The statement that makes the new master writable in the switchover procedure is reachable, on every CFG path, only through the chain of checks the property relies on, each on the right values: "+
			"(g1,g2) both freeze phases ran over the active list and their closures report success only after the read-only / IO-thread-stop statement succeeded; "+
			"(g3) the failover quorum is re-checked with the count of hosts for which BOTH freeze results were nil, against the unfiltered active list; (g4,g9) the manager lock is re-checked after the freeze and after catch-up; "+
			"(g5,g6) positions were collected for exactly the frozen hosts and a replica's position includes its retrieved set (a parse failure fails the host); "+
			"(g7) split brain aborts with the emergency file and a non-nil error, and 'no split brain' is only answered after the verification pass compared the selected set against every position; "+
			"(g8) the wait for catch-up succeeded on the promoted node for the most recent set, where success means executed ⊇ awaited or the async escape hatch, which itself requires async mode, an automatic cause, a positive allowed lag and delay < allowed lag; "+
			"(g10) every reachable active node was re-pointed; (g11) the old master was marked for recovery or confirmed a clean replica; (g12) stop + reset on the promoted node succeeded, in this order; "+
			"(g13) the promoted host is only the requested target (checked to be active), the chooser applied to positions minus the 'from' host, or the most recent node; (g14) a non-most-recent choice is first re-pointed to the most recent node. "+
			"(WHO) no other daemon path makes a node writable except the disk-space un-fencing of the recorded master.",
		"that a frozen host really is read-only at that instant, GTID arithmetic inside the library, hangs/timeouts, DevMode error injection",
		runC01)
}

func runC01(c *Check) {
	p := c.p
	P, target := promotionTarget(c)
	fa := p.FA(P)
	name := p.Name(P)
	recvT := p.T(target.Common().Args[0])

	roFreeze := freezeCalls(c, P, "set_readonly(_no_super)?")
	ioFreeze := freezeCalls(c, P, "stop_(slave|replica)_io_thread")
	// the phase-5 RunParallel (re-pointing) also stops replication threads, but with stop_slave, not *_io_thread
	c.Rule("C01.g1", func() {
		if len(roFreeze) == 0 {
			panic(AnchorError{"read-only freeze phase in " + name})
		}
		ro := roFreeze[0]
		ok, path := fa.PrecededBy(target, func(in ssa.Instruction) bool { return in == ro.(ssa.Instruction) })
		c.Req(ok, name, p.InstrPos(ro), "freeze-ro:precedes", "the read-only freeze precedes promotion on every path", "path: "+fa.PathString(path))
		list := p.T(ro.Common().Args[1])
		okl := derivesOnly(list, func(a *Term) bool {
			if a.Op == "param" && a.Name == "2" {
				return true
			}
			return p.IsCall(a, "app.filterOut") && derivesOnly(a.Args[0], func(b *Term) bool { return b.Op == "param" && b.Name == "2" })
		})
		c.Req(okl, name, p.InstrPos(ro), "freeze-ro:list", "the frozen set is the active-list parameter, at most with hosts removed", "list is "+list.String())
		checkFreezeFilter(c)
		cl := ro.Common().Args[0].(*ssa.MakeClosure).Fn.(*ssa.Function)
		cfa := p.FA(cl)
		for i, rs := range c.SuccessSites(cl, 0, "nil") {
			c.Gate(cfa, rs.At, nthKey("freeze-ro:closure-nil", i+1), "the freeze closure reports success only after a read-only statement succeeded on that host",
				p.NilErr("(*mysql.Node).SetReadOnly"), p.NilErr("(*mysql.Node).SetReadOnlyWithForce"))
		}
	})
	c.Rule("C01.g2", func() {
		if len(ioFreeze) == 0 {
			panic(AnchorError{"IO-thread freeze phase in " + name})
		}
		io := ioFreeze[0]
		ok, path := fa.PrecededBy(target, func(in ssa.Instruction) bool { return in == io.(ssa.Instruction) })
		c.Req(ok, name, p.InstrPos(io), "freeze-io:precedes", "the IO-thread stop precedes promotion on every path", "path: "+fa.PathString(path))
		cl := io.Common().Args[0].(*ssa.MakeClosure).Fn.(*ssa.Function)
		cfa := p.FA(cl)
		for i, rs := range c.SuccessSites(cl, 0, "nil") {
			c.Gate(cfa, rs.At, nthKey("freeze-io:closure-nil", i+1), "the closure reports success only after the IO thread stop succeeded", p.NilErr("(*mysql.Node).StopSlaveIOThread"))
		}
	})

	var frozen *Term // the accumulator F
	c.Rule("C01.g3", func() {
		var qcall ssa.CallInstruction
		isQuorumOK := func(l Lit) bool {
			if !p.NilErr(fnQuorum)(l) {
				return false
			}
			qcall = callInstr(l)
			return true
		}
		if !c.Gate(fa, target, "promotion:quorum-recount", "promotion is gated by a successful failover-quorum check", isQuorumOK) || qcall == nil {
			return
		}
		_, args := recvArgs(qcall)
		list, cnt := p.T(args[0]), p.T(args[1])
		c.Req(list.Op == "param" && list.Name == "2", name, p.InstrPos(qcall), "quorum:list", "the quorum is computed from the unfiltered active list (the old master still counts)", "list argument is "+list.String())
		okc := cnt.Op == "len" && len(cnt.Args) == 1
		c.Req(okc, name, p.InstrPos(qcall), "quorum:count-is-len", "the permitted count is the length of the frozen-hosts accumulator", "count argument is "+cnt.String())
		if !okc || len(roFreeze) == 0 || len(ioFreeze) == 0 {
			return
		}
		frozen = cnt.Args[0]
		errs1 := roFreeze[0].(ssa.Value)
		errs2 := ioFreeze[0].(ssa.Value)
		n := 0
		for _, a := range frozen.Alts() {
			if a.IsConst("nil") {
				continue
			}
			n++
			ap, ok := a.V.(*ssa.Call)
			if !ok || a.Op != "append" {
				c.Fail(name, p.InstrPos(qcall), nthKey("quorum:accumulator", n), "the accumulator only grows by append", "alternative "+a.String())
				continue
			}
			elems := c.eff.variadic(ap.Call.Args[1])
			if len(elems) != 1 {
				c.Fail(name, p.InstrPos(ap), nthKey("quorum:accumulator", n), "one host is appended at a time", "")
				continue
			}
			host := elems[0]
			resNil := func(m ssa.Value) LitPat {
				return func(l Lit) bool {
					if l.T.Op != "isnil" || !l.Pos {
						return false
					}
					lk := l.T.Args[0]
					return lk.Op == "lookup" && lk.Args[0].V == m && (lk.Args[1].V == host || sameValue(lk.Args[1], p.T(host)))
				}
			}
			c.Gate(fa, ap, nthKey("quorum:append-ro-ok", n), "a host is counted as frozen only if its read-only result was nil", resNil(errs1))
			c.Gate(fa, ap, nthKey("quorum:append-io-ok", n), "a host is counted as frozen only if its IO-thread-stop result was nil", resNil(errs2))
		}
		c.Req(n > 0, name, p.InstrPos(qcall), "quorum:accumulator", "the accumulator has an append site", "")
	})

	c.Rule("C01.g4+g9", func() { checkRecheck(c) })

	var posCall *Term
	c.Rule("C01.g5", func() {
		isPosOK := func(l Lit) bool {
			if !p.NilErr(fnPositions)(l) {
				return false
			}
			for _, a := range l.T.Args[0].Alts() {
				if r := ResultOf(a, 1); r != nil {
					posCall = r
				}
			}
			return posCall != nil
		}
		if !c.Gate(fa, target, "promotion:positions", "promotion is gated by successfully collected positions", isPosOK) {
			return
		}
		c.Req(frozen != nil && sameValue(posCall.Args[1], frozen), name, p.InstrPos(posCall.In), "positions:arg", "positions are collected for exactly the frozen hosts", "argument is "+posCall.Args[1].String())
		lenEq := CmpLit("==", func(t *Term) bool {
			return t.Op == "len" && ResultOf(t.Args[0], 0) != nil && ResultOf(t.Args[0], 0).V == posCall.V
		}, func(t *Term) bool { return t.Op == "len" && frozen != nil && sameValue(t.Args[0], frozen) })
		c.Gate(fa, target, "promotion:positions-complete", "promotion requires len(positions) == len(frozen hosts)", lenEq)
	})

	c.Rule("C01.g6", func() { checkPositionsProvider(c) })

	var searchCall *Term
	c.Rule("C01.g7", func() {
		noSplit := func(l Lit) bool {
			if l.Pos {
				return false
			}
			r := ResultOf(l.T, 2)
			if r == nil || !p.IsCall(r, fnSearch) {
				return false
			}
			searchCall = r
			return true
		}
		if !c.Gate(fa, target, "promotion:no-splitbrain", "promotion is gated by the most-recent-node search answering 'no split brain'", noSplit) {
			return
		}
		arg := searchCall.Args[0]
		c.Req(posCall != nil && ResultOf(arg, 0) != nil && ResultOf(arg, 0).V == posCall.V, name, p.InstrPos(searchCall.In), "search:arg", "the search runs over the collected positions", "argument is "+arg.String())
		// the split-brain edge writes the emergency file and returns an error
		for _, b := range P.Blocks {
			for si := range b.Succs {
				for _, l := range fa.EdgeLits(b, si) {
					if l.Pos && ResultOf(l.T, 2) != nil && ResultOf(l.T, 2).V == searchCall.V {
						path, _ := fa.ReachFromEdge(b, si, func(in ssa.Instruction) bool { _, ok := in.(*ssa.Return); return ok }, ReachOpts{Barrier: isCallTo(p, "(*app.App).writeEmergeFile")})
						c.Req(path == nil, name, p.InstrPos(blockIf(b)), "splitbrain-edge:emerge-file", "on split brain the emergency marker is written before returning", "path: "+fa.PathString(path))
						bad := ""
						for _, r := range Returns(P) {
							pth, _ := fa.ReachFromEdge(b, si, func(in ssa.Instruction) bool { return in == ssa.Instruction(r) }, ReachOpts{})
							if pth == nil {
								continue
							}
							if k, _ := c.retKind(fa, r, 0); k != "nonnil" {
								bad = p.InstrPos(r) + " returns " + k
							}
						}
						c.Req(bad == "", name, p.InstrPos(blockIf(b)), "splitbrain-edge:error", "on split brain the procedure returns a non-nil error (nothing is promoted)", bad)
					}
				}
			}
		}
	})
	c.Rule("C01.g7b", func() { checkSearchVerify(c) })

	var waitCall *Term
	c.Rule("C01.g8", func() {
		caught := func(l Lit) bool {
			if !l.Pos {
				return false
			}
			r := ResultOf(l.T, 0)
			if r == nil || !p.IsCall(r, fnWait) {
				return false
			}
			waitCall = r
			return true
		}
		if !c.Gate(fa, target, "promotion:caught-up", "promotion is gated by the catch-up wait answering true", caught) {
			return
		}
		c.Gate(fa, target, "promotion:catchup-noerr", "promotion is gated by the catch-up wait returning no error", p.NilErr(fnWait))
		node, set := waitCall.Args[1], waitCall.Args[2]
		c.Req(sameNode(p, node, recvT), name, p.InstrPos(waitCall.In), "wait:node", "the node awaited is the node that is promoted", "awaited "+node.String()+" promoted "+recvT.String())
		okset := searchCall != nil && ResultOf(set, 1) != nil && ResultOf(set, 1).V == searchCall.V
		c.Req(okset, name, p.InstrPos(waitCall.In), "wait:set", "the awaited set is the most recent set found by the search", "awaited set is "+set.String())
	})
	c.Rule("C01.g8b", func() { checkWaitSI(c) })

	c.Rule("C01.g10", func() {
		var rp *Term
		repointed := func(l Lit) bool {
			if !p.NilErr("util.CombineErrors")(l) {
				return false
			}
			for _, a := range l.T.Args[0].Alts() {
				if ce := ResultOf(a, -1); ce != nil && p.IsCall(ce.Args[0], "util.RunParallel") {
					rp = ce.Args[0]
				}
			}
			if rp == nil {
				return false
			}
			mc, ok := rp.Args[0].V.(*ssa.MakeClosure)
			if !ok {
				return false
			}
			return len(p.Calls(mc.Fn.(*ssa.Function), fnChange)) > 0
		}
		if !c.Gate(fa, target, "promotion:repointed", "promotion is gated by the parallel re-pointing of the active nodes returning no error", repointed) {
			return
		}
		cl := rp.Args[0].V.(*ssa.MakeClosure).Fn.(*ssa.Function)
		cfa := p.FA(cl)
		host := cl.Params[0]
		for _, ch := range p.Calls(cl, fnChange) {
			a := ch.Common().Args
			okargs := a[1] == ssa.Value(host) && sameHostCell(p, p.T(a[2]), recvT)
			c.Req(okargs, p.Name(cl), p.InstrPos(ch), "repoint:args", "each host is re-pointed to the promoted host", "args "+p.T(a[1]).String()+", "+p.T(a[2]).String())
		}
		for i, rs := range c.SuccessSites(cl, 0, "nil") {
			skipSelf := CmpLit("==", func(t *Term) bool { return t.V == ssa.Value(host) }, func(t *Term) bool { return sameHostCell(p, t, recvT) })
			c.Gate(cfa, rs.At, nthKey("repoint:closure-nil", i+1), "the re-pointing closure reports success only if it re-pointed the host, or the host is the promoted one, unreachable or not registered",
				p.NilErr(fnChange), skipSelf, FieldLit(false, "PingOk"), func(l Lit) bool {
					// not registered (any more): nothing to re-point
					return !l.Pos && l.T.Op == "extract" && l.T.Name == "1" && len(l.T.Args) == 1 && l.T.Args[0].Op == "lookup" && l.T.Args[0].Args[1].V == ssa.Value(host)
				})
		}
		list := rp.Args[1]
		c.Req(derivesOnly(list, func(a *Term) bool {
			return (a.Op == "param" && a.Name == "2") || p.IsCall(a, "app.filterOut")
		}), name, p.InstrPos(rp.In), "repoint:list", "re-pointing ranges over the active list", "list "+list.String())
	})

	c.Rule("C01.g11", func() { checkOldMasterHandled(c) })

	c.Rule("C01.g12", func() {
		var stopCI, resetCI ssa.CallInstruction
		stopOK := func(l Lit) bool {
			if !p.NilErr("(*mysql.Node).StopSlave")(l) {
				return false
			}
			ci := callInstr(l)
			if ci == nil || !sameNode(p, p.T(ci.Common().Args[0]), recvT) {
				return false
			}
			stopCI = ci
			return true
		}
		resetOK := func(l Lit) bool {
			if !p.NilErr("(*mysql.Node).ResetSlaveAll")(l) {
				return false
			}
			ci := callInstr(l)
			if ci == nil || !sameNode(p, p.T(ci.Common().Args[0]), recvT) {
				return false
			}
			resetCI = ci
			return true
		}
		c.Gate(fa, target, "promotion:stop-slave", "promotion requires StopSlave on the promoted node to have succeeded", stopOK)
		if c.Gate(fa, target, "promotion:reset-slave", "promotion requires ResetSlaveAll on the promoted node to have succeeded", resetOK) && resetCI != nil {
			c.Gate(fa, resetCI, "reset-after-stop", "the reset is issued only after the stop succeeded", stopOK)
		}
		_ = stopCI
	})

	c.Rule("C01.g13", func() { checkNewMasterSources(c, P, target, searchCall) })

	c.Rule("C01.g14", func() {
		if waitCall == nil {
			panic(AnchorError{"catch-up wait in " + name})
		}
		wci := waitCall.In.(ssa.CallInstruction)
		isRecent := CmpLit("==", func(t *Term) bool { return sameHostCell(p, t, recvT) }, func(t *Term) bool {
			return searchCall != nil && ResultOf(t, 0) != nil && ResultOf(t, 0).V == searchCall.V
		})
		repoint := func(l Lit) bool {
			if !p.NilErr(fnChange)(l) {
				return false
			}
			ci := callInstr(l)
			if ci == nil {
				return false
			}
			a := ci.Common().Args
			return sameHostCell(p, p.T(a[1]), recvT) && searchCall != nil && ResultOf(p.T(a[2]), 0) != nil && ResultOf(p.T(a[2]), 0).V == searchCall.V
		}
		c.Gate(fa, wci, "wait:source-is-most-recent", "before waiting, a promoted host that is not the most recent one has been re-pointed to the most recent one", isRecent, repoint)
	})

	c.Rule("C01.WHO", func() {
		allowed := map[string]string{name: "PROMOTE", "(*app.App).repairReadOnlyOnMaster": "UNFENCE"}
		seen := map[string]bool{}
		for _, r := range c.DaemonRoots() {
			for _, e := range c.eff.Collect(r.Fn, WalkOpts{}) {
				if e.Kind != "SQL" || e.Op != "set_writable" {
					continue
				}
				var site ssa.Instruction
				for _, ch := range e.Chain {
					if ci, ok := ch.(ssa.CallInstruction); ok && p.siteIs(ci, "(*mysql.Node).SetWritable") {
						site = ch
					}
				}
				where := "?"
				if site != nil {
					where = p.Name(site.Parent())
				}
				k := where + "@" + p.InstrPos(site)
				if seen[k] {
					continue
				}
				seen[k] = true
				_, ok := allowed[where]
				c.Req(ok, where, p.InstrPos(site), "set_writable-site", "a node is made writable only by the switchover procedure or the disk-space un-fencing of the recorded master", "reached from "+r.Name+": "+c.eff.ChainString(e))
			}
		}
		c.Req(len(seen) >= 2, name, "-", "set_writable-sites", "both known set_writable sites are visible to the effect engine", fmt.Sprintf("%d sites", len(seen)))
	})
}

// sameNode: two *Node terms denote the same node: identical SSA value, or both
// registry lookups of the same host value.
func sameNode(p *Prog, a, b *Term) bool {
	if sameValue(a, b) {
		return true
	}
	if p.IsCall(a, "(*mysql.Cluster).Get") && p.IsCall(b, "(*mysql.Cluster).Get") {
		return sameValue(a.Args[1], b.Args[1]) || (a.Args[1].Op == "cell" && b.Args[1].Op == "cell" && cellOf(a.Args[1]) == cellOf(b.Args[1]) && cellOf(a.Args[1]) != nil)
	}
	return false
}

func cellOf(t *Term) *ssa.Alloc {
	if t == nil {
		return nil
	}
	if ld, ok := t.V.(*ssa.UnOp); ok {
		var tb *termBuilder
		for _, x := range tbSingleton {
			tb = x
		}
		if al, ok := tb.resolveAddr(ld.X).(*ssa.Alloc); ok {
			return al
		}
	}
	if al, ok := t.V.(*ssa.Alloc); ok {
		return al
	}
	return nil
}

// sameHostCell: host term t is the host the node term `node` was looked up with.
func sameHostCell(p *Prog, t, node *Term) bool {
	if !p.IsCall(node, "(*mysql.Cluster).Get") {
		return false
	}
	k := node.Args[1]
	if sameValue(t, k) {
		return true
	}
	return cellOf(t) != nil && cellOf(t) == cellOf(k)
}

// checkPositionsProvider: C01.g6
func checkPositionsProvider(c *Check) {
	p := c.p
	fn := p.MustFunc(fnPositions)
	name := p.Name(fn)
	rps := p.Calls(fn, "util.RunParallel")
	if len(rps) != 1 {
		panic(AnchorError{"single RunParallel in " + name})
	}
	mc, ok := rps[0].Common().Args[0].(*ssa.MakeClosure)
	if !ok {
		panic(AnchorError{"closure argument of RunParallel in " + name})
	}
	c.Req(p.T(rps[0].Common().Args[1]).Op == "param", name, p.InstrPos(rps[0]), "positions:over-param", "positions are collected for the hosts given by the caller", "")
	// errors of the workers are combined into the result
	okret := false
	for _, r := range Returns(fn) {
		if len(r.Results) == 2 {
			t := p.T(r.Results[1])
			if p.IsCall(t, "util.CombineErrors") && t.Args[0].V == rps[0].(ssa.Value) {
				okret = true
			}
		}
	}
	c.Req(okret, name, "-", "positions:errors-combined", "a failing host makes the whole collection fail (errors of all workers are combined into the result)", "")
	cl := mc.Fn.(*ssa.Function)
	cfa := p.FA(cl)
	var appends []*ssa.Call
	for _, b := range cl.Blocks {
		for _, in := range b.Instrs {
			if call, ok := in.(*ssa.Call); ok {
				if bi, ok := call.Call.Value.(*ssa.Builtin); ok && bi.Name() == "append" {
					appends = append(appends, call)
				}
			}
		}
	}
	c.Req(len(appends) == 1, p.Name(cl), "-", "positions:append", "the worker records a position at exactly one site", fmt.Sprintf("%d sites", len(appends)))
	isStatus := func(t *Term) bool {
		r := ResultOf(t, 0)
		return r != nil && p.IsCall(r, "(*mysql.Node).GetReplicaStatus")
	}
	for _, ap := range appends {
		master := func(l Lit) bool { return l.T.Op == "isnil" && l.Pos && isStatus(l.T.Args[0]) }
		noTail := CmpLit("==", func(t *Term) bool {
			return p.IsCall(t, "(mysql.ReplicaStatus).GetRetrievedGtidSet") && isStatus(t.Args[0])
		}, func(t *Term) bool { return t.IsConst("") })
		merged := func(l Lit) bool {
			if !p.NilErr(gtidUpdate)(l) {
				return false
			}
			ci := callInstr(l)
			if ci == nil {
				return false
			}
			recv, args := recvArgs(ci)
			rt, at := p.T(recv), p.T(args[0])
			okr := p.IsCall(rt, "mysql/gtids.ParseGtidSet") && p.IsCall(rt.Args[0], "(mysql.ReplicaStatus).GetExecutedGtidSet")
			oka := p.IsCall(at, "(mysql.ReplicaStatus).GetRetrievedGtidSet") && isStatus(at.Args[0])
			return okr && oka
		}
		c.Gate(cfa, ap, "positions:retrieved-merged", "a replica's position is recorded only after its retrieved set (when non-empty) was merged into the executed set; a merge error fails the host", master, noTail, merged)
		c.Gate(cfa, ap, "positions:status-read", "a position is recorded only after the replica status was read without error", p.NilErr("(*mysql.Node).GetReplicaStatus"))
		// the recorded set is the merged one / the master's executed set
		elems := c.eff.variadic(ap.Call.Args[1])
		okset := false
		if len(elems) == 1 {
			et := p.T(elems[0])
			okset = et.Contains(func(x *Term) bool {
				return p.IsCall(x, "mysql/gtids.ParseGtidSet") || (ResultOf(x, 0) != nil && p.IsCall(ResultOf(x, 0), "(*mysql.Node).GTIDExecutedParsed"))
			})
			if !okset {
				// struct literal built in an alloc: look at the field store
				if ld, ok := elems[0].(*ssa.UnOp); ok {
					if al, ok := ld.X.(*ssa.Alloc); ok {
						for _, s := range p.FieldStores(al, "app.nodePosition.gtidset") {
							st := p.T(s)
							okset = derivesOnly(st, func(a *Term) bool {
								return p.IsCall(a, "mysql/gtids.ParseGtidSet") || (ResultOf(a, 0) != nil && p.IsCall(ResultOf(a, 0), "(*mysql.Node).GTIDExecutedParsed"))
							})
						}
					}
				}
			}
		}
		c.Req(okset, p.Name(cl), p.InstrPos(ap), "positions:set-source", "the recorded set is the parsed executed set (merged with the retrieved set) or the master's executed set", "")
	}
}

// checkSearchVerify: C01.g7b / C13.VERIFY
func checkSearchVerify(c *Check) {
	p := c.p
	fn := p.MustFunc(fnSearch)
	fa := p.FA(fn)
	name := p.Name(fn)
	n := 0
	for _, r := range Returns(fn) {
		if len(r.Results) != 3 {
			continue
		}
		k, _ := c.retKind(fa, r, 2)
		if k == "const:true" {
			// split brain: empty host
			c.Req(p.T(r.Results[0]).IsConst(""), name, p.InstrPos(r), "search:splitbrain-empty-host", "the split-brain answer carries no host", "")
			continue
		}
		n++
		var sel *Term
		verified := func(l Lit) bool {
			if l.Pos || !p.IsCall(l.T, fnDetect) {
				return false
			}
			if !(l.T.Args[0].Op == "param" && l.T.Args[0].Name == "0") {
				return false
			}
			sel = l.T.Args[1]
			if sel.IsField("gtidset") && len(sel.Args) == 1 {
				sel = sel.Args[0] // the set of the selection is handed over instead of the selection
			}
			return true
		}
		if c.Gate(fa, r, nthKey("search:verified", n), "'no split brain' is answered only after the verification pass over all positions returned false", verified) {
			// the returned host and set are those of the verified selection
			h, s := p.T(r.Results[0]), p.T(r.Results[1])
			okh := h.IsField("host") && s.IsField("gtidset") && sel != nil && termSameBase(h.Args[0], sel) && termSameBase(s.Args[0], sel)
			c.Req(okh, name, p.InstrPos(r), nthKey("search:returns-verified", n), "the host and set returned are those of the selection that was verified", "returns "+h.String()+", "+s.String()+" verified "+fmt.Sprint(sel))
		}
	}
	c.Req(n > 0, name, "-", "search:has-answer", "the search has a 'no split brain' return", "")

	d := p.MustFunc(fnDetect)
	dfa := p.FA(d)
	dname := p.Name(d)
	// loop over the whole parameter
	var contain ssa.CallInstruction
	for _, ci := range p.Calls(d, gtidContain) {
		contain = ci
	}
	// the selection may be handed over as a position (its .gtidset is used) or as the set itself
	isSelSet := func(t *Term) bool {
		return (t.IsField("gtidset") && t.Args[0].Op == "param" && t.Args[0].Name == "1") || (t.Op == "param" && t.Name == "1")
	}
	if contain == nil {
		// library form: return slices.ContainsFunc(positions, func(n) bool { return !selected.Contain(n.gtidset) })
		okLib := false
		for _, cf := range p.Calls(d, "slices.ContainsFunc") {
			whole := p.T(cf.Common().Args[0])
			mc, isMC := cf.Common().Args[1].(*ssa.MakeClosure)
			if !(whole.Op == "param" && whole.Name == "0") || !isMC {
				continue
			}
			cl := mc.Fn.(*ssa.Function)
			inner := p.Calls(cl, gtidContain)
			if len(inner) != 1 || len(cl.Params) != 1 {
				continue
			}
			recv, args := recvArgs(inner[0])
			rt, at := p.T(recv), p.T(args[0])
			dir := isSelSet(rt) && at.IsField("gtidset") && at.Args[0].V == ssa.Value(cl.Params[0])
			neg := true
			for _, r := range Returns(cl) {
				t := p.T(r.Results[0])
				neg = neg && t.Op == "not" && len(t.Args) == 1 && ResultOf(t.Args[0], -1) != nil && ResultOf(t.Args[0], -1).In == ssa.Instruction(inner[0].(ssa.Instruction))
			}
			ret := true
			for _, r := range Returns(d) {
				ret = ret && r.Results[0] == cf.Value()
			}
			c.Req(dir, dname, p.InstrPos(inner[0]), "verify:direction", "the verification tests selected.Contain(other) for each element of the whole input", "test is "+rt.String()+".Contain("+at.String()+")")
			c.Req(neg && ret, dname, p.InstrPos(cf), "verify:miss-is-splitbrain", "a position not contained in the selection makes the verification answer 'split brain' (ContainsFunc over the negated test, returned as it is)", "")
			c.Hold(dname, p.InstrPos(cf), "verify:no-early-exit", "ContainsFunc answers false only after every element was tested")
			okLib = true
		}
		if okLib {
			return
		}
		panic(AnchorError{"Contain call in " + dname})
	}
	recv, args := recvArgs(contain)
	rt, at := p.T(recv), p.T(args[0])
	okdir := isSelSet(rt) &&
		at.IsField("gtidset") && elementOfParam(at.Args[0], "0")
	c.Req(okdir, dname, p.InstrPos(contain), "verify:direction", "the verification tests selected.Contain(other) for each element of the whole input", "test is "+rt.String()+".Contain("+at.String()+")")
	// failing test returns true; no exit with false from inside the loop
	for _, b := range d.Blocks {
		for si := range b.Succs {
			for _, l := range dfa.EdgeLits(b, si) {
				if r := ResultOf(l.T, -1); r == nil || r.In != ssa.Instruction(contain.(ssa.Instruction)) {
					continue
				}
				if !l.Pos {
					bad := ""
					for _, r := range Returns(d) {
						pth, _ := dfa.ReachFromEdge(b, si, func(in ssa.Instruction) bool { return in == ssa.Instruction(r) }, ReachOpts{})
						if pth != nil {
							if k, _ := c.retKind(dfa, r, 0); k != "const:true" {
								bad = p.InstrPos(r) + " returns " + k
							}
						}
					}
					c.Req(bad == "", dname, p.InstrPos(blockIf(b)), "verify:miss-is-splitbrain", "a position not contained in the selection makes the verification answer 'split brain'", bad)
				} else {
					// from the contained edge a 'false' answer is reachable only through the loop head
					head := loopHead(d)
					if head != nil && b.Succs[si] == head {
						c.Hold(dname, p.InstrPos(blockIf(b)), "verify:no-early-exit", "the verification cannot answer 'no split brain' before every position was compared")
						continue
					}
					pth, _ := dfa.ReachFromEdge(b, si, func(in ssa.Instruction) bool {
						r, ok := in.(*ssa.Return)
						if !ok {
							return false
						}
						k, _ := c.retKind(dfa, r, 0)
						return k != "const:true"
					}, ReachOpts{CutEdge: func(bb *ssa.BasicBlock, s int) bool { return head != nil && bb.Succs[s] == head }})
					c.Req(pth == nil && head != nil, dname, p.InstrPos(blockIf(b)), "verify:no-early-exit", "the verification cannot answer 'no split brain' before every position was compared", "path: "+dfa.PathString(pth))
				}
			}
		}
	}
}

// loopHead returns the header block of the single loop of fn (the target of a back edge).
func loopHead(fn *ssa.Function) *ssa.BasicBlock {
	var head *ssa.BasicBlock
	for _, b := range fn.Blocks {
		for _, s := range b.Succs {
			if s.Dominates(b) {
				head = s
			}
		}
	}
	return head
}

// elementOfParam: t is an element (index/rangeval) of parameter #idx.
func elementOfParam(t *Term, idx string) bool {
	for _, a := range t.Alts() {
		switch a.Op {
		case "index", "indexaddr", "rangeval":
			if len(a.Args) > 0 && a.Args[0].Op == "param" && a.Args[0].Name == idx {
				continue
			}
			return false
		default:
			return false
		}
	}
	return true
}

func termSameBase(a, b *Term) bool {
	if sameValue(a, b) {
		return true
	}
	ca, cb := cellOf(a), cellOf(b)
	if ca != nil && ca == cb {
		return true
	}
	// both cells over the same allocation printed as cell terms
	if a != nil && b != nil && a.Op == "cell" && b.Op == "cell" && a.V != nil && a.V == b.V {
		return true
	}
	return false
}

// checkWaitSI: C01.g8b
func checkWaitSI(c *Check) {
	p := c.p
	fn := p.MustFunc(fnWait)
	fa := p.FA(fn)
	name := p.Name(fn)
	contained := func(l Lit) bool {
		if !l.Pos || !p.IsCall(l.T, gtidContain) {
			return false
		}
		rt, at := l.T.Args[0], l.T.Args[1]
		r := ResultOf(rt, 0)
		okr := r != nil && p.IsCall(r, "(*mysql.Node).GTIDExecutedParsed") && r.Args[0].Op == "param" && r.Args[0].Name == "1"
		oka := at.Op == "param" && at.Name == "2"
		return okr && oka
	}
	async := p.OK(true, fnAsync)
	sites := c.SuccessSites(fn, 0, "true")
	for i, rs := range sites {
		c.Gate(fa, rs.At, nthKey("wait:true", i+1), "the wait answers 'caught up' only when the node's executed set contains the awaited set, or the async escape hatch allows it", contained, async)
	}
	c.Req(len(sites) > 0, name, "-", "wait:has-true", "the wait can succeed", "")
	// the executed set is re-read inside the loop (a fresh read per test)
	af := p.MustFunc(fnAsync)
	afa := p.FA(af)
	an := p.Name(af)
	auto, _ := p.ConstString("internal/app", "CauseAuto")
	asites := c.SuccessSites(af, 0, "true")
	for i, rs := range asites {
		c.Gate(afa, rs.At, nthKey("async:mode", i+1), "the escape hatch requires async mode", FieldLit(true, "ASync"))
		c.Gate(afa, rs.At, nthKey("async:auto-only", i+1), "the escape hatch applies to automatic failover only", CmpLit("==", func(t *Term) bool { return t.IsField("Cause") }, func(t *Term) bool { return t.IsConst(auto) }))
		c.Gate(afa, rs.At, nthKey("async:lag-configured", i+1), "the escape hatch requires a positive allowed lag", CmpLit("<", func(t *Term) bool { return t.IsConst("0") }, func(t *Term) bool { return t.IsField("AsyncAllowedLag") }))
		c.Gate(afa, rs.At, nthKey("async:delay-below", i+1), "the escape hatch requires delay < allowed lag, the delay (whole seconds from the query) scaled to a duration", CmpLit("<", func(t *Term) bool {
			isDelay := func(x *Term) bool {
				r := ResultOf(x, 0)
				return r != nil && p.IsCall(r, "(*mysql.Node).CalcReplMonTSDelay")
			}
			// delay × time.Second: the query answers in seconds, the configured lag is a time.Duration (nanoseconds) —
			// compared unscaled, every real lag is "below" the limit
			scaled := t.Contains(func(x *Term) bool {
				if x.Op != "bin" || x.Name != "*" || len(x.Args) != 2 {
					return false
				}
				for i := 0; i < 2; i++ {
					if v, ok := intConst(x.Args[i]); ok && v == 1000000000 && x.Args[1-i].Contains(isDelay) {
						return true
					}
				}
				return false
			})
			return scaled
		}, func(t *Term) bool { return t.IsField("AsyncAllowedLag") }))
		c.Gate(afa, rs.At, nthKey("async:delay-read", i+1), "the delay was computed without error", p.NilErr("(*mysql.Node).CalcReplMonTSDelay"))
		c.Gate(afa, rs.At, nthKey("async:timestamp-read", i+1), "the master's published timestamp was read without error", p.NilErr("(*app.App).GetReplMonTS"))
		c.Gate(afa, rs.At, nthKey("async:timestamp-present", i+1), "… and is not empty: the reading wrapper answers (\"\", nil) for a key that does not exist, the delay query turns '' into 0 and the 'delay' becomes hugely negative — an unmeasured lag must not open the hatch", func(l Lit) bool {
			isTS := func(t *Term) bool {
				r := ResultOf(t, 0)
				return r != nil && p.IsCall(r, "(*app.App).GetReplMonTS")
			}
			a, b, op, ok := Cmp(l)
			if ok && op == "!=" && ((isTS(a) && b.IsConst("")) || (isTS(b) && a.IsConst(""))) {
				return true
			}
			// len(ts) > 0 / 0 < len(ts)
			if ok && (op == "<" || op == "!=") {
				for _, pr := range [][2]*Term{{a, b}, {b, a}} {
					if pr[0].IsConst("0") && pr[1].Op == "len" && len(pr[1].Args) == 1 && isTS(pr[1].Args[0]) {
						return true
					}
				}
			}
			return false
		})
	}
	c.Req(len(asites) > 0, an, "-", "async:has-true", "the escape hatch exists", "")
}

// checkNewMasterSources: C01.g13 / C11.TO / C14.FROM
func checkNewMasterSources(c *Check, P *ssa.Function, target ssa.CallInstruction, searchCall *Term) {
	p := c.p
	fa := p.FA(P)
	name := p.Name(P)
	recvT := p.T(target.Common().Args[0])
	if !p.IsCall(recvT, "(*mysql.Cluster).Get") {
		c.Fail(name, p.InstrPos(target), "promoted:registry", "the promoted node is looked up in the registry by the chosen host", "receiver "+recvT.String())
		return
	}
	host := recvT.Args[1]
	alts := host.Alts()
	n := 0
	for _, a := range alts {
		n++
		switch {
		case a.IsField("To") && a.Args[0].Op == "param" && a.Args[0].Name == "3":
			c.Hold(name, p.InstrPos(target), nthKey("promoted:source", n), "source: the requested target host")
			active := func(l Lit) bool {
				return l.Pos && p.IsCall(l.T, "slices.Contains") && l.T.Args[0].Op == "param" && l.T.Args[0].Name == "2" && l.T.Args[1].IsField("To")
			}
			noTo := CmpLit("==", func(t *Term) bool { return t.IsField("To") }, func(t *Term) bool { return t.IsConst("") })
			c.Gate(fa, target, "promoted:to-is-active", "a requested target is promoted only if it is in the active list", active, noTo)
		case ResultOf(a, 0) != nil && p.IsCall(ResultOf(a, 0), "app.getMostDesirableNode"):
			ch := ResultOf(a, 0)
			arg := ch.Args[1]
			okf := p.IsCall(arg, "app.filterOutNodeFromPositions") && arg.Args[1].IsField("From") &&
				ResultOf(arg.Args[0], 0) != nil && p.IsCall(ResultOf(arg.Args[0], 0), fnPositions)
			c.Req(okf, name, p.InstrPos(ch.In), nthKey("promoted:source", n), "source: the chooser applied to the collected positions minus the 'from' host", "chooser argument "+arg.String())
			c.Gate(fa, target, "promoted:chooser-noerr", "the chooser's error is checked", p.NilErr("app.getMostDesirableNode"), CmpLit("==", func(t *Term) bool { return t.IsField("From") }, func(t *Term) bool { return t.IsConst("") }), CmpLit("!=", func(t *Term) bool { return t.IsField("To") }, func(t *Term) bool { return t.IsConst("") }))
		case searchCall != nil && ResultOf(a, 0) != nil && ResultOf(a, 0).V == searchCall.V:
			c.Hold(name, p.InstrPos(target), nthKey("promoted:source", n), "source: the most recent node")
		case a.Op == "const" && (a.Name == "" || a.Name == "nil" || a.Name == "zero:string"):
			n--
		default:
			c.Fail(name, p.InstrPos(target), nthKey("promoted:source", n), "the promoted host is the requested target, the chooser's result over positions minus 'from', or the most recent node", "other source: "+a.String())
		}
	}
	c.Req(n >= 1, name, p.InstrPos(target), "promoted:sources", "the promoted host has at least one recognised source", "")
	// the filter really removes the from host
	f := p.MustFunc("app.filterOutNodeFromPositions")
	ffa := p.FA(f)
	k := 0
	for _, b := range f.Blocks {
		for _, in := range b.Instrs {
			if call, ok := in.(*ssa.Call); ok {
				if bi, ok := call.Call.Value.(*ssa.Builtin); ok && bi.Name() == "append" {
					k++
					ne := CmpLit("!=", func(t *Term) bool { return t.IsField("host") }, func(t *Term) bool { return t.Op == "param" && t.Name == "1" })
					c.Gate(ffa, call, nthKey("filter:append", k), "the position filter keeps a position only if its host differs from the excluded host", ne)
				}
			}
		}
	}
	c.Req(k > 0, p.Name(f), "-", "filter:has-append", "the position filter builds its result by append", "")
}

// checkOldMasterHandled: C01.g11 / C11.MARK-SWITCH
func checkOldMasterHandled(c *Check) {
	p := c.p
	P, target := promotionTarget(c)
	fa := p.FA(P)
	name := p.Name(P)
	var searchCall *Term
	for _, ci := range p.Calls(P, fnSearch) {
		searchCall = p.T(ci.(ssa.Value))
	}
	if searchCall == nil {
		panic(AnchorError{"most-recent-node search in " + name})
	}

		marked := func(l Lit) bool {
			if !p.NilErr(fnSetRecovery)(l) {
				return false
			}
			ci := callInstr(l)
			return ci != nil && p.T(ci.Common().Args[1]).Op == "param" && p.T(ci.Common().Args[1]).Name == "4"
		}
		var resetCI ssa.CallInstruction
		clean := func(l Lit) bool {
			if !p.NilErr("(mysql.IExternalReplication).Reset")(l) {
				return false
			}
			resetCI = callInstr(l)
			return resetCI != nil
		}
		c.Gate(fa, target, "promotion:old-master-handled", "promotion requires the old master to be marked for recovery, or confirmed a clean replica", marked, clean)
		if resetCI == nil {
			// no clean-replica branch at all: marking alone gates; acceptable
			c.Hold(name, "-", "clean-branch", "no unmarked branch exists")
			return
		}
		c.Gate(fa, resetCI, "clean-branch:status-read", "the clean-replica branch requires the old master's replica status to have been read without error", p.NilErr("(*mysql.Node).GetReplicaStatus"))
		stNonNil := func(l Lit) bool {
			if l.T.Op != "isnil" || l.Pos {
				return false
			}
			r := ResultOf(l.T.Args[0], 0)
			return r != nil && p.IsCall(r, "(*mysql.Node).GetReplicaStatus")
		}
		c.Gate(fa, resetCI, "clean-branch:status-nonnil", "the clean-replica branch requires a non-nil replica status (the old master is a replica now)", stNonNil)
		notLost := func(l Lit) bool {
			if l.Pos || !p.IsCall(l.T, "app.isSlavePermanentlyLost") {
				return false
			}
			st, set := l.T.Args[0], l.T.Args[1]
			okst := ResultOf(st, 0) != nil && p.IsCall(ResultOf(st, 0), "(*mysql.Node).GetReplicaStatus")
			okset := searchCall != nil && ResultOf(set, 1) != nil && ResultOf(set, 1).V == searchCall.V
			return okst && okset
		}
		c.Gate(fa, resetCI, "clean-branch:not-lost", "the clean-replica branch requires ¬isSlavePermanentlyLost(old master's status, most recent set)", notLost)
		// the status is the old master's
		for _, g := range p.Calls(P, "(*mysql.Node).GetReplicaStatus") {
			rt := p.T(g.Common().Args[0])
			okr := p.IsCall(rt, "(*mysql.Cluster).Get") && rt.Args[1].Op == "param" && rt.Args[1].Name == "4"
			c.Req(okr, name, p.InstrPos(g), "clean-branch:whose-status", "the status examined is the old master's", "receiver "+rt.String())
		}
	}

// elementsOfLiteral: the values stored into the backing array of a slice literal.
func elementsOfLiteral(p *Prog, v ssa.Value) []ssa.Value {
	return variadicOperands(v)
}

// checkFreezeFilter (shared by C01.g1 and C07.REFREEZE).
func checkFreezeFilter(c *Check) {
	p := c.p
	P, _ := promotionTarget(c)
	fa := p.FA(P)
	name := p.Name(P)
	ros := freezeCalls(c, P, "set_readonly(_no_super)?")
	if len(ros) == 0 {
		panic(AnchorError{"read-only freeze phase in " + name})
	}
	list := p.T(ros[0].Common().Args[1])
		// the only host ever left out of the freeze is the old master, and only when an AUTOMATIC request names it as
		// the host to move away from (it is the failed one). A resumed failover finds the NEW master recorded as
		// "old master": leaving that one out would promote a second node beside it.
		nf := 0
		for _, a := range list.Alts() {
			if !p.IsCall(a, "app.filterOut") {
				continue
			}
			nf++
			fc := a.In.(ssa.CallInstruction)
			rem := c.eff.variadic(fc.Common().Args[1])
			okr := len(rem) == 1 && isParam(p.T(rem[0]), "4")
			if !okr {
				// a slice literal []string{oldMaster}
				rt := p.T(fc.Common().Args[1])
				okr = rt.Op == "slice" && len(elementsOfLiteral(p, fc.Common().Args[1])) == 1 && isParam(p.T(elementsOfLiteral(p, fc.Common().Args[1])[0]), "4")
			}
			c.Req(okr, name, p.InstrPos(fc), nthKey("freeze-ro:filter-removes-old-master-only", nf), "the only host removed from the freeze list is the old master", "removed: "+p.T(fc.Common().Args[1]).String())
			c.Gate(fa, fc, nthKey("freeze-ro:filter-only-auto", nf), "the old master is left out of the freeze only for an automatic request", func(l Lit) bool {
				return l.Pos && l.T.Op == "eq" && l.T.Args[0].IsField("Cause") && isParam(l.T.Args[0].Args[0], "3") && l.T.Args[1].IsConst("auto")
			})
			c.Gate(fa, fc, nthKey("freeze-ro:filter-only-failed-host", nf), "… and only when the request moves away from exactly that host (on a resumed failover the recorded master is already the new one and must be frozen like everybody else)", func(l Lit) bool {
				if !l.Pos || l.T.Op != "eq" {
					return false
				}
				x, y := l.T.Args[0], l.T.Args[1]
				return (x.IsField("From") && isParam(x.Args[0], "3") && isParam(y, "4")) || (y.IsField("From") && isParam(y.Args[0], "3") && isParam(x, "4"))
			})
		}
	c.Req(nf >= 1, name, "-", "freeze-ro:filter-sites", "the freeze list has its old-master filter", fmt.Sprintf("%d", nf))
}
