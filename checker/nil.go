package main

// E7: nil-contract analysis with host-key provenance (registry-derived vs external).

import (
	"fmt"
	"go/types"
	"sort"
	"strings"

	"golang.org/x/tools/go/ssa"
)

type NilFinding struct {
	Fn        *ssa.Function
	At        ssa.Instruction
	Construct string
	Detail    string
}

type nilAnalysis struct {
	c         *Check
	p         *Prog
	paramReg  map[*ssa.Parameter]bool // string / []string parameters proven registry-derived
	funcs     []*ssa.Function
	callSites map[*ssa.Function][]nilCallSite
	changed   bool
	busy      map[ssa.Value]bool
	forMap    ssa.Value // while classifying the key of a state-map lookup: the map that is indexed
	strictMap bool      // two state maps are two snapshots: a key ranged from one is not known to be in the other
}

type nilCallSite struct {
	Caller *ssa.Function
	At     ssa.Instruction
	Args   []ssa.Value // actual per callee parameter (nil = unknown); for element-wise bindings ElemOf is set
	ElemOf []bool
}

func isStateMapType(t types.Type) bool {
	m, ok := t.Underlying().(*types.Map)
	if !ok {
		return false
	}
	return strings.HasSuffix(m.Elem().String(), "node_state.NodeState") && m.Key().String() == "string"
}

func (na *nilAnalysis) inScope(fn *ssa.Function) bool {
	n := na.p.Name(fn)
	return strings.Contains(n, "app.") || strings.Contains(n, "app/") || strings.HasPrefix(n, "(*mysql.Cluster)") || strings.Contains(n, "resetup")
}

func newNilAnalysis(c *Check) *nilAnalysis {
	na := &nilAnalysis{c: c, p: c.p, paramReg: map[*ssa.Parameter]bool{}, callSites: map[*ssa.Function][]nilCallSite{}}
	p := c.p
	reach := map[*ssa.Function]bool{}
	for _, r := range c.DaemonRoots() {
		for _, f := range c.reachableFuncs(r.Fn) {
			reach[f] = true
		}
	}
	for _, fn := range p.ModFuncs {
		if na.inScope(fn) && reach[fn] {
			na.funcs = append(na.funcs, fn)
		}
	}
	// call sites (static callees; closures passed to the two element-wise helpers)
	elementwise := map[string][2]int{"util.RunParallel": {0, 1}, "app.getNodeStatesInParallel": {1, 0}}
	for _, fn := range na.funcs {
		for _, b := range fn.Blocks {
			for _, in := range b.Instrs {
				ci, ok := in.(ssa.CallInstruction)
				if !ok {
					continue
				}
				cc := ci.Common()
				if callee := cc.StaticCallee(); callee != nil && p.InModule(callee) {
					args := make([]ssa.Value, len(callee.Params))
					for i := range callee.Params {
						if i < len(cc.Args) {
							args[i] = cc.Args[i]
						}
					}
					na.callSites[callee] = append(na.callSites[callee], nilCallSite{fn, in, args, make([]bool, len(args))})
					for _, n := range p.CalleeNames(ci) {
						if ew, ok := elementwise[n]; ok && ew[0] < len(cc.Args) {
							if mc, ok := cc.Args[ew[0]].(*ssa.MakeClosure); ok {
								cl := mc.Fn.(*ssa.Function)
								a := make([]ssa.Value, len(cl.Params))
								e := make([]bool, len(cl.Params))
								if len(cl.Params) > 0 {
									a[0] = cc.Args[ew[1]]
									e[0] = true
								}
								na.callSites[cl] = append(na.callSites[cl], nilCallSite{fn, in, a, e})
							}
						}
					}
				}
			}
		}
	}
	// optimistic start, then refine downwards
	for _, fn := range na.funcs {
		for _, pa := range fn.Params {
			ts := pa.Type().String()
			if ts == "string" || ts == "[]string" {
				na.paramReg[pa] = len(na.callSites[fn]) > 0
			}
		}
	}
	for iter := 0; iter < 12; iter++ {
		na.changed = false
		for _, fn := range na.funcs {
			for i, pa := range fn.Params {
				if !na.paramReg[pa] {
					continue
				}
				for _, cs := range na.callSites[fn] {
					if i >= len(cs.Args) || cs.Args[i] == nil {
						na.paramReg[pa] = false
						na.changed = true
						break
					}
					ok := false
					if pa.Type().String() == "[]string" {
						ok = na.listReg(cs.Args[i], 0)
					} else if cs.ElemOf[i] {
						ok = na.listReg(cs.Args[i], 0)
					} else {
						ok = na.keyReg(cs.Caller, cs.Args[i], cs.At)
					}
					if !ok {
						na.paramReg[pa] = false
						na.changed = true
						break
					}
				}
			}
		}
		if !na.changed {
			break
		}
	}
	return na
}

func (na *nilAnalysis) listReg(v ssa.Value, d int) bool {
	p := na.p
	if d > 24 {
		return false
	}
	if na.busy == nil {
		na.busy = map[ssa.Value]bool{}
	}
	if na.busy[v] {
		return true // loop-carried accumulator: decided by its other alternatives
	}
	na.busy[v] = true
	defer delete(na.busy, v)
	t := p.T(v)
	alts := t.Alts()
	if len(alts) == 0 {
		return false
	}
	for _, a := range alts {
		switch {
		case a.IsConst("nil"):
		case p.IsCall(a, "(*mysql.Cluster).HANodeHosts", "(*mysql.Cluster).AllNodeHosts", "(*mysql.Cluster).CascadeNodeHosts"):
		case p.IsCall(a, "app.filterOut") && a.Args[0].V != nil && na.listReg(a.Args[0].V, d+1):
		case a.Op == "param":
			pa, ok := a.V.(*ssa.Parameter)
			if !ok || !na.paramReg[pa] {
				return false
			}
		case a.Op == "append":
			call, ok := a.V.(*ssa.Call)
			if !ok {
				return false
			}
			if !na.listReg(call.Call.Args[0], d+1) {
				return false
			}
			for _, el := range na.c.eff.variadic(call.Call.Args[1]) {
				if !na.keyReg(call.Parent(), el, call) {
					return false
				}
			}
		case a.Op == "slice" && len(a.Args) > 0 && a.Args[0].V != nil && na.listReg(a.Args[0].V, d+1):
		case na.moduleListResult(a, d):
		default:
			return false
		}
	}
	return true
}

// guardFor: literal establishing that key k is registered (present in a state map or the registry).
func (na *nilAnalysis) guardFor(k *Term) LitPat {
	p := na.p
	sameKey := func(t *Term) bool {
		return sameValue(t, k) || (cellOf(t) != nil && cellOf(t) == cellOf(k))
	}
	return func(l Lit) bool {
		// v, ok := m[k]; ok
		if l.Pos && l.T.Op == "extract" && l.T.Name == "1" && len(l.T.Args) == 1 && l.T.Args[0].Op == "lookup" && sameKey(l.T.Args[0].Args[1]) {
			return true
		}
		if l.T.Op == "isnil" && !l.Pos {
			x := l.T.Args[0]
			if x.Op == "extract" && x.Name == "0" && len(x.Args) == 1 {
				x = x.Args[0]
			}
			if x.Op == "lookup" && sameKey(x.Args[1]) {
				return true
			}
			if p.IsCall(x, "(*mysql.Cluster).Get") && sameKey(x.Args[1]) {
				return true
			}
		}
		if l.Pos && p.IsCall(l.T, "(*mysql.Cluster).IsHAHost", "(*mysql.Cluster).IsCascadeHost") && sameKey(l.T.Args[1]) {
			return true
		}
		return false
	}
}

func (na *nilAnalysis) keyReg(fn *ssa.Function, k ssa.Value, at ssa.Instruction) bool {
	p := na.p
	t := p.T(k)
	if at != nil && at.Parent() == fn {
		if ok, _ := p.FA(fn).Gated(at, na.guardFor(t)); ok {
			return true
		}
	}
	alts := t.Alts()
	if len(alts) == 0 {
		return false
	}
	for _, a := range alts {
		switch {
		case a.Op == "rangekey" && len(a.Args) == 1 && a.Args[0].V != nil && isStateMapType(a.Args[0].V.Type()):
			if na.strictMap && na.forMap != nil && !sameMap(p, a.Args[0], p.T(na.forMap)) {
				return false
			}
		case (a.Op == "rangeval" || a.Op == "index") && len(a.Args) > 0 && a.Args[0].V != nil && na.listReg(a.Args[0].V, 0):
		case p.IsCall(a, "(*mysql.Node).Host"):
		case ResultOf(a, 0) != nil && p.IsCall(ResultOf(a, 0), fnGetMaster, fnEnsure):
		case na.positionsHost(a):
		case a.Op == "param":
			pa, ok := a.V.(*ssa.Parameter)
			if !ok || !na.paramReg[pa] {
				return false
			}
		default:
			return false
		}
	}
	return true
}

// Findings: dereferences of possibly-nil registry / state-map results whose key is not registry-derived.
func (na *nilAnalysis) Findings() (findings []NilFinding, examined int) {
	p := na.p
	for _, fn := range na.funcs {
		fa := p.FA(fn)
		for _, b := range fn.Blocks {
			for _, in := range b.Instrs {
				var key ssa.Value
				var what string
				switch x := in.(type) {
				case *ssa.Call:
					if p.siteIs(x, "(*mysql.Cluster).Get") {
						key = x.Call.Args[1]
						what = "registry"
					}
				case *ssa.Lookup:
					if !x.CommaOk && isStateMapType(x.X.Type()) {
						key = x.Index
						what = "state-map"
					}
				case *ssa.Extract:
					if lk, ok := x.Tuple.(*ssa.Lookup); ok && lk.CommaOk && x.Index == 0 && isStateMapType(lk.X.Type()) {
						key = lk.Index
						what = "state-map"
					}
				}
				if key == nil {
					continue
				}
				v := in.(ssa.Value)
				for _, use := range na.derefs(v) {
					examined++
					if !fa.Reachable(use) {
						continue
					}
					self := func(l Lit) bool { return l.T.Op == "isnil" && !l.Pos && l.T.Args[0].V == v }
					if ok, _ := fa.Gated(use, self); ok {
						continue
					}
					na.forMap = nil
					if what == "state-map" {
						switch x := in.(type) {
						case *ssa.Lookup:
							na.forMap = x.X
						case *ssa.Extract:
							na.forMap = x.Tuple.(*ssa.Lookup).X
						}
					}
					reg := na.keyReg(fn, key, use)
					if reg && na.strictMap && na.forMap != nil && na.isSecondSnapshot(fn, na.forMap, 0) && !na.keyInMap(fn, key, use, na.forMap) {
						reg = false // the health-record map is read after the state map: a registry-derived name need not be in it
					}
					na.forMap = nil
					if reg {
						continue
					}
					_, path := fa.Gated(use, na.guardFor(p.T(key)))
					findings = append(findings, NilFinding{fn, use, fmt.Sprintf("%s[%s] %s", what, na.keyDesc(key), na.useDesc(use)), "key is not registry-derived and no presence test dominates the use; path: " + fa.PathString(path)})
				}
			}
		}
	}
	sort.Slice(findings, func(i, j int) bool {
		return p.Name(findings[i].Fn)+findings[i].Construct < p.Name(findings[j].Fn)+findings[j].Construct
	})
	return
}

func (na *nilAnalysis) keyDesc(k ssa.Value) string {
	t := na.p.T(k)
	s := []rune(t.str(3))
	if len(s) > 90 {
		return string(s[:90]) + "…"
	}
	return string(s)
}

func (na *nilAnalysis) useDesc(in ssa.Instruction) string {
	switch x := in.(type) {
	case *ssa.FieldAddr:
		return "." + afterDot(fieldName(x.X.Type(), x.Field))
	case ssa.CallInstruction:
		return "→" + afterDot(na.p.CalleeNames(x)[0])
	}
	return fmt.Sprintf("%T", in)
}

// derefs lists the instructions that dereference v (directly or through a phi).
func (na *nilAnalysis) derefs(v ssa.Value) []ssa.Instruction {
	var out []ssa.Instruction
	seen := map[ssa.Value]bool{}
	var rec func(x ssa.Value, d int)
	rec = func(x ssa.Value, d int) {
		if seen[x] || d > 2 || x.Referrers() == nil {
			return
		}
		seen[x] = true
		for _, r := range *x.Referrers() {
			switch u := r.(type) {
			case *ssa.FieldAddr:
				if u.X == x {
					out = append(out, u)
				}
			case *ssa.Field:
				_ = u
			case *ssa.UnOp:
				if u.X == x && u.Op.String() == "*" {
					out = append(out, u)
				}
			case ssa.CallInstruction:
				cc := u.Common()
				if callee := cc.StaticCallee(); callee != nil && callee.Signature.Recv() != nil && len(cc.Args) > 0 && cc.Args[0] == x {
					if _, isPtr := callee.Signature.Recv().Type().(*types.Pointer); isPtr && na.p.InModule(callee) {
						out = append(out, u)
					}
				}
			case *ssa.Phi:
				rec(u, d+1)
			case *ssa.MakeInterface:
				// stored in an interface: a later invoke dereferences inside the method
				for _, rr := range *u.Referrers() {
					if ci, ok := rr.(ssa.CallInstruction); ok && ci.Common().IsInvoke() && ci.Common().Value == ssa.Value(u) {
						out = append(out, ci)
					}
				}
			}
		}
	}
	rec(v, 0)
	return out
}

// moduleListResult: a is result of a module function all of whose returns are registry-derived lists.
func (na *nilAnalysis) moduleListResult(a *Term, d int) bool {
	p := na.p
	idx := 0
	call := a
	if a.Op == "extract" && len(a.Args) == 1 {
		fmt.Sscanf(a.Name, "%d", &idx)
		call = a.Args[0]
	}
	if call.Op != "call" {
		return false
	}
	ci, ok := call.In.(ssa.CallInstruction)
	if !ok {
		return false
	}
	callee := ci.Common().StaticCallee()
	if callee == nil || !p.InModule(callee) || len(callee.Blocks) == 0 {
		return false
	}
	rets := Returns(callee)
	if len(rets) == 0 {
		return false
	}
	for _, r := range rets {
		if idx >= len(r.Results) || !na.listReg(r.Results[idx], d+2) {
			return false
		}
	}
	return true
}

// positionsHost: a is the host of a collected position — an element of getNodePositions' result, or the
// answer of the search / chooser applied to such positions. The provider records a position only for a
// host whose registry handle was non-nil (checked by C20.NILKEY:positions-guard), C14.OFFERED shows the
// chooser answers an offered host and C13.VERIFY that the search answers the selection's host.
func (na *nilAnalysis) positionsHost(a *Term) bool {
	p := na.p
	fromPositions := func(t *Term) bool {
		return t.Contains(func(x *Term) bool {
			r := ResultOf(x, 0)
			return r != nil && p.IsCall(r, fnPositions)
		})
	}
	if r := ResultOf(a, 0); r != nil && p.IsCall(r, fnSearch, fnChooser) {
		for _, arg := range r.Args {
			if fromPositions(arg) {
				return true
			}
		}
	}
	if a.IsField("host") && fromPositions(a) {
		return true
	}
	return false
}

// StatusFindings: "nil replica status means master" — every interface call on a status value is below a nil test.
func (na *nilAnalysis) StatusFindings() (findings []NilFinding, examined int) {
	p := na.p
	producers := []string{"(*mysql.Node).GetReplicaStatus", "(*mysql.Node).ReplicaStatusWithTimeout", "(mysql.IExternalReplication).GetReplicaStatus", "(app/optimization.Node).GetReplicaStatus"}
	// module functions that invoke a status parameter unconditionally
	derefParam := map[*ssa.Function]map[int]bool{}
	for _, fn := range p.ModFuncs {
		for i, pa := range fn.Params {
			if !strings.HasSuffix(pa.Type().String(), "mysql.ReplicaStatus") || pa.Referrers() == nil {
				continue
			}
			fa := p.FA(fn)
			for _, r := range *pa.Referrers() {
				if ci, ok := r.(ssa.CallInstruction); ok && ci.Common().IsInvoke() && ci.Common().Value == ssa.Value(pa) {
					self := func(l Lit) bool { return l.T.Op == "isnil" && !l.Pos && l.T.Args[0].V == ssa.Value(pa) }
					if g, _ := fa.Gated(ci, self); !g {
						if derefParam[fn] == nil {
							derefParam[fn] = map[int]bool{}
						}
						derefParam[fn][i] = true
					}
				}
			}
		}
	}
	funcs := append([]*ssa.Function{}, na.funcs...)
	for _, fn := range p.ModFuncs {
		if strings.Contains(p.Name(fn), "app/optimization") {
			funcs = append(funcs, fn)
		}
	}
	seenFn := map[*ssa.Function]bool{}
	for _, fn := range funcs {
		if seenFn[fn] {
			continue
		}
		seenFn[fn] = true
		fa := p.FA(fn)
		for _, ci := range p.Calls(fn, producers...) {
			call, ok := ci.(*ssa.Call)
			if !ok {
				continue
			}
			var st ssa.Value
			for _, r := range *call.Referrers() {
				if ex, ok := r.(*ssa.Extract); ok && ex.Index == 0 {
					st = ex
				}
			}
			if st == nil {
				continue
			}
			// the value may be spilled to a cell (assigned in a loop): follow stores one level
			vals := []ssa.Value{st}
			for _, r := range *st.Referrers() {
				if s, ok := r.(*ssa.Store); ok && s.Val == st {
					if al, ok := s.Addr.(*ssa.Alloc); ok {
						for _, rr := range *al.Referrers() {
							if ld, ok := rr.(*ssa.UnOp); ok && ld.X == ssa.Value(al) {
								vals = append(vals, ld)
							}
						}
					}
				}
				if ph, ok := r.(*ssa.Phi); ok {
					vals = append(vals, ph)
				}
			}
			for _, v := range vals {
				if v.Referrers() == nil {
					continue
				}
				for _, r := range *v.Referrers() {
					use, ok := r.(ssa.CallInstruction)
					if !ok {
						continue
					}
					isDeref := use.Common().IsInvoke() && use.Common().Value == v
					if !isDeref {
						if callee := use.Common().StaticCallee(); callee != nil {
							for i, a := range use.Common().Args {
								if a == v && derefParam[callee][i] {
									isDeref = true
								}
							}
						}
					}
					if !isDeref {
						continue
					}
					examined++
					if !fa.Reachable(use) {
						continue
					}
					self := func(l Lit) bool {
						return l.T.Op == "isnil" && !l.Pos && (l.T.Args[0].V == v || l.T.Args[0].V == st || (cellOf(l.T.Args[0]) != nil && cellOf(l.T.Args[0]) == cellOf(p.T(v))))
					}
					if g, _ := fa.Gated(use, self); g {
						continue
					}
					_, path := fa.Gated(use, self)
					findings = append(findings, NilFinding{fn, use, fmt.Sprintf("status-of %s →%s", afterDot(p.CalleeNames(ci)[0]), afterDot(p.CalleeNames(use)[0])), "a replica status (nil for a master / after RESET) is used without a nil test; path: " + fa.PathString(path)})
				}
			}
		}
	}
	sort.Slice(findings, func(i, j int) bool {
		return p.Name(findings[i].Fn)+findings[i].Construct < p.Name(findings[j].Fn)+findings[j].Construct
	})
	return
}

// EscapeFindings: a possibly-nil registry handle (looked up with a name that is not registry-derived,
// no presence test) leaves the function that looked it up — converted to a non-empty interface (a typed
// nil that passes every `== nil` test downstream), stored into a slice or struct, passed as an argument or
// returned. The dereference then happens somewhere NILKEY cannot see.
func (na *nilAnalysis) EscapeFindings() (findings []NilFinding, examined int) {
	p := na.p
	for _, fn := range na.funcs {
		fa := p.FA(fn)
		for _, b := range fn.Blocks {
			for _, in := range b.Instrs {
				call, ok := in.(*ssa.Call)
				if !ok || !p.siteIs(call, "(*mysql.Cluster).Get") {
					continue
				}
				key := call.Call.Args[1]
				for _, esc := range na.escapes(call) {
					examined++
					if !fa.Reachable(esc.at) {
						continue
					}
					v := esc.v
					self := func(l Lit) bool {
						return l.T.Op == "isnil" && !l.Pos && (l.T.Args[0].V == v || l.T.Args[0].V == ssa.Value(call))
					}
					if ok, _ := fa.Gated(esc.at, self); ok {
						continue
					}
					if na.keyReg(fn, key, esc.at) {
						continue
					}
					_, path := fa.Gated(esc.at, na.guardFor(p.T(key)))
					findings = append(findings, NilFinding{fn, esc.at, fmt.Sprintf("registry[%s] %s", na.keyDesc(key), esc.how), "the name is not registry-derived and no presence test dominates the point where the handle leaves the function; path: " + fa.PathString(path)})
				}
			}
		}
	}
	sort.Slice(findings, func(i, j int) bool {
		return p.Name(findings[i].Fn)+findings[i].Construct < p.Name(findings[j].Fn)+findings[j].Construct
	})
	return
}

type nilEscape struct {
	at  ssa.Instruction
	v   ssa.Value
	how string
}

func (na *nilAnalysis) escapes(v ssa.Value) []nilEscape {
	var out []nilEscape
	seen := map[ssa.Value]bool{}
	var rec func(x ssa.Value, d int)
	rec = func(x ssa.Value, d int) {
		if seen[x] || d > 2 || x.Referrers() == nil {
			return
		}
		seen[x] = true
		for _, r := range *x.Referrers() {
			switch u := r.(type) {
			case *ssa.Phi:
				rec(u, d+1)
			case *ssa.MakeInterface:
				if it, ok := u.Type().Underlying().(*types.Interface); ok && it.NumMethods() > 0 {
					out = append(out, nilEscape{u, x, "⇒interface " + typeShort(u.Type())})
				}
			case *ssa.Store:
				if u.Val != x {
					continue
				}
				switch a := u.Addr.(type) {
				case *ssa.IndexAddr:
					out = append(out, nilEscape{u, x, "⇒slice element"})
				case *ssa.FieldAddr:
					out = append(out, nilEscape{u, x, "⇒field " + afterDot(fieldName(a.X.Type(), a.Field))})
				case *ssa.Alloc:
					// a local variable: its loads are further uses
					for _, rr := range *a.Referrers() {
						if ld, ok := rr.(*ssa.UnOp); ok && ld.X == ssa.Value(a) {
							rec(ld, d+1)
						}
					}
				}
			case *ssa.Return:
				out = append(out, nilEscape{u, x, "⇒returned"})
			case ssa.CallInstruction:
				cc := u.Common()
				for i, a := range cc.Args {
					if a != x {
						continue
					}
					if i == 0 && !cc.IsInvoke() && cc.Signature().Recv() != nil {
						continue // receiver position: NILKEY's dereference
					}
					out = append(out, nilEscape{u, x, "⇒argument of " + afterDot(na.p.CalleeNames(u)[0])})
				}
			}
		}
	}
	rec(v, 0)
	return out
}

// sameMap: two terms denote the same map value (same SSA value, same variable, or the same parameter).
func sameMap(p *Prog, a, b *Term) bool {
	if sameValue(a, b) {
		return true
	}
	if cellOf(a) != nil && cellOf(a) == cellOf(b) {
		return true
	}
	return a.Op == "param" && b.Op == "param" && a.Name == b.Name && a.V == b.V
}

// keyInMap (strict reading): the key is known to be a key of THIS map — it is a range key of it, or a presence test on
// this very map (or a map it was copied from within the function) dominates the use. Being registry-derived is not
// enough: each state map is its own snapshot of a registry that other goroutines refresh.
func (na *nilAnalysis) keyInMap(fn *ssa.Function, k ssa.Value, at ssa.Instruction, m ssa.Value) bool {
	p := na.p
	kt, mt := p.T(k), p.T(m)
	for _, a := range kt.Alts() {
		if a.Op == "rangekey" && len(a.Args) == 1 && sameMap(p, a.Args[0], mt) {
			return true
		}
	}
	sameKey := func(t *Term) bool { return sameValue(t, kt) || (cellOf(t) != nil && cellOf(t) == cellOf(kt)) }
	guard := func(l Lit) bool {
		lk := l.T
		if l.Pos && lk.Op == "extract" && lk.Name == "1" && len(lk.Args) == 1 && lk.Args[0].Op == "lookup" {
			return sameKey(lk.Args[0].Args[1]) && sameMap(p, lk.Args[0].Args[0], mt)
		}
		if lk.Op == "isnil" && !l.Pos {
			x := lk.Args[0]
			if x.Op == "extract" && x.Name == "0" && len(x.Args) == 1 {
				x = x.Args[0]
			}
			if x.Op == "lookup" {
				return sameKey(x.Args[1]) && sameMap(p, x.Args[0], mt)
			}
		}
		return false
	}
	ok, _ := p.FA(fn).Gated(at, guard)
	if ok {
		return true
	}
	// parameters: the map and the key are both parameters and every call site passes a (map, key) pair that is in step —
	// decided at the call sites by the same rule (one level)
	kp, kok := k.(*ssa.Parameter)
	mp, mok := m.(*ssa.Parameter)
	if !kok || !mok {
		return false
	}
	ki, mi := -1, -1
	for i, pa := range fn.Params {
		if pa == kp {
			ki = i
		}
		if pa == mp {
			mi = i
		}
	}
	sites := na.callSites[fn]
	if ki < 0 || mi < 0 || len(sites) == 0 {
		return false
	}
	for _, cs := range sites {
		if ki >= len(cs.Args) || mi >= len(cs.Args) || cs.Args[ki] == nil || cs.Args[mi] == nil || cs.ElemOf[ki] {
			return false
		}
		if !na.keyInMapDepth(cs.Caller, cs.Args[ki], cs.At, cs.Args[mi], 1) {
			return false
		}
	}
	return true
}

func (na *nilAnalysis) keyInMapDepth(fn *ssa.Function, k ssa.Value, at ssa.Instruction, m ssa.Value, d int) bool {
	if d > 3 {
		return false
	}
	return na.keyInMap(fn, k, at, m)
}

// isSecondSnapshot: the map is (on every path / at every call site) the result of getClusterStateFromDcs — the snapshot
// taken after the state map of the same iteration.
func (na *nilAnalysis) isSecondSnapshot(fn *ssa.Function, m ssa.Value, d int) bool {
	p := na.p
	if d > 4 {
		return false
	}
	t := p.T(m)
	alts := t.Alts()
	if len(alts) == 0 {
		return false
	}
	for _, a := range alts {
		if r := ResultOf(a, 0); r != nil && p.IsCall(r, "(*app.App).getClusterStateFromDcs") {
			continue
		}
		if a.Op == "param" {
			pa, ok := a.V.(*ssa.Parameter)
			if !ok {
				return false
			}
			f := pa.Parent()
			idx := -1
			for i, q := range f.Params {
				if q == pa {
					idx = i
				}
			}
			sites := na.callSites[f]
			if idx < 0 || len(sites) == 0 {
				return false
			}
			for _, cs := range sites {
				if idx >= len(cs.Args) || cs.Args[idx] == nil || !na.isSecondSnapshot(cs.Caller, cs.Args[idx], d+1) {
					return false
				}
			}
			continue
		}
		return false
	}
	return true
}
