package main

import (
	"fmt"
	"strings"

	"golang.org/x/tools/go/ssa"
)

func init() {
	register("C03", "other",
		"Structural necessary conditions of 'one lock holder, and only the holder acts', each decided over all CFG paths / call chains of the current tree: "+
			"(ACQ) the coordination client reports the lock as held only on a fresh cache entry, a successful ephemeral create carrying its own identity, or an owner record equal to its own identity, and caches only the latter two; "+
			"(SESSION) every non-connected session event clears the lock cache before anything can return and every session event is forwarded; "+
			"(REL) release deletes only under owner==self with the version of the same read and drops the cache entry first; "+
			"(APP) the daemon's wrapper says 'held' only when the client does; "+
			"(ACT) from every daemon root (state handlers, background loops, coordination callbacks, discovered from Run) no statement changing another node and no coordination write outside the per-host allow-list is reachable without crossing a successful manager-lock check; "+
			"(RECHECK) promotion in the switchover procedure is gated by a lock re-check placed after the freeze and by another placed after the catch-up wait.",
		"cross-process mutual exclusion under session expiry and cache TTL (ZooKeeper server semantics, wall-clock), two sessions both believing they own the node, expiry timing",
		runC03)
}

func runC03(c *Check) {
	p := c.p
	zkFlag, ok := p.pkgConst("github.com/go-zookeeper/zk", "FlagEphemeral")
	if !ok {
		panic(AnchorError{"zk.FlagEphemeral"})
	}

	c.Rule("C03.ACQ", func() {
		fn := p.MustFunc("(*dcs.zkDCS).AcquireLock")
		fa := p.FA(fn)
		name := p.Name(fn)
		isSelf := func(t *Term) bool {
			for _, a := range t.Alts() {
				if p.IsCall(a, "(*dcs.zkDCS).getSelfLockOwner") {
					return true
				}
			}
			return false
		}
		fromCache := func(t *Term) bool {
			return t.Contains(func(x *Term) bool { return p.IsCall(x, "(*sync.Map).Load") })
		}
		gTTL := func(l Lit) bool {
			a, b, op, ok := Cmp(l)
			if !ok || op != "<" {
				return false
			}
			return p.IsCall(a, "time.Since") && fromCache(a) && b.IsField("LockHeldTTL")
		}
		createOK := func(l Lit) bool {
			if !p.NilErr("(*dcs.zkDCS).retryCreate")(l) {
				return false
			}
			ci := callInstr(l)
			if ci == nil {
				return false
			}
			args := ci.Common().Args // recv, path, data, flags, acl
			if len(args) < 5 {
				return false
			}
			if !p.T(args[3]).IsConst(zkFlag) {
				return false
			}
			// payload is the marshalled self identity
			data := p.T(args[2])
			okPayload := data.Contains(func(x *Term) bool {
				if !p.IsCall(x, "encoding/json.Marshal") || len(x.Args) == 0 {
					return false
				}
				al, ok := x.Args[0].V.(*ssa.Alloc)
				if !ok {
					return false
				}
				for _, s := range p.CellStores(al) {
					if isSelf(p.T(s)) {
						return true
					}
				}
				return false
			})
			return okPayload
		}
		ownerSelf := func(l Lit) bool {
			a, b, op, ok := Cmp(l)
			if !ok || op != "==" {
				return false
			}
			return isSelf(a) || isSelf(b)
		}
		n := 0
		for _, r := range Returns(fn) {
			kind, _ := c.retKind(fa, r, 0)
			if kind == "const:false" {
				continue
			}
			n++
			ok, path := fa.Gated(r, gTTL, createOK, ownerSelf)
			c.Req(ok && kind == "const:true", name, p.InstrPos(r), nthKey("return-true", n),
				"a 'lock held' answer is gated by any-of {fresh cache entry (time.Since(cached) < LockHeldTTL), successful create with flags=zk.FlagEphemeral and own identity as payload, owner == self}",
				"kind="+kind+" ungated path: "+fa.PathString(path))
		}
		for i, st := range p.Calls(fn, "(*sync.Map).Store") {
			ok, path := fa.Gated(st, createOK, ownerSelf)
			c.Req(ok, name, p.InstrPos(st), nthKey("lockHeld.Store", i+1),
				"the lock cache is filled only after a successful ephemeral create or an owner==self read", "ungated path: "+fa.PathString(path))
		}
		// stale entry: on the ¬(since < TTL) edge the entry is deleted before anything else happens
		found := false
		for _, b := range fn.Blocks {
			for si := range b.Succs {
				for _, l := range fa.EdgeLits(b, si) {
					nl := Lit{l.T, !l.Pos}
					if gTTL(nl) {
						found = true
						path, _ := fa.ReachFromEdge(b, si, func(in ssa.Instruction) bool {
							if _, ok := in.(*ssa.Return); ok {
								return true
							}
							return isCallTo(p, "(*dcs.zkDCS).retryGet")(in)
						}, ReachOpts{Barrier: isCallTo(p, "(*sync.Map).Delete")})
						c.Req(path == nil, name, p.InstrPos(blockIf(b)), "stale-cache-edge",
							"a cache entry older than the TTL is deleted before the lock is re-read", "path without delete: "+fa.PathString(path))
					}
				}
			}
		}
		if !found {
			c.Fail(name, "-", "stale-cache-edge", "the cache hit is subject to a TTL test", "no edge time.Since(cached) < LockHeldTTL found")
		}
	})

	c.Rule("C03.SESSION", func() { checkSessionCache(c) })

	c.Rule("C03.REL", func() {
		fn := p.MustFunc("(*dcs.zkDCS).ReleaseLock")
		fa := p.FA(fn)
		name := p.Name(fn)
		ownerSelf := func(l Lit) bool {
			a, b, op, ok := Cmp(l)
			if !ok || op != "==" {
				return false
			}
			is := func(t *Term) bool {
				for _, x := range t.Alts() {
					if p.IsCall(x, "(*dcs.zkDCS).getSelfLockOwner") {
						return true
					}
				}
				return false
			}
			return is(a) || is(b)
		}
		dels := p.Calls(fn, "(*dcs.zkDCS).retryDelete")
		c.Req(len(dels) == 1, name, "-", "retryDelete", "release deletes the lock node at exactly one site", fmt.Sprintf("%d sites", len(dels)))
		for _, d := range dels {
			ok, path := fa.Gated(d, ownerSelf)
			c.Req(ok, name, p.InstrPos(d), "retryDelete:owner-gate", "the delete is gated by owner == self", "ungated path: "+fa.PathString(path))
			args := d.Common().Args // recv, path, version
			ver := p.T(args[2])
			var getCall *Term
			okv := ver.IsField("Version") && len(ver.Args) == 1 && func() bool {
				getCall = ResultOf(ver.Args[0], 1)
				return getCall != nil && p.IsCall(getCall, "(*dcs.zkDCS).retryGet")
			}()
			c.Req(okv, name, p.InstrPos(d), "retryDelete:version", "the delete's version is Stat.Version of a read in the same call", "version argument is "+ver.String())
			if okv {
				// the owner record compared is unmarshalled from the same read
				same := false
				for _, u := range p.Calls(fn, "encoding/json.Unmarshal") {
					d0 := p.T(u.Common().Args[0])
					if r := ResultOf(d0, 0); r != nil && r.V == getCall.V {
						same = true
					}
				}
				c.Req(same, name, p.InstrPos(d), "retryDelete:same-read", "the owner record and the version come from the same read", "")
			}
		}
		cacheDel := isCallTo(p, "(*sync.Map).Delete")
		for i, g := range p.Calls(fn, "(*dcs.zkDCS).retryGet") {
			ok, path := fa.PrecededBy(g, cacheDel)
			c.Req(ok, name, p.InstrPos(g), nthKey("retryGet", i+1), "the cache entry is dropped before the lock node is read", "path: "+fa.PathString(path))
		}
		for i, r := range Returns(fn) {
			ok, path := fa.PrecededBy(r, cacheDel)
			c.Req(ok, name, p.InstrPos(r), nthKey("return", i+1), "the cache entry is dropped on every path through release", "path: "+fa.PathString(path))
		}
	})

	c.Rule("C03.APP", func() {
		fn := p.MustFunc(fnAppLock)
		fa := p.FA(fn)
		n := 0
		for _, r := range Returns(fn) {
			kind, t := c.retKind(fa, r, 0)
			if kind == "const:false" {
				continue
			}
			n++
			ok := kind == "call" && p.IsCall(t, fnDcsLock) && len(t.Args) == 2 && t.Args[1].Op == "param"
			c.Req(ok, p.Name(fn), p.InstrPos(r), nthKey("return", n), "the daemon reports the lock as held only as the coordination client's own answer for the same path", "returns "+kind)
		}
	})

	c.Rule("C03.ACT", func() {
		gate := c.LockGate()
		roots := c.DaemonRoots()
		var classes = map[string]int{}
		for _, r := range roots {
			classes[r.Class]++
			effs := c.eff.Collect(r.Fn, WalkOpts{Gate: []LitPat{gate}, GateID: "lock"})
			bad := 0
			nEff := 0
			for _, e := range effs {
				switch {
				case sqlMutating(e) && e.Recv != "local":
					nEff++
					bad++
					c.Fail(r.Name, p.InstrPos(e.Site), "unlocked "+e.String(), "a statement changing a node other than the local one is reachable only below a successful manager-lock check", "chain: "+c.eff.ChainString(e))
				case dcsWrite(e):
					nEff++
					if allowedUnlockedWrite(e) {
						continue
					}
					bad++
					c.Fail(r.Name, p.InstrPos(e.Site), "unlocked "+e.String(), "a coordination write outside the per-host allow-list is reachable only below a successful manager-lock check", "chain: "+c.eff.ChainString(e))
				}
			}
			if bad == 0 {
				c.Hold(r.Name, p.Pos(r.Fn.Pos()), "root:"+r.Class, fmt.Sprintf("no manager effect reachable without the lock (%d effects reachable unlocked, all reads, local-node statements or own per-host keys)", len(effs)))
			}
			_ = nEff
		}
		c.Req(classes["handler"] >= 5 && classes["background"] >= 4 && classes["zk"] >= 1, fnRun, "-", "roots",
			"daemon roots discovered from Run (>=5 handlers, >=4 background loops, coordination callbacks)", fmt.Sprintf("found %v", classes))
		// the locked region really exists: with the gate off, the manager handler reaches manager effects
		all := c.eff.Collect(p.MustFunc(fnManager), WalkOpts{})
		nm := 0
		for _, e := range all {
			if (sqlMutating(e) && e.Recv != "local") || (dcsWrite(e) && !allowedUnlockedWrite(e)) {
				nm++
			}
		}
		c.Req(nm >= 20, fnManager, "-", "sanity:locked-region", "the manager handler performs manager effects below the lock check (engine sanity: the gate is what hides them)", fmt.Sprintf("only %d manager effects found", nm))
		c.extra["roots"] = func() []string {
			var s []string
			for _, r := range roots {
				s = append(s, r.Class+":"+r.Name)
			}
			return s
		}()
	})

	c.Rule("C03.RECHECK", func() {
		checkRecheck(c)
	})
}

func allowedUnlockedWrite(e Effect) bool {
	switch {
	case e.Op == "SetEphemeral" && e.Key == "health/$self":
		return true
	case e.Op == "Delete" && e.Key == "recovery/$self":
		return true
	case e.Op == "Create" && e.Key == "resetup_status":
		return true
	case e.Op == "Set" && e.Key == "resetup_status/$self":
		return true
	}
	return false
}

// promotionTarget finds the statement that makes the new master writable in P.
func promotionTarget(c *Check) (fn *ssa.Function, t ssa.CallInstruction) {
	p := c.p
	fn = p.MustFunc(fnSwitch)
	ts := p.Calls(fn, "(*mysql.Node).SetWritable")
	if len(ts) != 1 {
		panic(AnchorError{fmt.Sprintf("promotion target: %d SetWritable calls in %s", len(ts), fnSwitch)})
	}
	return fn, ts[0]
}

// freezeCalls finds the RunParallel calls of P whose closure performs the given SQL.
func freezeCalls(c *Check, fn *ssa.Function, queryRe string) []ssa.CallInstruction {
	p := c.p
	var out []ssa.CallInstruction
	for _, ci := range p.Calls(fn, "util.RunParallel") {
		mc, ok := ci.Common().Args[0].(*ssa.MakeClosure)
		if !ok {
			continue
		}
		env := &Env{Fn: mc.Fn.(*ssa.Function), Parent: c.eff.rootEnv(fn), MC: mc, Params: []AbsVal{topVal}}
		for _, e := range c.eff.CollectEnv(env, WalkOpts{}) {
			if e.Kind == "SQL" && matchAny(e.Op, queryRe) {
				out = append(out, ci)
				break
			}
		}
	}
	return out
}

func checkRecheck(c *Check) {
	p := c.p
	fn, target := promotionTarget(c)
	fa := p.FA(fn)
	name := p.Name(fn)
	lock := c.LockGate()
	stops := freezeCalls(c, fn, "stop_(slave|replica)_io_thread")
	if len(stops) == 0 {
		panic(AnchorError{"freeze phase (RunParallel stopping IO threads) in " + name})
	}
	afterFreeze := func(l Lit) bool {
		if !lock(l) {
			return false
		}
		ci := callInstr(l)
		if ci == nil {
			return false
		}
		ok, _ := fa.PrecededBy(ci, func(in ssa.Instruction) bool { return in == stops[len(stops)-1].(ssa.Instruction) })
		return ok
	}
	afterCatchUp := func(l Lit) bool {
		if !lock(l) {
			return false
		}
		ci := callInstr(l)
		if ci == nil {
			return false
		}
		ok, _ := fa.Gated(ci, p.OK(true, "(*app.App).waitForCatchUp"))
		return ok
	}
	ok, path := fa.Gated(target, afterFreeze)
	c.Req(ok, name, p.InstrPos(target), "promotion:lock-after-freeze", "promotion is gated by a manager-lock re-check made after the freeze (read-only + IO-thread stop)", "path: "+fa.PathString(path))
	ok, path = fa.Gated(target, afterCatchUp)
	c.Req(ok, name, p.InstrPos(target), "promotion:lock-after-catchup", "promotion is gated by a manager-lock re-check made after the catch-up wait succeeded", "path: "+fa.PathString(path))
	// and the re-check after catch-up precedes the first mutating statement that follows the wait
	waits := p.Calls(fn, "(*app.App).waitForCatchUp")
	if len(waits) != 1 {
		panic(AnchorError{"single waitForCatchUp call in " + name})
	}
	env := c.eff.rootEnv(fn)
	_ = env
	n := 0
	for _, b := range fn.Blocks {
		for _, in := range b.Instrs {
			ci, ok := in.(ssa.CallInstruction)
			if !ok || ci == waits[0] {
				continue
			}
			// only calls that are after the successful wait
			if g, _ := fa.Gated(ci, p.OK(true, "(*app.App).waitForCatchUp")); !g {
				continue
			}
			mut := false
			for _, cal := range c.eff.calleesOf(ci, c.eff.rootEnv(fn), 0) {
				if !p.InModule(cal.Fn) {
					continue
				}
				for _, e := range c.eff.CollectEnv(cal, WalkOpts{}) {
					if sqlMutating(e) || dcsWrite(e) && !strings.HasPrefix(e.Key, "timing") {
						mut = true
					}
				}
			}
			if !mut {
				continue
			}
			n++
			ok2, path := fa.Gated(ci, afterCatchUp)
			c.Req(ok2, name, p.InstrPos(ci), nthKey("post-catchup "+p.CalleeNames(ci)[0], n), "every mutating call after the catch-up wait is below the second lock re-check", "path: "+fa.PathString(path))
		}
	}
}

// checkSessionCache: the lock cache is dropped on every non-connected session event and every session event
// reaches the handler (shared by C03.SESSION and C15.SESSION).
func checkSessionCache(c *Check) {
	p := c.p
		fn := p.MustFunc("(*dcs.zkDCS).handleSessionEvent")
		fa := p.FA(fn)
		name := p.Name(fn)
		hasSession, ok := p.pkgConst("github.com/go-zookeeper/zk", "StateHasSession")
		if !ok {
			panic(AnchorError{"zk.StateHasSession"})
		}
		isHas := CmpLit("==", func(t *Term) bool { return t.IsField("State") }, func(t *Term) bool { return t.IsConst(hasSession) })
		found := false
		for _, b := range fn.Blocks {
			for si := range b.Succs {
				for _, l := range fa.EdgeLits(b, si) {
					if isHas(Lit{l.T, !l.Pos}) { // edge on which State != StateHasSession
						found = true
						path, _ := fa.ReachFromEdge(b, si, func(in ssa.Instruction) bool {
							_, isRet := in.(*ssa.Return)
							_, isCall := in.(ssa.CallInstruction)
							return isRet || (isCall && !isCallTo(p, "(*sync.Map).Clear")(in))
						}, ReachOpts{Barrier: isCallTo(p, "(*sync.Map).Clear")})
						c.Req(path == nil, name, p.InstrPos(blockIf(b)), "edge State!=StateHasSession",
							"on every non-connected session event the lock cache is cleared first (before any other call or return)", "path: "+fa.PathString(path))
					}
				}
			}
		}
		if !found {
			c.Fail(name, "-", "edge State!=StateHasSession", "the session handler distinguishes StateHasSession", "no comparison ev.State == zk.StateHasSession found")
		}
		// the event loop forwards every session event
		loop := p.MustFunc("(*dcs.zkDCS).handleEvents")
		lfa := p.FA(loop)
		evSession, _ := p.pkgConst("github.com/go-zookeeper/zk", "EventSession")
		isSess := CmpLit("==", func(t *Term) bool { return t.IsField("Type") }, func(t *Term) bool { return t.IsConst(evSession) })
		calls := p.Calls(loop, "(*dcs.zkDCS).handleSessionEvent")
		c.Req(len(calls) > 0, p.Name(loop), "-", "forward", "the event loop calls the session handler", "no call")
		for _, b := range loop.Blocks {
			for si := range b.Succs {
				for _, l := range lfa.EdgeLits(b, si) {
					if isSess(l) {
						path, _ := lfa.ReachFromEdge(b, si, func(in ssa.Instruction) bool {
							if _, ok := in.(*ssa.Return); ok {
								return true
							}
							if u, ok := in.(*ssa.UnOp); ok && u.Op.String() == "<-" {
								return true
							}
							return false
						}, ReachOpts{Barrier: isCallTo(p, "(*dcs.zkDCS).handleSessionEvent")})
						c.Req(path == nil, p.Name(loop), p.InstrPos(blockIf(b)), "edge Type==EventSession",
							"every session event reaches the session handler before the next receive", "path: "+lfa.PathString(path))
					}
				}
			}
		}
		// no other condition may skip a session event: the handler call is gated only by the type test
		for _, ci := range calls {
			ok, _ := lfa.Gated(ci, isSess)
			c.Req(ok, p.Name(loop), p.InstrPos(ci), "call handleSessionEvent", "the forward is selected by ev.Type == EventSession", "")
		}
}
