package main

// Sibling and name agreement (engine E11). mysync reads replication status through two sibling
// structs (SHOW SLAVE STATUS / SHOW REPLICA STATUS) behind one interface, converts it field by field
// into its own state and ships that state through the coordination service. Every property consumes
// those fields; none of the gate rules looks at how they are produced. Four exact agreement rules:
//
//  SIB   the two implementations of each interface method are the same code modulo the
//        Master/Source, Slave/Replica renaming (cross-check of siblings: a slip in one of them
//        is a disagreement);
//  GET   a trivial getter GetX returns the receiver's field X (modulo the renaming; listed exceptions);
//  CONV  the converter stores getter GetX into field X (listed exceptions);
//  TAG   a `db:"..."` column tag names its field (underscores and case ignored; listed exceptions).
//
// All four are decided on the syntax trees of the type-checked packages.

import (
	"bytes"
	"fmt"
	"go/ast"
	"go/printer"
	"go/token"
	"reflect"
	"sort"
	"strings"
)

func normIdent(s string) string {
	s = strings.ReplaceAll(s, "Source", "Master")
	s = strings.ReplaceAll(s, "Replica", "Slave")
	s = strings.ReplaceAll(s, "source", "master")
	s = strings.ReplaceAll(s, "replica", "slave")
	return s
}

func normLoose(s string) string {
	return strings.ToLower(strings.ReplaceAll(normIdent(s), "_", ""))
}

type methodDecl struct {
	decl *ast.FuncDecl
	file *ast.File
}

func (p *Prog) methodsOf(rel, typ string) map[string]methodDecl {
	out := map[string]methodDecl{}
	for _, f := range p.Pkg(rel).Syntax {
		for _, d := range f.Decls {
			fd, ok := d.(*ast.FuncDecl)
			if !ok || fd.Recv == nil || len(fd.Recv.List) != 1 || fd.Body == nil {
				continue
			}
			t := fd.Recv.List[0].Type
			if st, ok := t.(*ast.StarExpr); ok {
				t = st.X
			}
			if id, ok := t.(*ast.Ident); ok && id.Name == typ {
				out[fd.Name.Name] = methodDecl{fd, f}
			}
		}
	}
	return out
}

// normalisedBody prints a method body with every identifier passed through normIdent and the
// receiver renamed to a fixed name.
func (p *Prog) normalisedBody(m methodDecl) string {
	recv := ""
	if len(m.decl.Recv.List[0].Names) == 1 {
		recv = m.decl.Recv.List[0].Names[0].Name
	}
	var buf bytes.Buffer
	var names []*ast.Ident
	var old []string
	ast.Inspect(m.decl.Body, func(n ast.Node) bool {
		if id, ok := n.(*ast.Ident); ok {
			names = append(names, id)
			old = append(old, id.Name)
		}
		return true
	})
	for _, id := range names {
		if id.Name == recv && recv != "" {
			id.Name = "recv"
		} else {
			id.Name = normIdent(id.Name)
		}
	}
	_ = printer.Fprint(&buf, token.NewFileSet(), m.decl.Body)
	for i, id := range names {
		id.Name = old[i]
	}
	return buf.String()
}

// trivialGetter: `return recv.F` → F.
func trivialGetter(m methodDecl) (string, bool) {
	if len(m.decl.Body.List) != 1 {
		return "", false
	}
	rs, ok := m.decl.Body.List[0].(*ast.ReturnStmt)
	if !ok || len(rs.Results) != 1 {
		return "", false
	}
	sel, ok := rs.Results[0].(*ast.SelectorExpr)
	if !ok {
		return "", false
	}
	if _, ok := sel.X.(*ast.Ident); !ok {
		return "", false
	}
	return sel.Sel.Name, true
}

// checkStatusProducers records the four agreement rules; prefix distinguishes the properties that
// share it (the obligations are the same, the rule id is the caller's).
func checkStatusProducers(c *Check) {
	p := c.p
	const rel = "internal/mysql"
	a, b := p.methodsOf(rel, "SlaveStatusStruct"), p.methodsOf(rel, "ReplicaStatusStruct")
	var common []string
	for n := range a {
		if _, ok := b[n]; ok {
			common = append(common, n)
		}
	}
	sort.Strings(common)
	c.Req(len(common) >= 14, "internal/mysql/data.go", "-", "sib:methods", "the two status structs implement the status interface side by side", fmt.Sprintf("%d common methods", len(common)))
	for _, n := range common {
		ba, bb := p.normalisedBody(a[n]), p.normalisedBody(b[n])
		c.Req(ba == bb, "(*mysql.ReplicaStatusStruct)."+n, p.Pos(b[n].decl.Pos()), "sib:"+n, "the SHOW SLAVE STATUS and SHOW REPLICA STATUS implementations of "+n+" are the same code modulo the Master/Source, Slave/Replica renaming", "legacy: "+oneLine(ba)+" | modern: "+oneLine(bb))
	}
	// GET: getter name = field name (on the legacy sibling; SIB carries it over to the modern one)
	getterExceptions := map[string]string{"GetReplicationLag": "Lag"} // the struct field is called Lag (column Seconds_Behind_*)
	ng := 0
	for _, n := range common {
		f, ok := trivialGetter(a[n])
		if !ok || !strings.HasPrefix(n, "Get") {
			continue
		}
		ng++
		want := strings.TrimPrefix(n, "Get")
		if e, ok := getterExceptions[n]; ok {
			want = e
		}
		c.Req(normIdent(f) == normIdent(want), "(*mysql.SlaveStatusStruct)."+n, p.Pos(a[n].decl.Pos()), "get:"+n, "the getter returns the field it is named after", "returns field "+f)
	}
	c.Req(ng >= 9, "internal/mysql/data.go", "-", "get:getters", "trivial getters found", fmt.Sprintf("%d", ng))
	// TAG: column tags
	tagExceptions := map[string]string{"Lag": "secondsbehindmaster", "Name": "logname", "Size": "filesize", "Timestamp": "ts"}
	nt := 0
	for _, f := range p.Pkg(rel).Syntax {
		for _, d := range f.Decls {
			gd, ok := d.(*ast.GenDecl)
			if !ok || gd.Tok != token.TYPE {
				continue
			}
			for _, sp := range gd.Specs {
				ts := sp.(*ast.TypeSpec)
				st, ok := ts.Type.(*ast.StructType)
				if !ok || !(ts.Name.Name == "SlaveStatusStruct" || ts.Name.Name == "ReplicaStatusStruct" || ts.Name.Name == "GTIDExecuted" || ts.Name.Name == "SemiSyncStatus") {
					continue
				}
				for _, fld := range st.Fields.List {
					if fld.Tag == nil || len(fld.Names) != 1 {
						continue
					}
					tag := reflect.StructTag(strings.Trim(fld.Tag.Value, "`")).Get("db")
					if tag == "" {
						continue
					}
					nt++
					name := fld.Names[0].Name
					want := normLoose(name)
					if e, ok := tagExceptions[name]; ok {
						want = e
					}
					c.Req(normLoose(tag) == want, "mysql."+ts.Name.Name, p.Pos(fld.Pos()), "tag:"+ts.Name.Name+"."+name, "the column read into a status field is the one the field is named after", "tag "+tag)
				}
			}
		}
	}
	c.Req(nt >= 28, "internal/mysql/data.go", "-", "tag:fields", "tagged status fields found", fmt.Sprintf("%d", nt))
	// CONV: the converter
	conv := p.methodsOf("internal/app/node_state", "SlaveState")["FromReplicaStatus"]
	if conv.decl == nil {
		panic(AnchorError{"(*node_state.SlaveState).FromReplicaStatus"})
	}
	convExceptions := map[string]string{"MasterLogPos": "GetReadMasterLogPos", "ReplicationState": "ReplicationState"}
	nc := 0
	for _, st := range conv.decl.Body.List {
		as, ok := st.(*ast.AssignStmt)
		if !ok || len(as.Lhs) != 1 || len(as.Rhs) != 1 {
			continue
		}
		lhs, ok := as.Lhs[0].(*ast.SelectorExpr)
		if !ok {
			continue
		}
		call, ok := as.Rhs[0].(*ast.CallExpr)
		if !ok {
			continue
		}
		fn, ok := call.Fun.(*ast.SelectorExpr)
		if !ok {
			continue
		}
		nc++
		want := "Get" + lhs.Sel.Name
		if e, ok := convExceptions[lhs.Sel.Name]; ok {
			want = e
		}
		c.Req(fn.Sel.Name == want, "(*node_state.SlaveState).FromReplicaStatus", p.Pos(as.Pos()), "conv:"+lhs.Sel.Name, "the state field is filled from the status getter of the same name", "filled from "+fn.Sel.Name)
	}
	c.Req(nc >= 8, "(*node_state.SlaveState).FromReplicaStatus", "-", "conv:assignments", "the converter's assignments are found", fmt.Sprintf("%d", nc))
}

func oneLine(s string) string {
	s = strings.Join(strings.Fields(s), " ")
	if len(s) > 220 {
		s = s[:220] + "…"
	}
	return s
}

func init() {
	sharedRules = append(sharedRules, sharedRule{
		Suffix: "STATUS",
		Props:  []string{"C01", "C02", "C04", "C08", "C10", "C11", "C13", "C14", "C16"},
		Body:   checkStatusProducers,
		Doc:    "(STATUS) producers of the replication status every gate reads: the SHOW SLAVE STATUS / SHOW REPLICA STATUS implementations of each interface method are the same code modulo renaming, trivial getters return the field they are named after, the state converter fills each field from the getter of the same name, column tags name their field",
	})
}

// checkVersionSiblings: the two "is this at least 8.0.22" predicates are the same code. One selects the status statement,
// the other switches the whole external-replication handling on (including stopping it on the old master before the freeze).
func checkVersionSiblings(c *Check) {
	p := c.p
	ms := p.methodsOf("internal/mysql", "Version")
	a, okA := ms["CheckIfVersionReplicaStatus"]
	b, okB := ms["CheckIfExternalReplicationSupported"]
	if !okA || !okB {
		panic(AnchorError{"(*mysql.Version).CheckIf* predicates"})
	}
	ba, bb := p.normalisedBody(a), p.normalisedBody(b)
	c.Req(ba == bb, "(*mysql.Version).CheckIfExternalReplicationSupported", p.Pos(b.decl.Pos()), "version:siblings", "the two version predicates (SHOW REPLICA STATUS available / external replication supported) encode the same boundary, 8.0.22 and everything newer including 8.4: a server that is asked with the modern statement also has its external channel managed — stopped on the old master before positions are collected", "replica-status: "+oneLine(ba)+" | external: "+oneLine(bb))
	// and the boundary itself mentions all three components
	for _, m := range []methodDecl{a, b} {
		body := p.normalisedBody(m)
		ok := strings.Contains(body, "MajorVersion") && strings.Contains(body, "MinorVersion") && strings.Contains(body, "PatchVersion")
		c.Req(ok, "(*mysql.Version)."+m.decl.Name.Name, p.Pos(m.decl.Pos()), "version:components:"+m.decl.Name.Name, "the predicate looks at major, minor and patch version", oneLine(body))
	}
}

func init() {
	sharedRules = append(sharedRules, sharedRule{Suffix: "VERSIONS", Props: []string{"C01", "C10", "C17"}, Body: checkVersionSiblings, Doc: "(VERSIONS) the two server-version predicates are the same code and look at major, minor and patch"})
}
