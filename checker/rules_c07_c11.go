package main

import (
	"fmt"
	"go/types"
	"sort"
	"strings"

	"golang.org/x/tools/go/ssa"
)

const (
	fnCheckRecovery = "(*app.App).checkRecovery"
	fnLost2         = "app.isSlavePermanentlyLost"
	fnRepairSlave   = "(*app.App).repairSlaveNode"
	fnCalcActive    = "(*app.App).calcActiveNodes"
)

func init() {
	register("C07", "other",
		"Orderings over all call boundaries of the switchover procedure — a crash point is a call boundary, so an ordering that holds on every CFG path holds for every crash point: "+
			"(LAST) after the recorded master is written nothing mutating is reachable, so a crash earlier leaves the old record and the successor re-runs, a crash later leaves nothing undone; "+
			"(KEEP) the procedure touches the request and outcome keys only through the rejecting bookkeeping, which is followed by an error (the success record is written by the iteration only after the procedure returned nil); "+
			"(RESUME) no branch of the request region or of approval depends on who started or initiated the request, and start bookkeeping overwrites the starter; "+
			"(STATELESS) the procedure's call closure writes no process-memory field of the daemon outside a short allow-list of caches, so no switchover progress lives in memory; "+
			"(RECHECK) a deposed manager stops before promoting (lock re-checks after freeze and after catch-up).",
		"convergence of a re-run from an arbitrary intermediate topology (needs executions), data loss under crashes inside MySQL statements",
		runC07)
	register("C11", "other",
		"The recovery protocol's ordering and gating, on every CFG path: "+
			"(MARK-SWITCH) promotion requires the old master to be marked, or confirmed a clean replica (status read, non-nil, not permanently lost against the most recent set); "+
			"(MARK-STALE) a node found claiming to be master beside the recorded one is, on every path, taken offline, semi-sync disabled, re-pointed and marked; "+
			"(ORDER) marking removes exactly that host from the published active list first and creates the mark only after that write succeeded; "+
			"(EXCL) a marked host other than the master never enters the computed active list; (TO) a requested target must be in the active list, so a marked host is never promoted; "+
			"(CLEAR) the mark is deleted at one daemon site, for this process' own host, below: mark present, no resetup file, replica status read, not permanently lost against the recorded master's executed set, read-only; "+
			"(RESETUP) 'permanently lost' leads to the resetup file and never to the clear; (LOSTDEF) permanently lost = replication in error, or the replica's executed set not contained in the master's (in that argument order); "+
			"(OFFLINE) the master is brought online only when it is not marked.",
		"interleavings between the host's checker and manager iterations, the contents of GTID sets",
		runC11)
}

// reachableFuncs: module functions transitively callable from fn (static + VTA).
func (c *Check) reachableFuncs(fn *ssa.Function) []*ssa.Function {
	p := c.p
	seen := map[*ssa.Function]bool{}
	var out []*ssa.Function
	var rec func(f *ssa.Function)
	rec = func(f *ssa.Function) {
		if f == nil || seen[f] || !p.InModule(f) {
			return
		}
		seen[f] = true
		out = append(out, f)
		for _, a := range f.AnonFuncs {
			rec(a)
		}
		for _, b := range f.Blocks {
			for _, in := range b.Instrs {
				if ci, ok := in.(ssa.CallInstruction); ok {
					for _, cal := range p.Callees(ci) {
						rec(cal)
					}
				}
			}
		}
	}
	rec(fn)
	return out
}

func runC07(c *Check) {
	p := c.p
	P, _ := promotionTarget(c)
	fa := p.FA(P)
	name := p.Name(P)

	c.Rule("C07.LAST", func() {
		sets := p.Calls(P, "(*app.App).SetMasterHost")
		c.Req(len(sets) == 1, name, "-", "record-master", "the procedure records the new master at one site", fmt.Sprintf("%d", len(sets)))
		for _, s := range sets {
			path, hit := fa.ReachAfter(s, func(in ssa.Instruction) bool {
				ci, ok := in.(ssa.CallInstruction)
				return ok && c.mutatingCall(P, ci)
			}, ReachOpts{})
			det := ""
			if hit != nil {
				det = p.InstrPos(hit) + " " + p.CalleeNames(hit.(ssa.CallInstruction))[0] + " via " + fa.PathString(path)
			}
			c.Req(path == nil, name, p.InstrPos(s), "record-master:last", "nothing mutating follows the write of the recorded master", det)
		}
		// and every nil return passed it
		for i, rs := range c.SuccessSites(P, 0, "nil") {
			c.Gate(fa, rs.At, nthKey("nil", i+1)+":recorded", "the procedure returns nil only after recording the master", p.NilErr("(*app.App).SetMasterHost"))
		}
		// the record is written by the daemon only here and when ensuring an absent/ambiguous record
		n := 0
		seen := map[string]bool{}
		for _, r := range c.DaemonRoots() {
			for _, e := range c.eff.Collect(r.Fn, WalkOpts{}) {
				if !(dcsWrite(e) && e.Key == "master") {
					continue
				}
				k := p.InstrPos(e.Chain[0]) + c.eff.ChainString(e)
				if seen[k] {
					continue
				}
				seen[k] = true
				n++
				ok := c.chainVia(e, fnSwitch, fnEnsure) && e.Op == "Set"
				c.Req(ok, r.Name, p.InstrPos(e.Site), "write(master) via "+p.InstrPos(e.Chain[len(e.Chain)-1]), "the recorded master is written only by the switchover procedure and by ensuring an absent record", "chain: "+c.eff.ChainString(e))
			}
		}
		c.Req(n >= 2, name, "-", "write(master):sites", "writers of the master record are visible", fmt.Sprintf("%d", n))
	})

	c.Rule("C07.KEEP", func() {
		n := 0
		for _, e := range c.eff.Collect(P, WalkOpts{}) {
			if !dcsWrite(e) || !(e.Key == "switch" || e.Key == "last_switch" || e.Key == "last_rejected_switch") {
				continue
			}
			n++
			c.Req(c.chainVia(e, fnFinish), name, p.InstrPos(e.Site), "request-key-effect "+e.String()+"@"+p.InstrPos(e.Chain[0]), "inside the procedure the request/outcome keys are touched only by the rejecting bookkeeping", "chain: "+c.eff.ChainString(e))
		}
		c.Hold(name, p.Pos(P.Pos()), "request-key-effects", fmt.Sprintf("%d effects on the request/outcome keys, all through the rejecting bookkeeping (followed by an error: C06.NODOUBLE)", n))
		// in-procedure finishes always carry an error
		for _, fname := range []string{fnSwitch, fnOptPhase} {
			f := p.MustFunc(fname)
			ffa := p.FA(f)
			for i, ci := range p.Calls(f, fnFinish) {
				k, _ := c.valKind(ffa, ci, ci.Common().Args[2])
				c.Req(k == "nonnil", fname, p.InstrPos(ci), nthKey("finish-inside", i+1)+":rejects", "the procedure never records success itself", "argument kind "+k)
			}
		}
	})

	c.Rule("C07.RESUME", func() {
		M := p.MustFunc(fnManager)
		bad := 0
		n := 0
		for _, f := range []*ssa.Function{M, p.MustFunc(fnApproveSwitch), P} {
			ffa := p.FA(f)
			for _, b := range f.Blocks {
				if blockIf(b) == nil {
					continue
				}
				for si := range b.Succs {
					for _, l := range ffa.EdgeLits(b, si) {
						n++
						if l.T.Contains(func(x *Term) bool {
							return x.IsField("StartedBy") || x.IsField("StartedAt") || x.IsField("InitiatedBy")
						}) {
							bad++
							c.Fail(p.Name(f), p.InstrPos(blockIf(b)), "branch-on-starter", "processing a pending request does not depend on who started or initiated it (a successor on another host resumes it)", "condition "+l.String())
						}
					}
				}
			}
		}
		if bad == 0 {
			c.Hold(fnManager, "-", "branch-on-starter", fmt.Sprintf("%d branch literals examined, none mentions StartedBy/StartedAt/InitiatedBy", n))
		}
		S := p.MustFunc(fnStart)
		sfa := p.FA(S)
		wrote := map[string]ssa.Instruction{}
		for _, b := range S.Blocks {
			for _, in := range b.Instrs {
				if st, ok := in.(*ssa.Store); ok {
					if fad, ok := st.Addr.(*ssa.FieldAddr); ok {
						wrote[fieldName(fad.X.Type(), fad.Field)] = st
						if fieldName(fad.X.Type(), fad.Field) == "app.Switchover.StartedBy" {
							v := p.T(st.Val)
							c.Req(v.IsField("Hostname"), fnStart, p.InstrPos(st), "starter:self", "the starter recorded is this host", "is "+v.String())
						}
					}
				}
			}
		}
		for _, f := range []string{"app.Switchover.StartedBy", "app.Switchover.StartedAt"} {
			st := wrote[f]
			ok := st != nil
			if ok {
				for _, w := range p.Calls(S, "(app.IAppDCS).SetCurrentSwitchover") {
					pre, _ := sfa.PrecededBy(w, func(in ssa.Instruction) bool { return in == st })
					ok = ok && pre
				}
			}
			c.Req(ok, fnStart, p.Pos(S.Pos()), "overwrites:"+afterDot(f), "start bookkeeping overwrites the previous starter before re-writing the request", "")
		}
	})

	c.Rule("C07.STATELESS", func() {
		allowed := map[string]string{
			"app.App.lostQuorumTime": "lock-acquisition cooldown after quorum loss (not switchover progress)",
			"app.App.daemonState":    "cache of the local daemon's start/recovery time, guarded by daemonMutex",
		}
		allowedMaps := map[string]string{
			"app.App.slaveReadPositions": "semi-sync join heuristic of the active-list update",
			"app.App.replRepairState":    "replication repair attempt history",
			"app.Timings.m":              "failure clocks",
		}
		fs := c.reachableFuncs(P)
		written := map[string]ssa.Instruction{}
		for _, f := range fs {
			for _, b := range f.Blocks {
				for _, in := range b.Instrs {
					switch x := in.(type) {
					case *ssa.Store:
						if fad, ok := x.Addr.(*ssa.FieldAddr); ok {
							fn := fieldName(fad.X.Type(), fad.Field)
							if strings.HasPrefix(fn, "app.App.") {
								written[fn] = in
							}
						}
					case *ssa.MapUpdate:
						if ld, ok := x.Map.(*ssa.UnOp); ok {
							if fad, ok := ld.X.(*ssa.FieldAddr); ok {
								fn := fieldName(fad.X.Type(), fad.Field)
								if strings.HasPrefix(fn, "app.App.") {
									written["map:"+fn] = in
								}
							}
						}
					}
				}
			}
		}
		var ks []string
		for k := range written {
			ks = append(ks, k)
		}
		sort.Strings(ks)
		for _, k := range ks {
			in := written[k]
			_, ok1 := allowed[k]
			_, ok2 := allowedMaps[strings.TrimPrefix(k, "map:")]
			c.Req(ok1 || (strings.HasPrefix(k, "map:") && ok2), p.Name(in.Parent()), p.InstrPos(in), "writes "+k, "the procedure's call closure keeps no switchover progress in process memory (only allow-listed caches are written)", "")
		}
		c.Hold(name, p.Pos(P.Pos()), "closure", fmt.Sprintf("%d functions in the procedure's call closure, %d daemon fields written", len(fs), len(ks)))
		// the daemon struct has no field whose name suggests progress that escaped the scan: list fields for the evidence
		if st, ok := deref(P.Params[0].Type()).Underlying().(*types.Struct); ok {
			var names []string
			for i := 0; i < st.NumFields(); i++ {
				names = append(names, st.Field(i).Name())
			}
			c.extra["daemon_fields"] = names
		}
	})

	c.Rule("C07.RECHECK", func() { checkRecheck(c) })
	extraC07(c)
}

func runC11(c *Check) {
	p := c.p
	c.Rule("C11.MARK-SWITCH", func() { checkOldMasterHandled(c) })
	c.Rule("C11.MARK-STALE", func() { checkStaleMaster(c) })

	c.Rule("C11.ORDER", func() { checkMarkOrder(c) })

	c.Rule("C11.EXCL", func() { checkMemberExclusion(c, "recovery") })

	c.Rule("C11.TO", func() {
		P, target := promotionTarget(c)
		var searchCall *Term
		for _, ci := range p.Calls(P, fnSearch) {
			searchCall = p.T(ci.(ssa.Value))
		}
		checkNewMasterSources(c, P, target, searchCall)
	})

	R := p.MustFunc(fnCheckRecovery)
	rfa := p.FA(R)
	rn := p.Name(R)
	self := func(t *Term) bool { return t.IsField("Hostname") }
	localNode := func(t *Term) bool { return p.IsCall(t, "(*mysql.Cluster).Local") }
	status := func(t *Term) bool {
		r := ResultOf(t, 0)
		return r != nil && p.IsCall(r, "(*mysql.Node).GetReplicaStatus") && localNode(r.Args[0])
	}
	// the master name read from the coordination service
	var masterCell *ssa.Alloc
	for _, g := range p.Calls(R, "(dcs.DCS).Get") {
		if p.T(g.Common().Args[0]).IsConst("master") {
			if al, ok := g.Common().Args[1].(*ssa.MakeInterface); ok {
				if a, ok := al.X.(*ssa.Alloc); ok {
					masterCell = a
				}
			}
			if a, ok := g.Common().Args[1].(*ssa.Alloc); ok {
				masterCell = a
			}
		}
	}
	masterGtids := func(t *Term) bool {
		r := ResultOf(t, 0)
		if r == nil || !p.IsCall(r, "(*mysql.Node).GTIDExecutedParsed") {
			return false
		}
		n := r.Args[0]
		return p.IsCall(n, "(*mysql.Cluster).Get") && masterCell != nil && cellOf(n.Args[1]) == masterCell
	}
	lost := func(val bool) LitPat {
		return func(l Lit) bool {
			return l.Pos == val && p.IsCall(l.T, fnLost2) && status(l.T.Args[0]) && masterGtids(l.T.Args[1])
		}
	}

	c.Rule("C11.CLEAR", func() {
		// sites from daemon roots
		n := 0
		seen := map[ssa.Instruction]bool{}
		for _, r := range c.DaemonRoots() {
			for _, e := range c.eff.Collect(r.Fn, WalkOpts{}) {
				if e.Kind == "DCS" && e.Op == "Delete" && strings.HasPrefix(e.Key, "recovery") {
					if seen[e.Chain[len(e.Chain)-1]] {
						continue
					}
					seen[e.Chain[len(e.Chain)-1]] = true
					n++
					c.Req(e.Key == "recovery/$self" && c.chainVia(e, "(*app.App).ClearRecovery") && (r.Name == "(*app.App).recoveryChecker"), r.Name, p.InstrPos(e.Site), "clear-site", "the mark is deleted only by the host's own recovery checker, for its own host", "key "+e.Key+" chain: "+c.eff.ChainString(e))
				}
			}
		}
		c.Req(n == 1, rn, "-", "clear-sites", "exactly one daemon path deletes a mark", fmt.Sprintf("%d", n))
		c.Req(masterCell != nil, rn, "-", "master-read", "the checker reads the recorded master from the coordination service", "")
		clears := p.Calls(R, "(*app.App).ClearRecovery")
		c.Req(len(clears) == 1, rn, "-", "clear", "one clear call", fmt.Sprintf("%d", len(clears)))
		for _, cl := range clears {
			c.Req(self(p.T(cl.Common().Args[1])), rn, p.InstrPos(cl), "clear:own-host", "the mark cleared is this host's", "")
			c.Gate(rfa, cl, "clear:marked", "cleared only if marked", func(l Lit) bool {
				return l.Pos && p.IsCall(l.T, "(*app.App).IsRecoveryNeeded") && self(l.T.Args[1])
			})
			c.Gate(rfa, cl, "clear:no-resetup-file", "not cleared while a resetup is pending", p.OK(false, "(*app.App).doesResetupFileExist"))
			c.Gate(rfa, cl, "clear:status-read", "cleared only after the local replica status was read", p.NilErr("(*mysql.Node).GetReplicaStatus"))
			c.Gate(rfa, cl, "clear:master-set-read", "cleared only after the recorded master's executed set was read", p.NilErr("(*mysql.Node).GTIDExecutedParsed"))
			c.Gate(rfa, cl, "clear:master-known", "cleared only after the recorded master was read", p.NilErr("(dcs.DCS).Get"))
			c.Gate(rfa, cl, "clear:not-lost", "cleared only if the node is not permanently lost against the recorded master's executed set", lost(false))
			c.Gate(rfa, cl, "clear:read-only", "cleared only if the node is read-only", func(l Lit) bool {
				r := ResultOf(l.T, 0)
				return l.Pos && r != nil && p.IsCall(r, "(*mysql.Node).IsReadOnly") && localNode(r.Args[0])
			})
			c.Gate(rfa, cl, "clear:read-only-read", "the read-only flag was read without error", p.NilErr("(*mysql.Node).IsReadOnly"))
		}
	})

	c.Rule("C11.RESETUP", func() {
		found := false
		for _, b := range R.Blocks {
			for si := range b.Succs {
				for _, l := range rfa.EdgeLits(b, si) {
					if !lost(true)(l) {
						continue
					}
					found = true
					path, _ := rfa.ReachFromEdge(b, si, func(in ssa.Instruction) bool { _, ok := in.(*ssa.Return); return ok }, ReachOpts{Barrier: isCallTo(p, "(*app.App).writeResetupFile")})
					c.Req(path == nil, rn, p.InstrPos(blockIf(b)), "lost-edge:resetup-file", "a permanently lost node gets the resetup marker on every path", "path: "+rfa.PathString(path))
					path2, _ := rfa.ReachFromEdge(b, si, isCallTo(p, "(*app.App).ClearRecovery"), ReachOpts{})
					c.Req(path2 == nil, rn, p.InstrPos(blockIf(b)), "lost-edge:no-clear", "a permanently lost node keeps its mark", "path: "+rfa.PathString(path2))
				}
			}
		}
		c.Req(found, rn, "-", "lost-edge", "the checker tests 'permanently lost'", "")
	})

	c.Rule("C11.LOSTDEF", func() {
		f := p.MustFunc(fnLost2)
		ffa := p.FA(f)
		n := 0
		for i, r := range Returns(f) {
			k, t := c.retKind(ffa, r, 0)
			switch {
			case k == "const:true":
				errState, _ := p.ConstString("internal/mysql", "ReplicationError")
				c.Gate(ffa, r, nthKey("lost-true", i+1), "'lost' without comparing sets only when replication is in the error state", CmpLit("==", func(x *Term) bool { return p.IsCall(x, "(mysql.ReplicaStatus).ReplicationState") }, func(x *Term) bool { return x.IsConst(errState) }))
				n++
			case k == "call" && p.IsCall(t, "mysql/gtids.IsSlaveAhead"):
				a0, a1 := t.Args[0], t.Args[1]
				ok := p.IsCall(a0, "mysql/gtids.ParseGtidSet") && p.IsCall(a0.Args[0], "(mysql.ReplicaStatus).GetExecutedGtidSet") && a0.Args[0].Args[0].Op == "param" && a0.Args[0].Args[0].Name == "0" &&
					a1.Op == "param" && a1.Name == "1"
				c.Req(ok, fnLost2, p.InstrPos(r), nthKey("lost-ahead", i+1), "otherwise 'lost' is IsSlaveAhead(replica's executed set, master's set) in this order", "is "+t.String())
				n++
			case k == "const:false":
				c.Fail(fnLost2, p.InstrPos(r), nthKey("lost-false", i+1), "'not lost' is only answered by the set comparison", "")
			default:
				c.Fail(fnLost2, p.InstrPos(r), nthKey("lost-other", i+1), "recognised answer", "returns "+k)
			}
		}
		c.Req(n >= 2, fnLost2, "-", "lost-def", "both clauses present", fmt.Sprintf("%d", n))
		checkGtidDirection(c)
	})

	c.Rule("C11.OFFLINE", func() { checkMasterOnline(c) })
}

// checkMasterOnline: C10.UNFENCE / C11.OFFLINE / C17.MASTER
func checkMasterOnline(c *Check) {
	p := c.p
	f := p.MustFunc("(*app.App).repairMasterOfflineMode")
	ffa := p.FA(f)
	n := 0
	for _, ci := range p.Calls(f, "(*mysql.Node).SetOnline") {
		n++
		rt := p.T(ci.Common().Args[0])
		c.Req(p.IsCall(rt, "(*mysql.Cluster).Get") && rt.Args[1].V == ssa.Value(f.Params[1]), p.Name(f), p.InstrPos(ci), "master-online:node", "the node brought online is the host given", "")
		c.Gate(ffa, ci, "master-online:not-marked", "the master is brought online only when it is not marked for recovery", func(l Lit) bool {
			return !l.Pos && p.IsCall(l.T, "(*app.App).IsRecoveryNeeded") && l.T.Args[1].V == ssa.Value(f.Params[1])
		})
		c.Gate(ffa, ci, "master-online:is-offline", "only an offline master is touched", FieldLit(true, "IsOffline"))
	}
	c.Req(n == 1, p.Name(f), "-", "master-online", "one site brings the master online", fmt.Sprintf("%d", n))
	for _, e := range c.eff.Collect(f, WalkOpts{}) {
		if sqlMutating(e) {
			c.Req(e.Op == "disable_offline_mode", p.Name(f), p.InstrPos(e.Site), "master-offline-pass:"+e.Op, "the master's offline-mode pass never takes the master offline", "")
		}
	}
}

// checkGtidDirection: C13.DIR / C13.NEG
func checkGtidDirection(c *Check) {
	p := c.p
	b := p.MustFunc("mysql/gtids.IsSlaveBehindOrEqual")
	bn := p.Name(b)
	n := 0
	for _, ci := range p.Calls(b, gtidContain, gtidEqual) {
		n++
		recv, args := recvArgs(ci)
		ok := recv == ssa.Value(b.Params[1]) && args[0] == ssa.Value(b.Params[0])
		c.Req(ok, bn, p.InstrPos(ci), nthKey("dir:"+afterDot(p.CalleeNames(ci)[0]), n), "'behind or equal' tests master.Contain(slave) / master.Equal(slave): the source is the receiver", "receiver "+p.T(recv).String()+" arg "+p.T(args[0]).String())
	}
	c.Req(n == 2, bn, "-", "dir:calls", "Contain and Equal are both consulted", fmt.Sprintf("%d", n))
	// result is their disjunction
	bfa := p.FA(b)
	for i, r := range Returns(b) {
		t := p.T(r.Results[0])
		if t.IsConst("true") {
			c.Gate(bfa, r, nthKey("dir:true", i+1), "true only if contained or equal", p.OK(true, gtidContain), p.OK(true, gtidEqual))
			continue
		}
		okk := false
		for _, a := range t.Alts() {
			if a.IsConst("true") {
				continue
			}
			if p.IsCall(a, gtidContain, gtidEqual) {
				okk = true
			} else {
				okk = false
				break
			}
		}
		c.Req(okk, bn, p.InstrPos(r), nthKey("dir:result", i+1), "the answer is Contain ∨ Equal", "returns "+t.String())
	}
	a := p.MustFunc("mysql/gtids.IsSlaveAhead")
	an := p.Name(a)
	for i, r := range Returns(a) {
		t := p.T(r.Results[0])
		ok := t.Op == "not" && p.IsCall(t.Args[0], "mysql/gtids.IsSlaveBehindOrEqual") && t.Args[0].Args[0].V == ssa.Value(a.Params[0]) && t.Args[0].Args[1].V == ssa.Value(a.Params[1])
		c.Req(ok, an, p.InstrPos(r), nthKey("neg", i+1), "'ahead' is the negation of 'behind or equal' on the same arguments in the same order", "returns "+t.String())
	}
}

// checkStaleMaster: C10.STALE / C11.MARK-STALE
func checkStaleMaster(c *Check) {
	p := c.p
	f := p.MustFunc(fnRepairSlave)
	fa := p.FA(f)
	name := p.Name(f)
	host := func(t *Term) bool { return p.IsCall(t, "(*mysql.Node).Host") && t.Args[0].V == ssa.Value(f.Params[1]) }
	state := func(t *Term) bool { return t.Op == "lookup" && t.Args[0].V == ssa.Value(f.Params[2]) && host(t.Args[1]) }
	stale := func(l Lit) bool { return l.Pos && l.T.IsField("IsMaster") && state(l.T.Args[0]) }
	found := false
	ret := func(in ssa.Instruction) bool { _, ok := in.(*ssa.Return); return ok }
	for _, b := range f.Blocks {
		for si := range b.Succs {
			for _, l := range fa.EdgeLits(b, si) {
				if !stale(l) {
					continue
				}
				found = true
				must := []struct {
					what string
					pred func(ssa.Instruction) bool
				}{
					{"offline+semisync-disable", func(in ssa.Instruction) bool {
						ci, ok := in.(ssa.CallInstruction)
						return ok && p.siteIs(ci, fnStopOnMas) && ci.Common().Args[1] == ssa.Value(f.Params[1])
					}},
					{"re-point-to-recorded-master", func(in ssa.Instruction) bool {
						ci, ok := in.(ssa.CallInstruction)
						return ok && p.siteIs(ci, fnChange) && host(p.T(ci.Common().Args[1])) && ci.Common().Args[2] == ssa.Value(f.Params[3])
					}},
					{"mark-for-recovery", func(in ssa.Instruction) bool {
						ci, ok := in.(ssa.CallInstruction)
						return ok && p.siteIs(ci, fnSetRecovery) && host(p.T(ci.Common().Args[1]))
					}},
				}
				for _, m := range must {
					path, _ := fa.ReachFromEdge(b, si, ret, ReachOpts{Barrier: m.pred})
					c.Req(path == nil, name, p.InstrPos(blockIf(b)), "stale-master:"+m.what, "a node claiming to be master beside the recorded one is, on every path: taken offline with semi-sync disabled, re-pointed to the recorded master, marked for recovery", "path: "+fa.PathString(path))
				}
				// nothing of the ordinary replica repair runs for it
				path, hit := fa.ReachFromEdge(b, si, isCallTo(p, "(*app.App).TryRepairReplication", "(*app.App).repairCascadeNode", "(*mysql.Node).StartSlave"), ReachOpts{})
				det := ""
				if hit != nil {
					det = p.InstrPos(hit) + " " + fa.PathString(path)
				}
				c.Req(path == nil, name, p.InstrPos(blockIf(b)), "stale-master:returns", "the stale-master branch returns before the ordinary replica repair", det)
			}
		}
	}
	c.Req(found, name, "-", "stale-master:edge", "the replica repair recognises a stale master", "")
	// read-only first when writable
	ro := p.Calls(f, fnSetRO)
	c.Req(len(ro) >= 1, name, "-", "stale-master:read-only", "a writable non-master node is made read-only", "")
	for i, r := range ro {
		c.Req(r.Common().Args[0] == ssa.Value(f.Params[1]) && p.T(r.Common().Args[1]).IsConst("true"), name, p.InstrPos(r), nthKey("read-only", i+1)+":node", "the node made (super) read-only is the node repaired", "")
		c.Gate(fa, r, nthKey("read-only", i+1)+":if-writable", "read-only is set when the node is writable", func(l Lit) bool { return !l.Pos && l.T.IsField("IsReadOnly") && state(l.T.Args[0]) })
	}
	for _, b := range f.Blocks {
		for si := range b.Succs {
			for _, l := range fa.EdgeLits(b, si) {
				if !l.Pos && l.T.IsField("IsReadOnly") && state(l.T.Args[0]) {
					path, _ := fa.ReachFromEdge(b, si, func(in ssa.Instruction) bool {
						ci, ok := in.(ssa.CallInstruction)
						return ret(in) || (ok && p.siteIs(ci, fnStopOnMas, fnChange, fnSetRecovery))
					}, ReachOpts{Barrier: isCallTo(p, fnSetRO)})
					c.Req(path == nil, name, p.InstrPos(blockIf(b)), "writable-edge:read-only-first", "a writable node is made read-only before anything else is done with it", "path: "+fa.PathString(path))
				}
			}
		}
	}
}

// checkMemberExclusion: appends of non-master hosts in the membership function are
// gated by the given exclusion ("recovery" or "cascade").
func checkMemberExclusion(c *Check, what string) {
	p := c.p
	f := p.MustFunc(fnCalcActive)
	fa := p.FA(f)
	name := p.Name(f)
	n := 0
	for _, b := range f.Blocks {
		for _, in := range b.Instrs {
			call, ok := in.(*ssa.Call)
			if !ok {
				continue
			}
			if bi, ok := call.Call.Value.(*ssa.Builtin); !ok || bi.Name() != "append" {
				continue
			}
			elems := c.eff.variadic(call.Call.Args[1])
			if len(elems) != 1 {
				continue
			}
			et := p.T(elems[0])
			if et.Op == "param" && et.Name == "4" {
				// the master itself: must be on the host == master edge
				if what == "recovery" {
					c.Gate(fa, call, "append-master", "the master is appended on the host == master branch", CmpLit("==", func(t *Term) bool { return t.Op == "rangekey" }, func(t *Term) bool { return t.Op == "param" && t.Name == "4" }))
				}
				continue
			}
			if et.Op != "rangekey" {
				c.Fail(name, p.InstrPos(call), "append-other", "members are the master or keys of the examined state map", "appends "+et.String())
				continue
			}
			n++
			switch what {
			case "recovery":
				notMarked := func(l Lit) bool {
					return !l.Pos && p.IsCall(l.T, "slices.Contains") && ResultOf(l.T.Args[0], 0) != nil && p.IsCall(ResultOf(l.T.Args[0], 0), "(*app.App).GetHostsOnRecovery") && l.T.Args[1].V == elems[0]
				}
				noneMarked := func(l Lit) bool {
					return l.T.Op == "isnil" && l.Pos && ResultOf(l.T.Args[0], 0) != nil && p.IsCall(ResultOf(l.T.Args[0], 0), "(*app.App).GetHostsOnRecovery")
				}
				isMarks := func(t *Term) bool {
					return t.Op == "len" && len(t.Args) == 1 && ResultOf(t.Args[0], 0) != nil && p.IsCall(ResultOf(t.Args[0], 0), "(*app.App).GetHostsOnRecovery")
				}
				emptyMarks := CmpLit("==", isMarks, func(t *Term) bool { return t.IsConst("0") }) // `len(marks) > 0 &&` instead of `marks != nil &&`
				c.Gate(fa, call, nthKey("member", n)+":not-on-recovery", "a host marked for recovery is never a member (unless it is the master)", notMarked, noneMarked, emptyMarks)
				c.Gate(fa, call, nthKey("member", n)+":marks-read", "the marks were read without error", p.NilErr("(*app.App).GetHostsOnRecovery"))
			case "cascade":
				c.Gate(fa, call, nthKey("member", n)+":not-cascade", "a cascade replica is never a member", func(l Lit) bool {
					return !l.Pos && l.T.IsField("IsCascade") && l.T.Args[0].Op == "rangeval"
				})
			}
		}
	}
	c.Req(n >= 3, name, "-", "member-appends", "membership append sites found", fmt.Sprintf("%d", n))
}

// checkMarkOrder: marking a host for recovery first publishes the active list without exactly that host and
// creates the mark only after that write succeeded (shared by C11.ORDER and C07.MARK: a crash between the two
// writes must leave a list the successor can still approve the request with).
func checkMarkOrder(c *Check) {
	p := c.p
		S := p.MustFunc(fnSetRecovery)
		sfa := p.FA(S)
		sn := p.Name(S)
		marks := p.Calls(S, "(app.IAppDCS).SetRecovery")
		c.Req(len(marks) == 1, sn, "-", "mark", "the mark is created at one site", fmt.Sprintf("%d", len(marks)))
		for _, mk := range marks {
			c.Req(p.T(mk.Common().Args[0]).V == ssa.Value(S.Params[1]), sn, p.InstrPos(mk), "mark:host", "the host marked is the host given", "")
			var filt *Term
			published := func(l Lit) bool {
				if !p.NilErr("(app.IAppDCS).SetActiveNodes")(l) {
					return false
				}
				ci := callInstr(l)
				if ci == nil {
					return false
				}
				filt = p.T(ci.Common().Args[0])
				return true
			}
			if !c.Gate(sfa, mk, "mark:after-publish", "the mark is created only after the active list without the host was published successfully", published) {
				continue
			}
			// two idioms: keep-filter (FilterStrings, predicate n != host) or delete-filter (slices.DeleteFunc, predicate n == host)
			keep := p.IsCall(filt, "util.FilterStrings")
			del := false
			if filt.Op == "call" && filt.In != nil {
				for _, n := range p.CalleeNames(filt.In.(ssa.CallInstruction)) {
					if strings.HasPrefix(n, "slices.DeleteFunc") {
						del = true
					}
				}
			}
			okf := (keep || del) && len(filt.Args) == 2 && ResultOf(filt.Args[0], 0) != nil && p.IsCall(ResultOf(filt.Args[0], 0), "(app.IAppDCS).GetActiveNodes")
			if !okf {
				// third idiom: a hand-written keep loop — every element appended is an element of the current list and is
				// appended only if it differs from the marked host
				apps, good := 0, true
				for _, a := range filt.Alts() {
					if a.Op == "const" {
						continue
					}
					ap, isCall := a.V.(*ssa.Call)
					if !isCall || a.Op != "append" {
						good = false
						continue
					}
					el := c.eff.variadic(ap.Call.Args[1])
					if len(el) != 1 {
						good = false
						continue
					}
					et := p.T(el[0])
					fromList := (et.Op == "index" || et.Op == "indexaddr" || et.Op == "rangeval") && len(et.Args) > 0 && ResultOf(et.Args[0], 0) != nil && p.IsCall(ResultOf(et.Args[0], 0), "(app.IAppDCS).GetActiveNodes")
					differs := CmpLit("!=", func(t *Term) bool { return t.V == el[0] }, func(t *Term) bool { return t.V == ssa.Value(S.Params[1]) })
					g, _ := sfa.Gated(ap, differs)
					if !fromList || !g {
						good = false
					}
					apps++
				}
				if good && apps >= 1 {
					c.Hold(sn, p.InstrPos(mk), "publish:source", "the list published is the current list, filtered (keep loop)")
					c.Hold(sn, p.InstrPos(mk), "publish:filter", "the keep loop drops exactly the marked host")
					c.Gate(sfa, mk, "publish:list-read", "the current list was read without error", p.NilErr("(app.IAppDCS).GetActiveNodes"))
					continue
				}
			}
			c.Req(okf, sn, p.InstrPos(mk), "publish:source", "the list published is the current list, filtered", "is "+filt.String())
			if okf {
				mc, ok := filt.Args[1].V.(*ssa.MakeClosure)
				okc := false
				if ok {
					cl := mc.Fn.(*ssa.Function)
					rets := Returns(cl)
					okc = len(rets) > 0
					for _, r := range rets {
						t := p.T(r.Results[0])
						want := "!="
						if del {
							want = "=="
						}
						okr := false
						if t.Op == "bin" && t.Name == want {
							a, b := t.Args[0], t.Args[1]
							isParam := func(x *Term) bool { return x.V == ssa.Value(cl.Params[0]) }
							isHost := func(x *Term) bool { return x.V == ssa.Value(S.Params[1]) }
							okr = (isParam(a) && isHost(b)) || (isParam(b) && isHost(a))
						}
						okc = okc && okr
					}
				}
				c.Req(okc, sn, p.InstrPos(mk), "publish:filter", "the filter removes exactly the marked host (keep-filter with n != host, or delete-filter with n == host)", "")
			}
			c.Gate(sfa, mk, "publish:list-read", "the current list was read without error", p.NilErr("(app.IAppDCS).GetActiveNodes"))
		}
		// the low-level mark is a create of recovery/<host>
		have := false
		for _, e := range c.eff.Collect(S, WalkOpts{}) {
			if e.Kind == "DCS" && e.Op == "Create" && e.Key == "recovery/*" {
				have = true
			}
		}
		c.Req(have, sn, "-", "mark:effect", "marking creates recovery/<host>", "")
}
