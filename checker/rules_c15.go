package main

import (
	"fmt"
	"strings"

	"golang.org/x/tools/go/ssa"
)

const (
	zkGet      = "(*dcs.zkDCS).retryGet"
	zkCreate   = "(*dcs.zkDCS).retryCreate"
	zkSet      = "(*dcs.zkDCS).retrySet"
	zkDelete   = "(*dcs.zkDCS).retryDelete"
	zkChildren = "(*dcs.zkDCS).retryChildren"
	zkFullPath = "(*dcs.zkDCS).buildFullPath"
	zkMakePath = "(*dcs.zkDCS).makePath"
	zkErr      = "github.com/go-zookeeper/zk."
)

func init() {
	register("C15", "other",
		"The client side of the coordination data plane (internal/dcs/zk.go), on every CFG path: "+
			"(MAP) per operation the server's sentinel is mapped as documented — create: node-exists → 'exists', anything else propagated, nil only as the create's own nil; get: no-node → 'not found', parse failure → 'malformed' (never confused), other errors propagated, nil only after the value was parsed into the destination; delete: no-node → nil; children: no-node → 'not found'; set: no-node on the read → create parents then create, else versioned write; "+
			"(PATH) every connection-level call of a data or lock operation receives exactly buildFullPath(path); (PARENTS) the create of set's missing branch happens only after makePath of the parent succeeded and makePath tolerates node-exists; "+
			"(EPHEMERAL) an existing node is written with the ephemeral flag only if it is ephemeral already, the four exported writers pass constant flags (0 / FlagEphemeral), and from every root health records are written only with SetEphemeral; "+
			"(RETRY) a request is retried only on connection-closed while connected, everything else is permanent; (VERSION) versions of set/delete come from the Stat of the read in the same call.",
		"ZooKeeper server semantics (ephemeral nodes vanish with the session, versions, sequential consistency), session lifetime, the slash-collapsing string algorithm (covered by the existing unit test)",
		runC15)
}

// retDesc classifies an error-typed return value in zk.go.
func (c *Check) zkRetDesc(fa *FuncAnalysis, r *ssa.Return, idx int) string {
	p := c.p
	t := p.T(r.Results[idx])
	switch {
	case t.IsConst("nil"):
		return "nil"
	case t.Op == "global":
		return "sentinel:" + t.Name
	}
	if call := ResultOf(t, -1); call != nil {
		if p.IsCall(call, "fmt.Errorf", "errors.New") {
			return "new-error"
		}
		return "propagate:" + call.Name
	}
	return "other:" + t.String()
}

func runC15(c *Check) {
	p := c.p
	noNode := func(val bool, from string) LitPat { return p.ErrIs(val, zkErr+"ErrNoNode", from) }

	c.Rule("C15.MAP", func() {
		// create
		f := p.MustFunc("(*dcs.zkDCS).create")
		fa := p.FA(f)
		n := 0
		for _, r := range Returns(f) {
			n++
			d := c.zkRetDesc(fa, r, 0)
			switch d {
			case "sentinel:dcs.ErrExists":
				c.Gate(fa, r, nthKey("create", n)+":exists", "'exists' is answered exactly on the server's node-exists error", p.ErrIs(true, zkErr+"ErrNodeExists", zkCreate))
			case "propagate:" + zkCreate:
				c.Hold(p.Name(f), p.InstrPos(r), nthKey("create", n)+":propagate", "the create's own error (or nil) is returned")
			case "nil":
				// `if err == nil { return nil }`: the server call's own (nil) result, spelled as a constant
				c.Gate(fa, r, nthKey("create", n)+":propagate", "nil is answered only when the server call returned nil", p.NilErr(zkCreate))
			default:
				c.Fail(p.Name(f), p.InstrPos(r), nthKey("create", n), "create returns 'exists' or the server call's own result", "returns "+d)
			}
		}
		c.mustMap(f, p.ErrIs(true, zkErr+"ErrNodeExists", zkCreate), "sentinel:dcs.ErrExists", "create:node-exists→exists", "node-exists is always reported as 'exists'")

		// Get
		g := p.MustFunc("(*dcs.zkDCS).Get")
		gfa := p.FA(g)
		n = 0
		for _, r := range Returns(g) {
			n++
			d := c.zkRetDesc(gfa, r, 0)
			k := nthKey("get", n)
			switch d {
			case "sentinel:dcs.ErrNotFound":
				c.Gate(gfa, r, k+":not-found", "'not found' is answered exactly on no-node", noNode(true, zkGet))
			case "sentinel:dcs.ErrMalformed":
				c.Gate(gfa, r, k+":malformed", "'malformed' is answered exactly on a parse failure of data that was read", p.ErrNonNil("encoding/json.Unmarshal"))
				c.Gate(gfa, r, k+":malformed-after-read", "… and only when the read itself succeeded", p.NilErr(zkGet))
			case "propagate:" + zkGet:
				c.Gate(gfa, r, k+":propagate", "other read errors are propagated", p.ErrNonNil(zkGet))
			case "nil":
				parsed := func(l Lit) bool {
					if !p.NilErr("encoding/json.Unmarshal")(l) {
						return false
					}
					ci := callInstr(l)
					if ci == nil {
						return false
					}
					a := ci.Common().Args
					d0 := ResultOf(p.T(a[0]), 0)
					return d0 != nil && p.IsCall(d0, zkGet) && p.T(a[1]).Op == "param" && p.T(a[1]).Name == "2"
				}
				c.Gate(gfa, r, k+":nil-after-parse", "success only after the data read was parsed into the destination", parsed)
			default:
				c.Fail(p.Name(g), p.InstrPos(r), k, "recognised answer of get", "returns "+d)
			}
		}
		c.mustMap(g, noNode(true, zkGet), "sentinel:dcs.ErrNotFound", "get:no-node→not-found", "a missing key is always reported as 'not found'")
		c.mustMap(g, p.ErrNonNil("encoding/json.Unmarshal"), "sentinel:dcs.ErrMalformed", "get:parse-error→malformed", "an unparsable value is always reported as 'malformed'")

		// Delete
		d := p.MustFunc("(*dcs.zkDCS).Delete")
		dfa := p.FA(d)
		n = 0
		for _, r := range Returns(d) {
			n++
			desc := c.zkRetDesc(dfa, r, 0)
			k := nthKey("delete", n)
			switch desc {
			case "nil":
				c.Gate(dfa, r, k+":idempotent", "deleting a missing key succeeds (nil) — and nil is answered without a delete only then", noNode(true, zkGet))
			case "propagate:" + zkGet:
				c.Gate(dfa, r, k+":propagate", "other read errors are propagated", p.ErrNonNil(zkGet))
			case "propagate:" + zkDelete:
				c.Hold(p.Name(d), p.InstrPos(r), k+":result", "the delete's own result")
			default:
				c.Fail(p.Name(d), p.InstrPos(r), k, "recognised answer of delete", "returns "+desc)
			}
		}
		c.mustMap(d, noNode(true, zkGet), "nil", "delete:no-node→nil", "delete is idempotent")

		// GetChildren
		ch := p.MustFunc("(*dcs.zkDCS).GetChildren")
		cfa := p.FA(ch)
		n = 0
		for _, r := range Returns(ch) {
			n++
			desc := c.zkRetDesc(cfa, r, 1)
			k := nthKey("children", n)
			switch desc {
			case "sentinel:dcs.ErrNotFound":
				c.Gate(cfa, r, k+":not-found", "'not found' exactly on no-node", noNode(true, zkChildren))
			case "propagate:" + zkChildren:
				c.Gate(cfa, r, k+":propagate", "other errors are propagated", p.ErrNonNil(zkChildren))
			case "nil":
				c.Gate(cfa, r, k+":ok", "children are returned only after a successful listing", p.NilErr(zkChildren))
				t := p.T(r.Results[0])
				c.Req(ResultOf(t, 0) != nil && p.IsCall(ResultOf(t, 0), zkChildren), p.Name(ch), p.InstrPos(r), k+":value", "what is returned is the listing", "")
			default:
				c.Fail(p.Name(ch), p.InstrPos(r), k, "recognised answer of children", "returns "+desc)
			}
		}
		c.mustMap(ch, noNode(true, zkChildren), "sentinel:dcs.ErrNotFound", "children:no-node→not-found", "listing a missing key reports 'not found'")

		// set
		s := p.MustFunc("(*dcs.zkDCS).set")
		sfa := p.FA(s)
		for i, cr := range p.Calls(s, zkCreate) {
			c.Gate(sfa, cr, nthKey("set:create", i+1)+":only-if-missing", "set creates only when the read said no-node", noNode(true, zkGet))
		}
		for i, w := range p.Calls(s, zkSet) {
			c.Gate(sfa, w, nthKey("set:write", i+1)+":only-if-present", "set overwrites only when the read succeeded", p.NilErr(zkGet))
		}
		c.Req(len(p.Calls(s, zkCreate)) == 1 && len(p.Calls(s, zkSet)) == 1, p.Name(s), "-", "set:branches", "set has a create branch and an overwrite branch", "")
		for i, r := range Returns(s) {
			desc := c.zkRetDesc(sfa, r, 0)
			ok := strings.HasPrefix(desc, "propagate:") || desc == "new-error"
			c.Req(ok, p.Name(s), p.InstrPos(r), nthKey("set:return", i+1), "set answers with the result of the call it made (no silent nil)", "returns "+desc)
		}
	})

	c.Rule("C15.PATH", func() {
		ops := []string{"(*dcs.zkDCS).create", "(*dcs.zkDCS).set", "(*dcs.zkDCS).Get", "(*dcs.zkDCS).Delete", "(*dcs.zkDCS).GetChildren", "(*dcs.zkDCS).GetTree", "(*dcs.zkDCS).AcquireLock", "(*dcs.zkDCS).ReleaseLock"}
		n := 0
		for _, op := range ops {
			f := p.MustFunc(op)
			for _, ci := range p.Calls(f, zkGet, zkCreate, zkSet, zkDelete, zkChildren) {
				n++
				pt := p.T(ci.Common().Args[1])
				ok := p.IsCall(pt, zkFullPath) && pt.Args[1].Op == "param" && pt.Args[1].Name == "1"
				c.Req(ok, op, p.InstrPos(ci), nthKey("conn-call "+afterDot(p.CalleeNames(ci)[0]), n), "the connection-level call receives buildFullPath(path)", "path is "+pt.String())
			}
		}
		c.Req(n >= 12, "internal/dcs", "-", "conn-calls", "connection-level calls found", fmt.Sprintf("%d", n))
		// the exported writers delegate with their own path
		for _, w := range []string{"Create", "CreateEphemeral", "Set", "SetEphemeral"} {
			f := p.MustFunc("(*dcs.zkDCS)." + w)
			for _, ci := range p.Calls(f, "(*dcs.zkDCS).create", "(*dcs.zkDCS).set") {
				a := ci.Common().Args
				c.Req(a[1] == ssa.Value(f.Params[1]) && a[2] == ssa.Value(f.Params[2]), p.Name(f), p.InstrPos(ci), "delegate:args", "path and value are passed on unchanged", "")
			}
		}
		// normaliser: prefix is the namespace joined with the relative path
		b := p.MustFunc(zkFullPath)
		okj := false
		for _, ci := range p.Calls(b, "dcs.JoinPath") {
			parts := c.eff.variadic(ci.Common().Args[0])
			if len(parts) == 2 && p.T(parts[0]).IsField("Namespace") && parts[1] == ssa.Value(b.Params[1]) {
				okj = true
			}
		}
		c.Req(okj, zkFullPath, p.Pos(b.Pos()), "namespace+path", "the full path is the namespace joined with the relative path", "")
	})

	c.Rule("C15.PARENTS", func() {
		s := p.MustFunc("(*dcs.zkDCS).set")
		sfa := p.FA(s)
		for _, cr := range p.Calls(s, zkCreate) {
			c.Gate(sfa, cr, "set:create-after-parents", "the missing key is created only after its parents were created", p.NilErr(zkMakePath))
		}
		for _, mk := range p.Calls(s, zkMakePath) {
			t := p.T(mk.Common().Args[1])
			ok := p.IsCall(t, "strings.Join") && t.Contains(func(x *Term) bool { return p.IsCall(x, "strings.Split") }) && t.Contains(func(x *Term) bool { return x.Op == "bin" && x.Name == "-" && x.Args[1].IsConst("1") })
			c.Req(ok, p.Name(s), p.InstrPos(mk), "set:parent-path", "the parent path is the full path without its last component", "is "+t.String())
		}
		m := p.MustFunc(zkMakePath)
		mfa := p.FA(m)
		n := 0
		for _, r := range Returns(m) {
			d := c.zkRetDesc(mfa, r, 0)
			if d == "propagate:"+zkCreate {
				n++
				c.Gate(mfa, r, nthKey("makePath:create-error", n), "makePath fails on a create error other than node-exists", p.ErrIs(false, zkErr+"ErrNodeExists", zkCreate))
			}
		}
		c.Req(n >= 1, zkMakePath, "-", "makePath:tolerates-exists", "makePath checks create errors", "")
		for _, cr := range p.Calls(m, zkCreate) {
			c.Req(p.T(cr.Common().Args[3]).IsConst("0"), zkMakePath, p.InstrPos(cr), "makePath:plain-parents", "parents are plain (non-ephemeral) nodes", "")
		}
	})

	c.Rule("C15.EPHEMERAL", func() {
		eph, ok := p.pkgConst("github.com/go-zookeeper/zk", "FlagEphemeral")
		if !ok {
			panic(AnchorError{"zk.FlagEphemeral"})
		}
		s := p.MustFunc("(*dcs.zkDCS).set")
		sfa := p.FA(s)
		plain := func(l Lit) bool {
			a, b, op, ok := Cmp(l)
			if !ok || op != "==" {
				return false
			}
			isMask := func(t *Term) bool {
				return t.Op == "bin" && t.Name == "&" && t.Args[0].Op == "param" && t.Args[0].Name == "3" && t.Args[1].IsConst(eph)
			}
			return (isMask(a) && b.IsConst("0")) || (isMask(b) && a.IsConst("0"))
		}
		isEph := CmpLit("!=", func(t *Term) bool { return t.IsField("EphemeralOwner") }, func(t *Term) bool { return t.IsConst("0") })
		for i, w := range p.Calls(s, zkSet) {
			c.Gate(sfa, w, nthKey("overwrite", i+1)+":no-silent-ephemeral", "an existing node is overwritten with the ephemeral flag only if it already is ephemeral", plain, isEph)
		}
		for _, cr := range p.Calls(s, zkCreate) {
			c.Req(cr.Common().Args[3] == ssa.Value(s.Params[3]), p.Name(s), p.InstrPos(cr), "create:flags", "the create uses the caller's flags", "")
		}
		want := map[string]string{"Create": "0", "Set": "0", "CreateEphemeral": eph, "SetEphemeral": eph}
		for w, fl := range want {
			f := p.MustFunc("(*dcs.zkDCS)." + w)
			for _, ci := range p.Calls(f, "(*dcs.zkDCS).create", "(*dcs.zkDCS).set") {
				c.Req(p.T(ci.Common().Args[3]).IsConst(fl), p.Name(f), p.InstrPos(ci), "flags", "the exported writer passes its constant flag", "passes "+p.T(ci.Common().Args[3]).String())
			}
		}
		cr := p.MustFunc("(*dcs.zkDCS).create")
		for _, ci := range p.Calls(cr, zkCreate) {
			c.Req(ci.Common().Args[3] == ssa.Value(cr.Params[3]), p.Name(cr), p.InstrPos(ci), "create:flags", "create uses the caller's flags", "")
		}
		// health records: ephemeral writes only
		n := 0
		seen := map[ssa.Instruction]bool{}
		roots := append(c.DaemonRoots(), c.cliRoots()...)
		for _, r := range roots {
			for _, e := range c.eff.Collect(r.Fn, WalkOpts{}) {
				if !dcsWrite(e) || !strings.HasPrefix(e.Key, "health") || seen[e.Site] {
					continue
				}
				seen[e.Site] = true
				n++
				c.Req(e.Op == "SetEphemeral" || e.Op == "CreateEphemeral", r.Name, p.InstrPos(e.Site), "health-write "+e.String(), "health records are only ever written as ephemeral keys", "chain: "+c.eff.ChainString(e))
			}
		}
		c.Req(n >= 1, "(*app.appDCS).SetHealthState", "-", "health-writes", "the health record writer is visible", "")
		// the lock key is never written through the data operations
		for _, r := range roots {
			for _, e := range c.eff.Collect(r.Fn, WalkOpts{}) {
				if dcsWrite(e) && e.Key == "manager" {
					c.Fail(r.Name, p.InstrPos(e.Site), "lock-key-write "+e.String(), "the lock key is written only by the lock operations", "")
				}
			}
		}
	})

	c.Rule("C15.RETRY", func() {
		f := p.MustFunc("(*dcs.zkDCS).retryRequestInternal")
		fa := p.FA(f)
		n := 0
		for i, r := range Returns(f) {
			t := p.T(r.Results[0])
			if p.IsCall(t, "github.com/cenkalti/backoff/v4.Permanent") {
				continue
			}
			n++
			c.Gate(fa, r, nthKey("retryable", i+1)+":conn-closed", "an error is retryable only if it is connection-closed", func(l Lit) bool {
				return l.Pos && p.IsCall(l.T, "errors.Is") && l.T.Args[1].Op == "global" && l.T.Args[1].Name == zkErr+"ErrConnectionClosed"
			})
			c.Gate(fa, r, nthKey("retryable", i+1)+":connected", "… and only while the client is connected", p.OK(true, "(*dcs.zkDCS).IsConnected"))
		}
		c.Req(n == 1, p.Name(f), "-", "retryable:sites", "one retryable return", fmt.Sprintf("%d", n))
	})

	c.Rule("C15.VERSION", func() {
		n := 0
		for _, op := range []string{"(*dcs.zkDCS).set", "(*dcs.zkDCS).Delete"} {
			f := p.MustFunc(op)
			for _, ci := range p.Calls(f, zkSet, zkDelete) {
				n++
				v := p.T(ci.Common().Args[len(ci.Common().Args)-1])
				ok := v.IsField("Version") && ResultOf(v.Args[0], 1) != nil && p.IsCall(ResultOf(v.Args[0], 1), zkGet)
				same := false
				if ok {
					g := ResultOf(v.Args[0], 1)
					same = sameValue(g.Args[1], p.T(ci.Common().Args[1]))
				}
				c.Req(ok && same, op, p.InstrPos(ci), nthKey("versioned", n), "the version is Stat.Version of the read of the same path in the same call", "version is "+v.String())
			}
		}
		c.Req(n == 2, "internal/dcs", "-", "versioned:sites", "versioned write and delete found", fmt.Sprintf("%d", n))
	})
	extraC15(c)
}

// mustMap: from every edge carrying `on`, all reachable returns of fn have description `want`.
func (c *Check) mustMap(fn *ssa.Function, on LitPat, want, key, desc string) {
	p := c.p
	fa := p.FA(fn)
	found := false
	idx := fn.Signature.Results().Len() - 1
	for _, b := range fn.Blocks {
		for si := range b.Succs {
			for _, l := range fa.EdgeLits(b, si) {
				if !on(l) {
					continue
				}
				found = true
				bad := ""
				for _, r := range Returns(fn) {
					pth, _ := fa.ReachFromEdge(b, si, func(in ssa.Instruction) bool { return in == ssa.Instruction(r) }, ReachOpts{})
					if pth != nil {
						if d := c.zkRetDesc(fa, r, idx); d != want {
							bad = p.InstrPos(r) + " returns " + d
						}
					}
				}
				c.Req(bad == "", p.Name(fn), p.InstrPos(blockIf(b)), key, desc, bad)
			}
		}
	}
	c.Req(found, p.Name(fn), "-", key+":edge", "the operation tests for the server's sentinel", "")
}
