package main

import (
	"fmt"

	"golang.org/x/tools/go/ssa"
)

const (
	fnResolver      = "(*app.App).findBestStreamFrom"
	fnRepairCascade = "(*app.App).repairCascadeNode"
)

func init() {
	register("C16", "other",
		"The cascade source resolver and the guarded move, on every CFG path: "+
			"(WALK) the resolver's only loop advances by appending the examined host to the visited list on an edge where it was not visited, the next host is the configured source of the last visited one, and an empty source or a revisit returns the master — the visited-set termination argument over a finite map; "+
			"(NOTSELF) every non-master answer is a host that was tested not to be in the visited list, whose first element is the replica itself; "+
			"(HEALTH) a non-master answer is given only for the first hop when the replica already replicates from exactly that host, or for a host that answers pings, is not offline and is the master or a running replica with known lag below the reasonable lag; "+
			"(MOVE) a cascade replica is re-pointed to the resolved candidate only if its own set — read after replication was stopped — is not ahead of, not split-brained against and behind-or-equal to the candidate's set (candidate's uuid), and split brain raises the emergency file; "+
			"(COUNT) the four HA counters and the membership rule skip cascade replicas, CLI switch targets come from the HA host list; (CLI) host-add rejects stream_from == host and converting the recorded master; "+
			"(NIL) the state looked up for a configured stream_from is dereferenced only after a nil test, and the blind re-point never targets the replica itself or an empty host.",
		"lag/health values, the statements that actually reach the replica",
		runC16)
}

// phiTrueAlts enumerates, for a boolean value built from && / ||, the alternative
// literal sets under which it is true.
func (fa *FuncAnalysis) phiTrueAlts(v ssa.Value, depth int) [][]Lit {
	if depth > 5 {
		return nil
	}
	phi, ok := v.(*ssa.Phi)
	if !ok {
		return [][]Lit{fa.lits(v, true, 0)}
	}
	var out [][]Lit
	for i, e := range phi.Edges {
		if k, ok := e.(*ssa.Const); ok && k.Value != nil {
			if k.Value.ExactString() == "false" {
				continue
			}
			out = append(out, fa.incomingLits(phi.Block(), i, 0))
			continue
		}
		for _, sub := range fa.phiTrueAlts(e, depth+1) {
			out = append(out, append(append([]Lit{}, sub...), fa.incomingLits(phi.Block(), i, 0)...))
		}
	}
	return out
}

func runC16(c *Check) {
	p := c.p
	R := p.MustFunc(fnResolver)
	fa := p.FA(R)
	rn := p.Name(R)
	master := func(t *Term) bool { return t.Op == "param" && t.Name == "3" }
	// streamFrom = topology[visited[len-1]].StreamFrom
	streamFrom := func(t *Term) bool {
		if !t.IsField("StreamFrom") || len(t.Args) != 1 || t.Args[0].Op != "lookup" {
			return false
		}
		lk := t.Args[0]
		return lk.Args[0].Op == "param" && lk.Args[0].Name == "4" && lk.Args[1].Op == "index"
	}
	visitedContains := func(val bool) LitPat {
		return func(l Lit) bool {
			return l.Pos == val && p.IsCall(l.T, "slices.Contains") && streamFrom(l.T.Args[1])
		}
	}
	candState := func(t *Term) bool {
		return t.Op == "lookup" && t.Args[0].Op == "param" && t.Args[0].Name == "2" && streamFrom(t.Args[1])
	}
	selfState := func(t *Term) bool {
		return t.Op == "lookup" && t.Args[0].Op == "param" && t.Args[0].Name == "2" && p.IsCall(t.Args[1], "(*mysql.Node).Host")
	}

	c.Rule("C16.WALK", func() {
		c.Req(countLoops(R) == 1, rn, "-", "single-loop", "the resolver has one loop", fmt.Sprintf("%d", countLoops(R)))
		head := loopHead(R)
		if head == nil {
			panic(AnchorError{"loop in " + rn})
		}
		nb := 0
		for _, b := range R.Blocks {
			for _, s := range b.Succs {
				if s != head || !head.Dominates(b) {
					continue
				}
				nb++
				// the back edge's block appends streamFrom to the visited list
				var ap *ssa.Call
				for _, in := range b.Instrs {
					if call, ok := in.(*ssa.Call); ok {
						if bi, ok := call.Call.Value.(*ssa.Builtin); ok && bi.Name() == "append" {
							ap = call
						}
					}
				}
				okap := false
				if ap != nil {
					el := c.eff.variadic(ap.Call.Args[1])
					okap = len(el) == 1 && streamFrom(p.T(el[0]))
				}
				c.Req(okap, rn, p.InstrPos(b.Instrs[len(b.Instrs)-1]), nthKey("back-edge", nb)+":appends-visited", "each iteration appends the examined host to the visited list", "")
				if ap != nil {
					c.Gate(fa, ap, nthKey("back-edge", nb)+":fresh", "an iteration continues only with a host that was not visited before", visitedContains(false))
				}
			}
		}
		c.Req(nb >= 1, rn, "-", "back-edge", "loop back edge found", "")
		// the examined host is the configured source of the last visited host
		okNext := false
		for _, b := range R.Blocks {
			for _, in := range b.Instrs {
				if v, ok := in.(ssa.Value); ok {
					t := p.T(v)
					if streamFrom(t) {
						idx := t.Args[0].Args[1]
						if idx.Args[1].Op == "bin" && idx.Args[1].Name == "-" && idx.Args[1].Args[0].Op == "len" && idx.Args[1].Args[1].IsConst("1") {
							okNext = true
						}
					}
				}
			}
		}
		c.Req(okNext, rn, "-", "next-host", "the next host examined is the configured source of the last visited host", "")
		// empty source / revisit → master
		for _, b := range R.Blocks {
			for si := range b.Succs {
				for _, l := range fa.EdgeLits(b, si) {
					what := ""
					if CmpLit("==", streamFrom, func(t *Term) bool { return t.IsConst("") })(l) {
						what = "empty-source"
					} else if visitedContains(true)(l) {
						what = "revisit"
					}
					if what == "" {
						continue
					}
					bad := ""
					for _, r := range Returns(R) {
						pth, _ := fa.ReachFromEdge(b, si, func(in ssa.Instruction) bool { return in == ssa.Instruction(r) }, ReachOpts{CutEdge: func(bb *ssa.BasicBlock, s int) bool { return bb.Succs[s] == head }})
						if pth != nil && !master(p.T(r.Results[0])) {
							bad = p.InstrPos(r)
						}
					}
					pthLoop, _ := fa.ReachFromEdge(b, si, func(in ssa.Instruction) bool { return in.Block() == head }, ReachOpts{})
					c.Req(bad == "" && pthLoop == nil, rn, p.InstrPos(blockIf(b)), what+":master", "an empty source or a revisited host ends the walk with the master", bad)
				}
			}
		}
		// the visited list starts with the replica itself
		first := false
		for _, b := range R.Blocks {
			for _, in := range b.Instrs {
				// `visited := []string{node.Host()}`
				if sl, ok := in.(*ssa.Slice); ok && !head.Dominates(b) && sl.Type().String() == "[]string" {
					el := c.eff.variadic(sl)
					if len(el) == 1 && p.IsCall(p.T(el[0]), "(*mysql.Node).Host") && p.T(el[0]).Args[0].Op == "param" {
						first = true
					}
				}
				if call, ok := in.(*ssa.Call); ok {
					if bi, ok := call.Call.Value.(*ssa.Builtin); ok && bi.Name() == "append" && !head.Dominates(b) {
						el := c.eff.variadic(call.Call.Args[1])
						if len(el) == 1 && p.IsCall(p.T(el[0]), "(*mysql.Node).Host") && p.T(el[0]).Args[0].Op == "param" {
							first = true
						}
					}
				}
			}
		}
		c.Req(first, rn, "-", "visited[0]=self", "the visited list is initialised with the replica itself", "")
	})

	var nonMaster []*ssa.Return
	c.Rule("C16.NOTSELF", func() {
		for _, r := range Returns(R) {
			t := p.T(r.Results[0])
			if master(t) {
				continue
			}
			nonMaster = append(nonMaster, r)
			c.Req(streamFrom(t), rn, p.InstrPos(r), nthKey("answer", len(nonMaster))+":is-examined-host", "a non-master answer is the host being examined", "returns "+t.String())
			c.Gate(fa, r, nthKey("answer", len(nonMaster))+":not-visited", "the answer is not in the visited list (which starts with the replica itself), so never the replica", visitedContains(false))
			c.Gate(fa, r, nthKey("answer", len(nonMaster))+":non-empty", "the answer is not the empty host", CmpLit("!=", streamFrom, func(t *Term) bool { return t.IsConst("") }))
		}
		c.Req(len(nonMaster) == 2, rn, "-", "answers", "two non-master answers (already streaming / healthy ancestor)", fmt.Sprintf("%d", len(nonMaster)))
	})

	c.Rule("C16.HEALTH", func() {
		running, _ := p.ConstString("internal/mysql", "ReplicationRunning")
		for i, r := range nonMaster {
			k := nthKey("answer", i+1)
			firstHop := CmpLit("==", func(t *Term) bool { return t.Op == "len" }, func(t *Term) bool { return t.IsConst("1") })
			if ok, _ := fa.Gated(r, firstHop); ok {
				c.Gate(fa, r, k+":already:has-status", "first hop: the replica has a replica status", func(l Lit) bool {
					return l.T.Op == "isnil" && !l.Pos && l.T.Args[0].IsField("SlaveState") && selfState(l.T.Args[0].Args[0])
				})
				c.Gate(fa, r, k+":already:running", "first hop: the replica is replicating", CmpLit("==", func(t *Term) bool {
					return t.IsField("ReplicationState") && selfState(t.Args[0].Args[0])
				}, func(t *Term) bool { return t.IsConst(running) }))
				c.Gate(fa, r, k+":already:from-that-host", "first hop: it replicates from exactly the configured source", CmpLit("==", func(t *Term) bool {
					return t.IsField("MasterHost") && selfState(t.Args[0].Args[0])
				}, streamFrom))
				continue
			}
			c.Gate(fa, r, k+":healthy:ping", "a healthy ancestor answers pings", func(l Lit) bool { return l.Pos && l.T.IsField("PingOk") && candState(l.T.Args[0]) })
			c.Gate(fa, r, k+":healthy:online", "a healthy ancestor is not offline", func(l Lit) bool { return !l.Pos && l.T.IsField("IsOffline") && candState(l.T.Args[0]) })
			// master or running replica with known, reasonable lag
			var phiV ssa.Value
			lagOK := func(l Lit) bool {
				if !l.Pos || l.T.Op != "phi" {
					return false
				}
				if _, ok := l.T.V.(*ssa.Phi); ok {
					phiV = l.T.V
					return true
				}
				return false
			}
			if !c.Gate(fa, r, k+":healthy:role-and-lag", "a healthy ancestor passed the role/lag test", lagOK, func(l Lit) bool {
				return l.Pos && l.T.IsField("IsMaster") && candState(l.T.Args[0])
			}) || phiV == nil {
				continue
			}
			alts := fa.phiTrueAlts(phiV, 0)
			okAll := len(alts) >= 2
			det := ""
			for _, alt := range alts {
				has := func(pat LitPat) bool {
					for _, l := range alt {
						if pat(l) {
							return true
						}
					}
					return false
				}
				isM := has(func(l Lit) bool { return l.Pos && l.T.IsField("IsMaster") && candState(l.T.Args[0]) })
				isR := has(func(l Lit) bool {
					return l.T.Op == "isnil" && !l.Pos && l.T.Args[0].IsField("SlaveState") && candState(l.T.Args[0].Args[0])
				}) && has(CmpLit("==", func(t *Term) bool { return t.IsField("ReplicationState") }, func(t *Term) bool { return t.IsConst(running) })) &&
					has(func(l Lit) bool { return l.T.Op == "isnil" && !l.Pos && l.T.Args[0].IsField("ReplicationLag") }) &&
					has(CmpLit("<", func(t *Term) bool {
						return t.Contains(func(x *Term) bool { return x.IsField("ReplicationLag") })
					}, func(t *Term) bool {
						return p.IsCall(t, "(time.Duration).Seconds") && t.Args[0].IsField("StreamFromReasonableLag")
					}))
				if !isM && !isR {
					okAll = false
					var ls []string
					for _, l := range alt {
						ls = append(ls, l.String())
					}
					det = "alternative: " + join(ls)
				}
			}
			c.Req(okAll, rn, p.InstrPos(r), k+":healthy:alternatives", "the role/lag test is true only for the master or for a running replica with known lag below the reasonable lag", det)
		}
	})

	c.Rule("C16.NIL", func() {
		// every dereference of the candidate's state is below a nil test of it
		n := 0
		bad := 0
		for _, b := range R.Blocks {
			for _, in := range b.Instrs {
				fad, ok := in.(*ssa.FieldAddr)
				if !ok {
					continue
				}
				if !candState(p.T(fad.X)) {
					continue
				}
				n++
				nonNil := func(l Lit) bool { return l.T.Op == "isnil" && !l.Pos && candState(l.T.Args[0]) }
				if ok, path := fa.Gated(fad, nonNil); !ok {
					bad++
					if bad == 1 {
						c.Fail(rn, p.InstrPos(fad), "candidate-state:deref", "the state looked up for a configured stream_from (which may name an unregistered host) is dereferenced only after a nil test", "ungated path: "+fa.PathString(path))
					}
				}
			}
		}
		if bad == 0 {
			c.Hold(rn, "-", "candidate-state:deref", fmt.Sprintf("%d dereferences, all below a nil test", n))
		}
		c.Req(n >= 3, rn, "-", "candidate-state:derefs", "dereferences of the candidate's state found", fmt.Sprintf("%d", n))
		// blind re-point (unknown replica status): target is neither the replica nor empty
		C := p.MustFunc(fnRepairCascade)
		cfa := p.FA(C)
		nb := 0
		for _, ci := range p.Calls(C, fnChange) {
			tv := ci.Common().Args[2]
			tgt := p.T(tv)
			if !tgt.Contains(func(x *Term) bool { return x.IsField("StreamFrom") }) {
				continue
			}
			nb++
			hostT := p.T(ci.Common().Args[1])
			type alt struct {
				t    *Term
				lits []Lit
			}
			var alts []alt
			if phi, ok := tv.(*ssa.Phi); ok {
				for i, e := range phi.Edges {
					alts = append(alts, alt{p.T(e), cfa.incomingLits(phi.Block(), i, 0)})
				}
			} else {
				alts = []alt{{tgt, nil}}
			}
			for i, a := range alts {
				k := nthKey("blind-repoint:source", i+1)
				if a.t.Op == "param" && a.t.Name == "3" {
					c.Hold(p.Name(C), p.InstrPos(ci), k, "fallback: the recorded master (the caller repairs replicas only: host != master)")
					continue
				}
				ne := func(other func(*Term) bool) LitPat {
					return func(l Lit) bool {
						x, y, op, ok := Cmp(l)
						if !ok || op != "!=" {
							return false
						}
						return (sameValue(x, a.t) && other(y)) || (sameValue(y, a.t) && other(x))
					}
				}
				has := func(pat LitPat) bool {
					for _, l := range a.lits {
						if pat(l) {
							return true
						}
					}
					g, _ := cfa.Gated(ci, pat)
					return g
				}
				c.Req(has(ne(func(t *Term) bool { return sameValue(t, hostT) })), p.Name(C), p.InstrPos(ci), k+":not-self", "the blind re-point (replica status unknown) never targets the replica itself (a self-referencing stream_from would hit the explicit panic)", "source "+a.t.String())
				c.Req(has(ne(func(t *Term) bool { return t.IsConst("") })), p.Name(C), p.InstrPos(ci), k+":non-empty", "the blind re-point never targets an empty host (missing cascade configuration)", "source "+a.t.String())
			}
		}
		c.Req(nb == 1, p.Name(C), "-", "blind-repoint", "the blind re-point site", fmt.Sprintf("%d", nb))
	})

	c.Rule("C16.MOVE", func() {
		C := p.MustFunc(fnRepairCascade)
		cfa := p.FA(C)
		cn := p.Name(C)
		var move ssa.CallInstruction
		var cand *Term
		for _, ci := range p.Calls(C, fnChange) {
			t := p.T(ci.Common().Args[2])
			if p.IsCall(t, fnResolver) {
				move = ci
				cand = t
			}
		}
		if move == nil {
			panic(AnchorError{"guarded move in " + cn})
		}
		mine := func(t *Term) bool {
			if !p.IsCall(t, "mysql/gtids.ParseGtidSet") || !p.IsCall(t.Args[0], "(mysql.ReplicaStatus).GetExecutedGtidSet") {
				return false
			}
			r := ResultOf(t.Args[0].Args[0], 0)
			return r != nil && p.IsCall(r, "(*mysql.Node).GetReplicaStatus") && r.Args[0].Op == "param" && r.Args[0].Name == "1"
		}
		candState2 := func(t *Term) bool {
			return t.Op == "lookup" && t.Args[0].Op == "param" && t.Args[0].Name == "2" && sameValue(t.Args[1], cand)
		}
		theirs := func(t *Term) bool {
			return derivesOnly(t, func(a *Term) bool {
				if !p.IsCall(a, "mysql/gtids.ParseGtidSet") {
					return false
				}
				x := a.Args[0]
				return x.IsField("ExecutedGtidSet") && (x.Args[0].IsField("MasterState") || x.Args[0].IsField("SlaveState")) && candState2(x.Args[0].Args[0])
			})
		}
		c.Gate(cfa, move, "move:not-ahead", "moved only if its own set is not ahead of the candidate's", func(l Lit) bool {
			return !l.Pos && p.IsCall(l.T, "mysql/gtids.IsSlaveAhead") && mine(l.T.Args[0]) && theirs(l.T.Args[1])
		})
		c.Gate(cfa, move, "move:not-splitbrained", "moved only if not split-brained against the candidate (candidate's uuid)", func(l Lit) bool {
			if l.Pos || !p.IsCall(l.T, fnSplitBrained) || !mine(l.T.Args[0]) || !theirs(l.T.Args[1]) {
				return false
			}
			u := ResultOf(l.T.Args[2], 0)
			return u != nil && p.IsCall(u, "(*mysql.Node).UUID") && p.IsCall(u.Args[0], "(*mysql.Cluster).Get") && sameValue(u.Args[0].Args[1], cand)
		})
		c.Gate(cfa, move, "move:behind-or-equal", "moved only if the candidate's set contains its own", func(l Lit) bool {
			return l.Pos && p.IsCall(l.T, "mysql/gtids.IsSlaveBehindOrEqual") && mine(l.T.Args[0]) && theirs(l.T.Args[1])
		})
		c.Gate(cfa, move, "move:uuid-read", "the candidate's uuid was read without error", p.NilErr("(*mysql.Node).UUID"))
		c.Gate(cfa, move, "move:status-read", "its own status was read without error", p.NilErr("(*mysql.Node).GetReplicaStatus"))
		c.Req(sameValue(p.T(move.Common().Args[1]), p.T(move.Common().Args[1])) && p.IsCall(p.T(move.Common().Args[1]), "(*mysql.Node).Host"), cn, p.InstrPos(move), "move:who", "the node moved is the cascade replica being repaired", "")
		// own status is read after the stop when replication was running
		for _, g := range p.Calls(C, "(*mysql.Node).GetReplicaStatus") {
			running, _ := p.ConstString("internal/mysql", "ReplicationRunning")
			notRunning := CmpLit("!=", func(t *Term) bool { return t.IsField("ReplicationState") }, func(t *Term) bool { return t.IsConst(running) })
			c.Gate(cfa, g, "move:fresh-status", "the replica's set is read after its replication was stopped (or was not running)", p.NilErr("(*mysql.Node).StopSlave"), notRunning, func(l Lit) bool {
				// materialised isReplicationRunning == false
				return !l.Pos && l.T.Op == "bin" && l.T.Name == "=="
			})
		}
		// split brain → emergency file
		for _, b := range C.Blocks {
			for si := range b.Succs {
				for _, l := range cfa.EdgeLits(b, si) {
					if l.Pos && p.IsCall(l.T, fnSplitBrained) {
						path, _ := cfa.ReachFromEdge(b, si, func(in ssa.Instruction) bool { _, ok := in.(*ssa.Return); return ok }, ReachOpts{Barrier: isCallTo(p, "(*app.App).writeEmergeFile")})
						c.Req(path == nil, cn, p.InstrPos(blockIf(b)), "move:splitbrain→emerge", "a split-brained cascade replica raises the emergency file", "path: "+cfa.PathString(path))
						pth, _ := cfa.ReachFromEdge(b, si, func(in ssa.Instruction) bool { return in == move.(ssa.Instruction) }, ReachOpts{})
						c.Req(pth == nil, cn, p.InstrPos(blockIf(b)), "move:splitbrain→no-move", "… and is not moved", "")
					}
				}
			}
		}
	})

	c.Rule("C16.COUNT", func() {
		notCascade := func(l Lit) bool { return !l.Pos && l.T.IsField("IsCascade") }
		for _, fname := range []string{"app.countHANodes", "app.countRunningHASlaves", "app.countAliveHASlavesWithinNodes"} {
			f := p.MustFunc(fname)
			ffa := p.FA(f)
			n := 0
			for _, r := range Returns(f) {
				for _, inc := range counterIncs(p.T(r.Results[0])) {
					n++
					c.Gate(ffa, inc, nthKey("count", n), "HA counters skip cascade replicas", notCascade)
				}
			}
			c.Req(n >= 1, fname, "-", "counter", "the counter increments somewhere", "")
		}
		d := p.MustFunc("app.getDubiousHAHosts")
		dfa := p.FA(d)
		n := 0
		for _, b := range d.Blocks {
			for _, in := range b.Instrs {
				if call, ok := in.(*ssa.Call); ok {
					if bi, ok := call.Call.Value.(*ssa.Builtin); ok && bi.Name() == "append" {
						n++
						c.Gate(dfa, call, nthKey("dubious", n), "dubious-host detection skips cascade replicas", notCascade)
					}
				}
			}
		}
		c.Req(n >= 1, p.Name(d), "-", "dubious:append", "append site", "")
		checkMemberExclusion(c, "cascade")
		// alive-within-nodes also needs the host to be a replica that answers
		a := p.MustFunc("app.countAliveHASlavesWithinNodes")
		afa := p.FA(a)
		for _, r := range Returns(a) {
			for i, inc := range counterIncs(p.T(r.Results[0])) {
				c.Gate(afa, inc, nthKey("alive", i+1)+":ping", "an alive active replica answers pings", FieldLit(true, "PingOk"))
				c.Gate(afa, inc, nthKey("alive", i+1)+":replica", "… and has a replica status", func(l Lit) bool { return l.T.Op == "isnil" && !l.Pos && l.T.Args[0].IsField("SlaveState") })
				c.Gate(afa, inc, nthKey("alive", i+1)+":known", "… and is present in the state map", func(l Lit) bool { return l.Pos && l.T.Op == "extract" && l.T.Name == "1" && l.T.Args[0].Op == "lookup" })
			}
		}
		// CLI targets are HA hosts
		cli := p.MustFunc("(*app.App).CliSwitch")
		ns := 0
		for _, ci := range p.Calls(cli, "util.SelectNodes") {
			ns++
			c.Req(p.IsCall(p.T(ci.Common().Args[0]), "(*mysql.Cluster).HANodeHosts"), p.Name(cli), p.InstrPos(ci), nthKey("cli-targets", ns), "CLI switch targets are selected among HA hosts (never cascade replicas)", "")
		}
		c.Req(ns == 2, p.Name(cli), "-", "cli-targets", "--to and --from selections", fmt.Sprintf("%d", ns))
	})

	c.Rule("C16.CLI", func() {
		f := p.MustFunc("(*app.App).processReplicationSource")
		ffa := p.FA(f)
		n := 0
		for _, ci := range p.Calls(f, "(dcs.DCS).Set") {
			kv := c.eff.Eval(ci.Common().Args[0], c.eff.rootEnv(f))
			if !kv.Strs["cascade_nodes/*"] {
				continue
			}
			n++
			host := func(t *Term) bool { return t.Op == "param" && t.Name == "3" }
			sf := func(t *Term) bool { return t.Op == "param" && t.Name == "1" }
			c.Gate(ffa, ci, "cascade-config:not-self", "a cascade configuration with stream_from == host is rejected", CmpLit("!=", host, sf))
			var masterCell *ssa.Alloc
			for _, g := range p.Calls(f, "(dcs.DCS).Get") {
				if p.T(g.Common().Args[0]).IsConst("master") {
					if mi, ok := g.Common().Args[1].(*ssa.MakeInterface); ok {
						masterCell, _ = mi.X.(*ssa.Alloc)
					}
				}
			}
			c.Gate(ffa, ci, "cascade-config:not-master", "the recorded master cannot be converted to a cascade replica", CmpLit("!=", func(t *Term) bool { return masterCell != nil && cellOf(t) == masterCell }, host))
			c.Gate(ffa, ci, "cascade-config:master-read", "the recorded master was read", p.NilErr("(dcs.DCS).Get"))
		}
		c.Req(n == 1, p.Name(f), "-", "cascade-config:write", "one site writes a cascade configuration", fmt.Sprintf("%d", n))
	})
	extraC16(c)
}
