#!/bin/bash
# Builds the static checker offline from /verif/checker (x/tools is vendored).
set -e
cd "$(dirname "$0")"
unset GOTOOLCHAIN GOSUMDB GOWORK
export GOFLAGS=-mod=vendor GOPROXY=off GOWORK=off CGO_ENABLED=0
mkdir -p bin evidence
(cd checker && go build -o ../bin/mysyncsa .)
echo "built $(pwd)/bin/mysyncsa"
