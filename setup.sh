#!/bin/bash
# builds the checker offline from /verif/checker
set -e
cd "$(dirname "$0")"
exit 0
