package app

// Offline harness shared by the C04 seed demonstrations.
//
// It lets the REAL (*App).updateActiveNodes / calcActiveNodes / canShrinkActiveNodes run
// without MySQL and without ZooKeeper:
//
//   - every mysql.Node still opens its pool with sqlx.Open("mysql", dsn); a custom dialer
//     registered in go-sql-driver hands it one end of a net.Pipe whose other end is served by
//     a tiny in-process MySQL wire-protocol fake (seedSQL) that understands exactly the
//     statements the active-node update issues and keeps the semi-sync variables;
//   - the coordination service is an in-memory dcs.DCS (seedDCS) used through the real appDCS.
//
// Both fakes can fail a chosen call, and both append to one global trace so that the order of
// effects can be inspected.

import (
	"context"
	"encoding/binary"
	"encoding/json"
	"errors"
	"fmt"
	"io"
	"net"
	"regexp"
	"sort"
	"strconv"
	"strings"
	"sync"
	"testing"
	"time"

	mysql_driver "github.com/go-sql-driver/mysql"
	"github.com/stretchr/testify/require"

	nodestate "github.com/yandex/mysync/internal/app/node_state"
	"github.com/yandex/mysync/internal/app/optimization"
	"github.com/yandex/mysync/internal/config"
	"github.com/yandex/mysync/internal/dcs"
	"github.com/yandex/mysync/internal/log"
	"github.com/yandex/mysync/internal/mysql"
)

// ─── world ──────────────────────────────────────────────────────────────────

type seedWorld struct {
	t      *testing.T
	mu     sync.Mutex
	trace  []string
	sql    map[string]*seedSQL
	dcs    *seedDCS
	app    *App
	cfg    *config.Config
	master string
}

func (w *seedWorld) logf(format string, args ...any) {
	w.mu.Lock()
	defer w.mu.Unlock()
	w.trace = append(w.trace, fmt.Sprintf(format, args...))
}

func (w *seedWorld) dumpTrace() string {
	w.mu.Lock()
	defer w.mu.Unlock()
	return strings.Join(w.trace, "\n")
}

var (
	seedServers  sync.Map // host -> *seedSQL
	seedDialOnce sync.Once
)

func seedRegisterDial() {
	seedDialOnce.Do(func() {
		mysql_driver.RegisterDialContext("tcp", func(_ context.Context, addr string) (net.Conn, error) {
			host, _, err := net.SplitHostPort(addr)
			if err != nil {
				return nil, err
			}
			v, ok := seedServers.Load(host)
			if !ok {
				return nil, fmt.Errorf("seed harness: no fake mysql for %q", host)
			}
			s := v.(*seedSQL)
			if s.isDown() {
				return nil, &net.OpError{Op: "dial", Net: "tcp", Err: errors.New("connection refused")}
			}
			cl, sv := net.Pipe()
			go s.serve(sv)
			return cl, nil
		})
	})
}

// seedNewWorld builds an App managing the given hosts; hosts[0] is the master and the host the
// manager runs on. tweak may adjust the configuration before anything is built from it.
func seedNewWorld(t *testing.T, tweak func(*config.Config), hosts ...string) *seedWorld {
	t.Helper()
	seedRegisterDial()

	cfg, err := config.DefaultConfig()
	require.NoError(t, err)
	cfg.Hostname = hosts[0]
	cfg.SemiSync = true
	cfg.DBTimeout = 2 * time.Second
	cfg.DSNSettings = "?interpolateParams=true"
	cfg.MySQL.User = "seed"
	cfg.MySQL.Password = "seed-password"
	cfg.MySQL.ReplicationPassword = "seed-repl-password"
	cfg.MySQL.Port = 3306
	cfg.MySQL.SslCA = ""
	if tweak != nil {
		tweak(&cfg)
	}

	logger, _, _, err := log.Open("/dev/null", "fatal", 100, 0)
	require.NoError(t, err)

	w := &seedWorld{t: t, sql: map[string]*seedSQL{}, cfg: &cfg, master: hosts[0]}
	w.dcs = &seedDCS{w: w, data: map[string][]byte{}}
	for i, h := range hosts {
		s := &seedSQL{
			w:         w,
			host:      h,
			uuid:      fmt.Sprintf("%08d-0000-0000-0000-%012d", i+1, i+1),
			waitCount: 1, // MySQL's default for rpl_semi_sync_master_wait_for_slave_count
			replState: mysql.ReplicationRunning,
			logFile:   "mysql-bin.000002",
			logPos:    1000,
		}
		w.sql[h] = s
		seedServers.Store(h, s)
		require.NoError(t, w.dcs.Set(dcs.JoinPath(dcs.PathHANodesPrefix, h), mysql.NodeConfiguration{}))
	}
	m := w.sql[hosts[0]]
	m.isMaster = true
	m.binlogs = []mysql.Binlog{{Name: "mysql-bin.000001", Size: 1000}, {Name: "mysql-bin.000002", Size: 1000}}
	m.gtid = m.uuid + ":1-100"
	for _, h := range hosts[1:] {
		w.sql[h].gtid = m.gtid
	}

	cluster, err := mysql.NewCluster(&cfg, logger, w.dcs)
	require.NoError(t, err)
	require.NoError(t, cluster.UpdateHostsInfo())
	t.Cleanup(func() {
		cluster.Close()
		for _, h := range hosts {
			seedServers.Delete(h)
		}
	})

	w.app = &App{
		config:             &cfg,
		logger:             logger,
		t:                  NewTimings(),
		dcs:                w.dcs,
		appDCS:             NewAppDCS(w.dcs, &cfg, logger),
		cluster:            cluster,
		switchHelper:       mysql.NewSwitchHelper(&cfg),
		slaveReadPositions: map[string]string{},
		replRepairState:    map[string]*ReplicationRepairState{},
		optController:      seedNoOptimization{},
	}
	return w
}

// observe is what getClusterStateFromDB would have collected from the fakes.
func (w *seedWorld) observe() map[string]*nodestate.NodeState {
	res := map[string]*nodestate.NodeState{}
	for h, s := range w.sql {
		s.mu.Lock()
		st := &nodestate.NodeState{PingOk: !s.down, IsMaster: s.isMaster, IsCascade: s.cascade}
		if !s.down {
			st.SemiSyncState = &nodestate.SemiSyncState{MasterEnabled: s.masterEnabled, SlaveEnabled: s.slaveEnabled, WaitSlaveCount: s.waitCount}
			if s.isMaster {
				st.MasterState = &nodestate.MasterState{ExecutedGtidSet: s.gtid}
			} else if !s.notReplica {
				st.IsReadOnly = true
				st.SlaveState = &nodestate.SlaveState{
					MasterHost:       w.master,
					ExecutedGtidSet:  s.gtid,
					RetrievedGtidSet: s.gtid,
					ReplicationState: s.replState,
					MasterLogFile:    s.logFile,
					MasterLogPos:     s.logPos,
				}
			}
		}
		s.mu.Unlock()
		res[h] = st
	}
	return res
}

// published returns the active list stored in the coordination service.
func (w *seedWorld) published() []string {
	nodes, err := w.app.GetActiveNodes()
	require.NoError(w.t, err)
	return nodes
}

// ackers are the hosts on which rpl_semi_sync_slave_enabled is on.
func (w *seedWorld) ackers() []string {
	var res []string
	for h, s := range w.sql {
		s.mu.Lock()
		if s.slaveEnabled && !s.isMaster {
			res = append(res, h)
		}
		s.mu.Unlock()
	}
	sort.Strings(res)
	return res
}

// masterAcks is the number of acknowledgements the master really waits for.
func (w *seedWorld) masterAcks() int {
	m := w.sql[w.master]
	m.mu.Lock()
	defer m.mu.Unlock()
	if !m.masterEnabled {
		return 0
	}
	return m.waitCount
}

type seedNoOptimization struct{}

func (seedNoOptimization) Wait(context.Context, optimization.Node) error           { return nil }
func (seedNoOptimization) Enable(optimization.Node) error                          { return nil }
func (seedNoOptimization) Disable(optimization.Node, optimization.Node) error      { return nil }
func (seedNoOptimization) DisableAll(optimization.Node, []optimization.Node) error { return nil }

// ─── fake MySQL ─────────────────────────────────────────────────────────────

type seedSQL struct {
	w    *seedWorld
	mu   sync.Mutex
	host string

	down       bool // refuses connections, looks dead to observe()
	isMaster   bool
	cascade    bool
	notReplica bool // SHOW REPLICA STATUS is empty
	uuid       string
	gtid       string
	replState  string
	logFile    string
	logPos     int64
	binlogs    []mysql.Binlog

	masterEnabled bool
	slaveEnabled  bool
	waitCount     int

	// failOn is asked before a statement is executed; a non-nil error is returned to the client
	// as a MySQL error packet and the statement has no effect.
	failOn func(stmt string) error
}

func (s *seedSQL) isDown() bool {
	s.mu.Lock()
	defer s.mu.Unlock()
	return s.down
}

var (
	seedWaitCountRe = regexp.MustCompile(`(?i)^SET GLOBAL rpl_semi_sync_master_wait_for_slave_count = (-?\d+)$`)
	seedSpaceRe     = regexp.MustCompile(`\s+`)
)

type seedResult struct {
	cols []string
	rows [][]string
}

// exec interprets one statement. A nil result means "OK packet".
func (s *seedSQL) exec(stmt string) (*seedResult, error) {
	stmt = strings.TrimSpace(seedSpaceRe.ReplaceAllString(stmt, " "))
	noise := strings.HasPrefix(stmt, "SET SESSION lock_wait_timeout")
	s.mu.Lock()
	defer s.mu.Unlock()
	if !noise && s.failOn != nil {
		if err := s.failOn(stmt); err != nil {
			s.w.logf("%s: FAILED %s", s.host, stmt)
			return nil, err
		}
	}
	if !noise {
		s.w.logf("%s: %s", s.host, stmt)
	}
	switch {
	case noise:
		return nil, nil
	case stmt == "SELECT 1 AS Ok":
		return &seedResult{[]string{"Ok"}, [][]string{{"1"}}}, nil
	case strings.Contains(stmt, "gtid_executed"):
		return &seedResult{[]string{"Executed_Gtid_Set"}, [][]string{{s.gtid}}}, nil
	case strings.Contains(stmt, "@@server_uuid"):
		return &seedResult{[]string{"server_uuid"}, [][]string{{s.uuid}}}, nil
	case stmt == "SHOW BINARY LOGS":
		r := &seedResult{cols: []string{"Log_name", "File_size"}}
		for _, b := range s.binlogs {
			r.rows = append(r.rows, []string{b.Name, strconv.FormatInt(b.Size, 10)})
		}
		return r, nil
	case strings.Contains(stmt, "sys.version_major()"):
		return &seedResult{[]string{"MajorVersion", "MinorVersion", "PatchVersion"}, [][]string{{"8", "0", "32"}}}, nil
	case strings.HasPrefix(stmt, "SELECT @@GLOBAL.innodb_flush_log_at_trx_commit"):
		return &seedResult{[]string{"InnodbFlushLogAtTrxCommit", "SyncBinlog"}, [][]string{{"1", "1"}}}, nil
	case strings.HasPrefix(stmt, "SELECT @@rpl_semi_sync_master_enabled"):
		return &seedResult{[]string{"MasterEnabled", "SlaveEnabled", "WaitSlaveCount"},
			[][]string{{seedBool(s.masterEnabled), seedBool(s.slaveEnabled), strconv.Itoa(s.waitCount)}}}, nil
	case seedWaitCountRe.MatchString(stmt):
		n, _ := strconv.Atoi(seedWaitCountRe.FindStringSubmatch(stmt)[1])
		if n < 1 {
			return nil, &mysql_driver.MySQLError{Number: 1231, Message: "Variable 'rpl_semi_sync_master_wait_for_slave_count' can't be set to the value of '" + strconv.Itoa(n) + "'"}
		}
		s.waitCount = n
		return nil, nil
	case stmt == "SET GLOBAL rpl_semi_sync_master_enabled = 1, rpl_semi_sync_slave_enabled = 0":
		s.masterEnabled, s.slaveEnabled = true, false
		return nil, nil
	case stmt == "SET GLOBAL rpl_semi_sync_slave_enabled = 1, rpl_semi_sync_master_enabled = 0":
		s.masterEnabled, s.slaveEnabled = false, true
		return nil, nil
	case stmt == "SET GLOBAL rpl_semi_sync_slave_enabled = 0, rpl_semi_sync_master_enabled = 0":
		s.masterEnabled, s.slaveEnabled = false, false
		return nil, nil
	case strings.HasPrefix(stmt, "SET GLOBAL "),
		strings.HasPrefix(stmt, "STOP SLAVE"), strings.HasPrefix(stmt, "START SLAVE"),
		strings.HasPrefix(stmt, "STOP REPLICA"), strings.HasPrefix(stmt, "START REPLICA"):
		return nil, nil
	}
	return nil, &mysql_driver.MySQLError{Number: 1064, Message: "seed harness does not understand: " + stmt}
}

func seedBool(b bool) string {
	if b {
		return "1"
	}
	return "0"
}

func seedReadPacket(c net.Conn) ([]byte, byte, error) {
	var hdr [4]byte
	if _, err := io.ReadFull(c, hdr[:]); err != nil {
		return nil, 0, err
	}
	n := int(hdr[0]) | int(hdr[1])<<8 | int(hdr[2])<<16
	payload := make([]byte, n)
	if _, err := io.ReadFull(c, payload); err != nil {
		return nil, 0, err
	}
	return payload, hdr[3], nil
}

func seedFrame(out []byte, seq *byte, payload []byte) []byte {
	n := len(payload)
	out = append(out, byte(n), byte(n>>8), byte(n>>16), *seq)
	*seq++
	return append(out, payload...)
}

func seedLenEncStr(out []byte, s string) []byte {
	n := len(s)
	switch {
	case n < 251:
		out = append(out, byte(n))
	case n < 1<<16:
		out = append(out, 0xfc, byte(n), byte(n>>8))
	default:
		out = append(out, 0xfd, byte(n), byte(n>>8), byte(n>>16))
	}
	return append(out, s...)
}

var (
	seedOK  = []byte{0x00, 0x00, 0x00, 0x02, 0x00, 0x00, 0x00}
	seedEOF = []byte{0xfe, 0x00, 0x00, 0x02, 0x00}
)

func seedErrPacket(err error) []byte {
	num, msg := uint16(1105), err.Error()
	var me *mysql_driver.MySQLError
	if errors.As(err, &me) {
		num, msg = me.Number, me.Message
	}
	p := []byte{0xff, byte(num), byte(num >> 8), '#'}
	p = append(p, "HY000"...)
	return append(p, msg...)
}

func (s *seedSQL) serve(c net.Conn) {
	defer func() { _ = c.Close() }()
	caps := uint32(0x1 | 0x4 | 0x8 | 0x200 | 0x2000 | 0x8000 | 0x80000)
	hs := []byte{10}
	hs = append(hs, "8.0.32-seed\x00"...)
	hs = append(hs, 1, 0, 0, 0)
	hs = append(hs, "abcdefgh"...)
	hs = append(hs, 0)
	hs = binary.LittleEndian.AppendUint16(hs, uint16(caps&0xffff))
	hs = append(hs, 45)
	hs = append(hs, 0x02, 0x00)
	hs = binary.LittleEndian.AppendUint16(hs, uint16(caps>>16))
	hs = append(hs, 21)
	hs = append(hs, make([]byte, 10)...)
	hs = append(hs, "ijklmnopqrst\x00"...)
	hs = append(hs, "mysql_native_password\x00"...)
	seq := byte(0)
	if _, err := c.Write(seedFrame(nil, &seq, hs)); err != nil {
		return
	}
	_, cseq, err := seedReadPacket(c)
	if err != nil {
		return
	}
	seq = cseq + 1
	if _, err := c.Write(seedFrame(nil, &seq, seedOK)); err != nil {
		return
	}
	for {
		p, _, err := seedReadPacket(c)
		if err != nil || len(p) == 0 {
			return
		}
		seq = 1
		var out []byte
		switch p[0] {
		case 0x01: // COM_QUIT
			return
		case 0x02, 0x0e: // COM_INIT_DB, COM_PING
			out = seedFrame(out, &seq, seedOK)
		case 0x03: // COM_QUERY
			res, qerr := s.exec(string(p[1:]))
			switch {
			case qerr != nil:
				out = seedFrame(out, &seq, seedErrPacket(qerr))
			case res == nil:
				out = seedFrame(out, &seq, seedOK)
			default:
				out = seedFrame(out, &seq, []byte{byte(len(res.cols))})
				for _, col := range res.cols {
					var d []byte
					d = seedLenEncStr(d, "def")
					d = seedLenEncStr(d, "")
					d = seedLenEncStr(d, "")
					d = seedLenEncStr(d, "")
					d = seedLenEncStr(d, col)
					d = seedLenEncStr(d, col)
					d = append(d, 0x0c, 45, 0, 0, 4, 0, 0, 0xfd, 0, 0, 0, 0, 0)
					out = seedFrame(out, &seq, d)
				}
				out = seedFrame(out, &seq, seedEOF)
				for _, row := range res.rows {
					var d []byte
					for _, v := range row {
						d = seedLenEncStr(d, v)
					}
					out = seedFrame(out, &seq, d)
				}
				out = seedFrame(out, &seq, seedEOF)
			}
		default:
			out = seedFrame(out, &seq, seedErrPacket(fmt.Errorf("seed harness: unsupported command %#x", p[0])))
		}
		if _, err := c.Write(out); err != nil {
			return
		}
	}
}

// ─── fake coordination service ──────────────────────────────────────────────

type seedDCS struct {
	w    *seedWorld
	mu   sync.Mutex
	data map[string][]byte
	// failWrite is asked before Set/Create/Delete; a non-nil error aborts the write.
	failWrite func(op, path string) error
}

var _ dcs.DCS = (*seedDCS)(nil)

func (d *seedDCS) IsConnected() bool                { return true }
func (d *seedDCS) WaitConnected(time.Duration) bool { return true }
func (d *seedDCS) Initialize()                      {}
func (d *seedDCS) SetDisconnectCallback(func() error) {
}
func (d *seedDCS) AcquireLock(string) bool { return true }
func (d *seedDCS) ReleaseLock(string)      {}
func (d *seedDCS) Close()                  {}

func (d *seedDCS) write(op, path string, value any, mustBeNew bool) error {
	buf, err := json.Marshal(value)
	if err != nil {
		return err
	}
	d.mu.Lock()
	defer d.mu.Unlock()
	if d.failWrite != nil {
		if err := d.failWrite(op, path); err != nil {
			d.w.logf("dcs: FAILED %s %s %s", op, path, buf)
			return err
		}
	}
	if _, ok := d.data[path]; ok && mustBeNew {
		return dcs.ErrExists
	}
	if path == pathActiveNodes || strings.HasPrefix(path, pathRecovery) {
		d.w.logf("dcs: %s %s %s", op, path, buf)
	}
	d.data[path] = buf
	return nil
}

func (d *seedDCS) Create(path string, value any) error { return d.write("create", path, value, true) }
func (d *seedDCS) CreateEphemeral(path string, value any) error {
	return d.write("create", path, value, true)
}
func (d *seedDCS) Set(path string, value any) error { return d.write("set", path, value, false) }
func (d *seedDCS) SetEphemeral(path string, value any) error {
	return d.write("set", path, value, false)
}

func (d *seedDCS) Get(path string, dest any) error {
	d.mu.Lock()
	buf, ok := d.data[path]
	d.mu.Unlock()
	if !ok {
		return dcs.ErrNotFound
	}
	if err := json.Unmarshal(buf, dest); err != nil {
		return dcs.ErrMalformed
	}
	return nil
}

func (d *seedDCS) Delete(path string) error {
	d.mu.Lock()
	defer d.mu.Unlock()
	if d.failWrite != nil {
		if err := d.failWrite("delete", path); err != nil {
			return err
		}
	}
	for k := range d.data {
		if k == path || strings.HasPrefix(k, path+"/") {
			delete(d.data, k)
		}
	}
	return nil
}

func (d *seedDCS) GetTree(string) (any, error) { return nil, errors.New("seed harness: no GetTree") }

func (d *seedDCS) GetChildren(path string) ([]string, error) {
	d.mu.Lock()
	defer d.mu.Unlock()
	_, exists := d.data[path]
	seen := map[string]bool{}
	for k := range d.data {
		if rest, ok := strings.CutPrefix(k, path+"/"); ok {
			exists = true
			seen[strings.SplitN(rest, "/", 2)[0]] = true
		}
	}
	if !exists {
		return nil, dcs.ErrNotFound
	}
	res := make([]string, 0, len(seen))
	for k := range seen {
		res = append(res, k)
	}
	sort.Strings(res)
	return res, nil
}
