package app

// Demonstration for finding F14 (C20.NILKEY, two-snapshot reading). The manager's two state maps are built
// from two separate reads of the host registry (getClusterStateFromDB, then getClusterStateFromDcs) while the
// recovery and lag checker goroutines refresh the registry concurrently (UpdateHostsInfo). A host that is down
// and gets unregistered (`mysync host remove` only requires that it does not answer) between the two reads is
// in the first map and not in the second; calcActiveNodes then dereferences clusterStateDcs[host] == nil.
//
// The harness (f14_harness_test.go) is the one written for the seeded change C04-2: real App, real
// mysql.Cluster/Node over an in-memory coordination service and in-process fake MySQL servers.

import (
	"testing"

	"github.com/stretchr/testify/require"

	nodestate "github.com/yandex/mysync/internal/app/node_state"
)

func TestF14_CalcActiveNodesSurvivesHostMissingFromSecondSnapshot(t *testing.T) {
	w := seedNewWorld(t, nil, "m", "r1", "r2")
	w.sql["r2"].down = true
	clusterState := w.observe() // first snapshot: r2 still registered, does not answer
	clusterStateDcs := map[string]*nodestate.NodeState{}
	for h, s := range clusterState {
		if h != "r2" { // second snapshot: taken after the registry dropped r2
			clusterStateDcs[h] = s
		}
	}
	old := []string{"m", "r1", "r2"}
	require.NoError(t, w.app.SetActiveNodes(old))
	require.NotPanics(t, func() {
		_, _ = w.app.calcActiveNodes(clusterState, clusterStateDcs, old, "m")
	}, "a host missing from the second state map must not kill the manager")
}
