package app

// Demonstration for finding F13 (C20.NILESCAPE): a host named by the coordination service that is
// not registered any more reaches the optimisation controller as a typed-nil interface and the
// manager dies with a nil pointer dereference at the very start of a switchover / failover.

import (
	"encoding/json"
	"sort"
	"strings"
	"sync"
	"testing"
	"time"

	"github.com/stretchr/testify/require"

	"github.com/yandex/mysync/internal/app/optimization"
	"github.com/yandex/mysync/internal/config"
	"github.com/yandex/mysync/internal/dcs"
	"github.com/yandex/mysync/internal/log"
	"github.com/yandex/mysync/internal/mysql"
)

type f13DCS struct {
	mu   sync.Mutex
	data map[string][]byte
}

func (f *f13DCS) IsConnected() bool                     { return true }
func (f *f13DCS) WaitConnected(time.Duration) bool      { return true }
func (f *f13DCS) Initialize()                           {}
func (f *f13DCS) SetDisconnectCallback(func() error)    {}
func (f *f13DCS) AcquireLock(string) bool               { return true }
func (f *f13DCS) ReleaseLock(string)                    {}
func (f *f13DCS) Close()                                {}
func (f *f13DCS) GetTree(string) (any, error)           { return nil, nil }
func (f *f13DCS) CreateEphemeral(p string, v any) error { return f.Create(p, v) }
func (f *f13DCS) SetEphemeral(p string, v any) error    { return f.Set(p, v) }
func (f *f13DCS) Create(path string, val any) error {
	f.mu.Lock()
	defer f.mu.Unlock()
	if _, ok := f.data[path]; ok {
		return dcs.ErrExists
	}
	b, _ := json.Marshal(val)
	f.data[path] = b
	return nil
}
func (f *f13DCS) Set(path string, val any) error {
	f.mu.Lock()
	defer f.mu.Unlock()
	b, _ := json.Marshal(val)
	f.data[path] = b
	return nil
}
func (f *f13DCS) Get(path string, dest any) error {
	f.mu.Lock()
	defer f.mu.Unlock()
	b, ok := f.data[path]
	if !ok {
		return dcs.ErrNotFound
	}
	if err := json.Unmarshal(b, dest); err != nil {
		return dcs.ErrMalformed
	}
	return nil
}
func (f *f13DCS) Delete(path string) error {
	f.mu.Lock()
	defer f.mu.Unlock()
	delete(f.data, path)
	return nil
}
func (f *f13DCS) GetChildren(path string) ([]string, error) {
	f.mu.Lock()
	defer f.mu.Unlock()
	set := map[string]bool{}
	for k := range f.data {
		if strings.HasPrefix(k, path+"/") {
			set[strings.SplitN(strings.TrimPrefix(k, path+"/"), "/", 2)[0]] = true
		}
	}
	if len(set) == 0 {
		return nil, dcs.ErrNotFound
	}
	var res []string
	for k := range set {
		res = append(res, k)
	}
	sort.Strings(res)
	return res, nil
}

type f13OptDCS struct{ hosts map[string]*optimization.DCSState }

func (f *f13OptDCS) GetHosts() ([]string, error) {
	var out []string
	for h := range f.hosts {
		out = append(out, h)
	}
	return out, nil
}
func (f *f13OptDCS) SetState(h string, v *optimization.DCSState) error { f.hosts[h] = v; return nil }
func (f *f13OptDCS) GetState(h string) (*optimization.DCSState, error) { return f.hosts[h], nil }
func (f *f13OptDCS) DeleteHosts(hs ...string) error {
	for _, h := range hs {
		delete(f.hosts, h)
	}
	return nil
}
func (f *f13OptDCS) CreateHosts(hs ...string) error {
	for _, h := range hs {
		f.hosts[h] = new(optimization.DCSState)
	}
	return nil
}

func f13App(t *testing.T) *App {
	t.Helper()
	logger, _, _, err := log.Open("/dev/null", "fatal", 100, 0)
	require.NoError(t, err)
	cfg, err := config.DefaultConfig()
	require.NoError(t, err)
	cfg.Hostname = "manager-host"
	cfg.MySQL.Port = 1 // nothing listens here
	cfg.DBTimeout = time.Second
	d := &f13DCS{data: map[string][]byte{}}
	// registered: master1 and replica1; replica2 was removed with `mysync host remove` while it was down
	for _, h := range []string{"127.0.0.1", "127.0.0.2"} {
		require.NoError(t, d.Set(dcs.JoinPath(dcs.PathHANodesPrefix, h), mysql.NodeConfiguration{}))
	}
	cluster, err := mysql.NewCluster(&cfg, logger, d)
	require.NoError(t, err)
	t.Cleanup(cluster.Close)
	require.NoError(t, cluster.UpdateHostsInfo())
	require.NotNil(t, cluster.Get("127.0.0.1"))
	require.Nil(t, cluster.Get("127.0.0.3"))
	app := &App{config: &cfg, logger: logger, cluster: cluster}
	app.optController = optimization.NewController(cfg.OptimizationConfig, logger, &f13OptDCS{hosts: map[string]*optimization.DCSState{}}, time.Second)
	return app
}

// The published active list still names 127.0.0.3. performSwitchover starts with
// stopActiveNodeOptimization(oldMaster, activeNodes).
func TestF13_SwitchoverStartSurvivesUnregisteredActiveHost(t *testing.T) {
	app := f13App(t)
	require.NotPanics(t, func() {
		_ = app.stopActiveNodeOptimization("127.0.0.1", []string{"127.0.0.1", "127.0.0.2", "127.0.0.3"})
	}, "an unregistered host in the published active list must not kill the manager")
}

// `mysync switch --to 127.0.0.3` accepted while the host was registered; it is removed before the manager gets to it.
func TestF13_OptimizationPhaseSurvivesUnregisteredTarget(t *testing.T) {
	app := f13App(t)
	var err error
	require.NotPanics(t, func() {
		err = app.optimizeReplicaWithSmallestLag([]string{"127.0.0.2", "127.0.0.3"}, "127.0.0.3", nil)
	}, "a switchover target that is not registered any more must not kill the manager")
	require.Error(t, err)
}
