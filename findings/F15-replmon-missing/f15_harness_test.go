package app

// Offline harness used by the C01 seeded-defect demonstrations.
//
// It lets the REAL switchover procedure (app.performSwitchover and everything below it:
// mysql.Node, mysql.Cluster, mysql.SwitchHelper, appDCS ...) run without MySQL and
// without ZooKeeper:
//
//   - simCluster is a tiny in-process MySQL simulator.  go-sql-driver's dialer for "tcp" is
//     replaced (mysql.RegisterDialContext) by one that hands out net.Pipe connections served
//     by a minimal MySQL wire-protocol server (handshake + COM_QUERY text protocol).  Each
//     simulated node keeps read_only flags, gtid_executed, a replication channel with a relay
//     log (Retrieved_Gtid_Set), semi-sync variables and a repl_mon row.
//   - memDCS is an in-memory implementation of dcs.DCS.
//   - every time a node is made writable (SET GLOBAL read_only = 0) the simulator evaluates
//     property C01 with its own, independent arithmetic and records a violation if it does not
//     hold (see checkPromotion).

import (
	"bytes"
	"context"
	"encoding/json"
	"errors"
	"fmt"
	"io"
	"math"
	"net"
	"os"
	"path/filepath"
	"regexp"
	"sort"
	"strconv"
	"strings"
	"sync"
	"sync/atomic"
	"testing"
	"time"

	gomysql "github.com/go-mysql-org/go-mysql/mysql"
	sqldriver "github.com/go-sql-driver/mysql"
	"github.com/stretchr/testify/require"

	"github.com/yandex/mysync/internal/app/optimization"
	"github.com/yandex/mysync/internal/config"
	"github.com/yandex/mysync/internal/dcs"
	"github.com/yandex/mysync/internal/log"
	"github.com/yandex/mysync/internal/mysql"
	"github.com/yandex/mysync/internal/util"
)

const simUUID = "6dbc0b04-4b09-43dc-86cc-9af852ded919"

func simGTID(interval string) string {
	if interval == "" {
		return ""
	}
	return simUUID + ":" + interval
}

func simParse(s string) gomysql.GTIDSet {
	set, err := gomysql.ParseGTIDSet(gomysql.MySQLFlavor, s)
	if err != nil {
		panic(err)
	}
	return set
}

func simUnion(dst gomysql.GTIDSet, src gomysql.GTIDSet) {
	if s := src.String(); s != "" {
		if err := dst.Update(s); err != nil {
			panic(err)
		}
	}
}

// ---------------------------------------------------------------------------------------
// simulated MySQL node / cluster
// ---------------------------------------------------------------------------------------

type simFault struct {
	errno     uint16
	msg       string
	midResult bool // send the column definitions first and fail when the row should come
}

type simNode struct {
	host  string
	alive bool

	readOnly      bool
	superReadOnly bool
	offline       bool

	executed gomysql.GTIDSet
	everHeld gomysql.GTIDSet // everything this node ever executed or received

	isReplica  bool
	source     string
	ioStarted  bool
	sqlStarted bool
	relay      gomysql.GTIDSet // Retrieved_Gtid_Set of the current relay log
	stallUntil time.Time       // SQL thread does not apply anything before this moment
	lag        float64         // reported Seconds_Behind_Source while replicating

	semiMaster bool
	semiSlave  bool
	waitCount  int

	replMonTS float64 // mysql.mysync_repl_mon.ts as unix time; 0 = no row

	statusCallsSinceIOStop int
	ioStoppedOnce          bool

	// fault is consulted (cluster lock held) before every statement
	fault func(n *simNode, q string) *simFault
}

type simPromotion struct {
	host       string
	violations []string
}

type simCluster struct {
	mu    sync.Mutex
	nodes map[string]*simNode

	// what the independent oracle needs to know
	active         []string // the published active-node list
	semiSync       bool
	cfgWaitCount   int
	async          bool
	autoFailover   bool
	allowedLagSec  float64
	masterLastTS   float64 // newest repl_mon timestamp the (old) master ever wrote
	promotions     []simPromotion
	unknownQueries []string
}

var currentSim atomic.Pointer[simCluster]
var simDialOnce sync.Once

type simNopLogger struct{}

func (simNopLogger) Print(...any) {}

func newSimCluster() *simCluster {
	c := &simCluster{nodes: map[string]*simNode{}}
	simDialOnce.Do(func() {
		_ = sqldriver.SetLogger(simNopLogger{})
		sqldriver.RegisterDialContext("tcp", func(ctx context.Context, addr string) (net.Conn, error) {
			sim := currentSim.Load()
			if sim == nil {
				return nil, errors.New("sim: no simulated cluster installed")
			}
			return sim.dial(addr)
		})
	})
	currentSim.Store(c)
	return c
}

func (c *simCluster) addMaster(host, executed string) *simNode {
	n := &simNode{host: host, alive: true, executed: simParse(executed), everHeld: simParse(executed),
		relay: simParse(""), semiMaster: c.semiSync, waitCount: 1}
	c.nodes[host] = n
	return n
}

func (c *simCluster) addReplica(host, source, executed, retrieved string) *simNode {
	n := &simNode{host: host, alive: true, readOnly: true, superReadOnly: true,
		executed: simParse(executed), everHeld: simParse(executed), relay: simParse(retrieved),
		isReplica: true, source: source, ioStarted: true, sqlStarted: true, semiSlave: c.semiSync, waitCount: 1}
	simUnion(n.everHeld, n.relay)
	c.nodes[host] = n
	return n
}

func (c *simCluster) kill(host string) {
	c.mu.Lock()
	defer c.mu.Unlock()
	c.nodes[host].alive = false
}

func (c *simCluster) violations() []string {
	c.mu.Lock()
	defer c.mu.Unlock()
	var res []string
	for _, p := range c.promotions {
		for _, v := range p.violations {
			res = append(res, fmt.Sprintf("promotion of %s: %s", p.host, v))
		}
	}
	return res
}

func (c *simCluster) promoted() []string {
	c.mu.Lock()
	defer c.mu.Unlock()
	var res []string
	for _, p := range c.promotions {
		res = append(res, p.host)
	}
	return res
}

func (c *simCluster) dial(addr string) (net.Conn, error) {
	host, _, err := net.SplitHostPort(addr)
	if err != nil {
		return nil, err
	}
	c.mu.Lock()
	n := c.nodes[host]
	alive := n != nil && n.alive
	c.mu.Unlock()
	if !alive {
		return nil, &net.OpError{Op: "dial", Net: "tcp", Err: errors.New("connect: connection refused (sim)")}
	}
	cli, srv := net.Pipe()
	go c.serve(n, srv)
	return cli, nil
}

// pump moves transactions along the replication channels (cluster lock held)
func (c *simCluster) pump() {
	hosts := make([]string, 0, len(c.nodes))
	for h := range c.nodes {
		hosts = append(hosts, h)
	}
	sort.Strings(hosts)
	now := time.Now()
	for changed := true; changed; {
		changed = false
		for _, h := range hosts {
			r := c.nodes[h]
			if !r.alive || !r.isReplica {
				continue
			}
			src := c.nodes[r.source]
			if r.ioStarted && src != nil && src.alive && !r.relay.Contain(src.executed) {
				simUnion(r.relay, src.executed)
				changed = true
			}
			if r.sqlStarted && !now.Before(r.stallUntil) && !r.executed.Contain(r.relay) {
				simUnion(r.executed, r.relay)
				changed = true
			}
			simUnion(r.everHeld, r.executed)
			simUnion(r.everHeld, r.relay)
		}
	}
}

// checkPromotion is the independent statement of property C01, evaluated at the very moment a
// node is made writable: at least the failover quorum of the members of the published active
// list must be read-only and must not hold (= have executed or received since they were frozen;
// re-pointing a replica purges its relay log, which is exactly the loss the property is about)
// any transaction the promoted node has not executed.  The only tolerated exception is async
// mode + automatic failover with a real lag below the configured allowed lag.
func (c *simCluster) checkPromotion(p *simNode) {
	n := len(c.active)
	required := 1
	if c.semiSync {
		required = max(n-min(n/2, c.cfgWaitCount), 1)
	}
	asyncException := c.async && c.autoFailover && c.allowedLagSec > 0 &&
		p.replMonTS > 0 && c.masterLastTS-p.replMonTS < c.allowedLagSec
	good := 0
	var details []string
	for _, h := range c.active {
		m := c.nodes[h]
		switch {
		case m == nil || !m.alive:
			details = append(details, h+": unreachable")
		case !m.readOnly:
			details = append(details, h+": not read-only")
		case !p.executed.Contain(m.everHeld) && !asyncException:
			details = append(details, fmt.Sprintf("%s: holds %s, promoted node executed only %s", h, m.everHeld, p.executed))
		default:
			good++
		}
	}
	var violations []string
	if good < required {
		violations = append(violations, fmt.Sprintf(
			"only %d of %d active members are read-only and contained in the promoted node, quorum is %d (%s)",
			good, n, required, strings.Join(details, "; ")))
	}
	c.promotions = append(c.promotions, simPromotion{host: p.host, violations: violations})
}

// ---------------------------------------------------------------------------------------
// statements
// ---------------------------------------------------------------------------------------

type simResult struct {
	cols []string
	rows [][]any // string or nil
}

var (
	reSourceHost = regexp.MustCompile(`SOURCE_HOST = '([^']*)'`)
	reDelay      = regexp.MustCompile(`CAST\('([^']*)' AS DECIMAL`)
	reLastInt    = regexp.MustCompile(`= (\d+)$`)
)

func yesNo(b bool) string {
	if b {
		return "Yes"
	}
	return "No"
}

func b2s(b bool) string {
	if b {
		return "1"
	}
	return "0"
}

// execute returns (result set | nil for OK, fault | nil); cluster lock held
func (c *simCluster) execute(n *simNode, q string) (*simResult, *simFault) {
	c.pump()
	one := func(cols []string, vals ...any) *simResult { return &simResult{cols: cols, rows: [][]any{vals}} }
	switch {
	case q == "SELECT 1 AS Ok":
		return one([]string{"Ok"}, "1"), nil
	case strings.HasPrefix(q, "SELECT sys.version_major()"):
		return one([]string{"MajorVersion", "MinorVersion", "PatchVersion"}, "8", "0", "30"), nil
	case strings.HasPrefix(q, "SELECT @@read_only AS ReadOnly"):
		return one([]string{"ReadOnly", "SuperReadOnly"}, b2s(n.readOnly), b2s(n.superReadOnly)), nil
	case strings.HasPrefix(q, "SET SESSION lock_wait_timeout"):
		return nil, nil
	case q == "SET GLOBAL super_read_only = 1":
		n.readOnly, n.superReadOnly = true, true
		return nil, nil
	case q == "SET GLOBAL read_only = 1, super_read_only = 0":
		n.readOnly, n.superReadOnly = true, false
		return nil, nil
	case q == "SET GLOBAL read_only = 0":
		if n.readOnly {
			c.checkPromotion(n)
		}
		n.readOnly, n.superReadOnly = false, false
		return nil, nil
	case strings.HasPrefix(q, "SELECT @@GLOBAL.offline_mode"):
		return one([]string{"OfflineMode"}, b2s(n.offline)), nil
	case q == "SET GLOBAL offline_mode = ON":
		n.offline = true
		return nil, nil
	case q == "SET GLOBAL offline_mode = OFF":
		n.offline = false
		return nil, nil
	case strings.HasPrefix(q, "SHOW REPLICA STATUS"):
		cols := []string{"Source_Host", "Source_Port", "Source_Log_File", "Read_Source_Log_Pos",
			"Replica_IO_Running", "Replica_SQL_Running", "Last_Error", "Retrieved_Gtid_Set", "Executed_Gtid_Set",
			"Last_IO_Errno", "Last_IO_Error", "Last_SQL_Errno", "Seconds_Behind_Source"}
		if !n.isReplica {
			return &simResult{cols: cols}, nil
		}
		src := c.nodes[n.source]
		io := "No"
		if n.ioStarted {
			io = "Connecting"
			if src != nil && src.alive {
				io = "Yes"
			}
		}
		var lag any
		if io == "Yes" && n.sqlStarted {
			lag = strconv.FormatFloat(n.lag, 'f', -1, 64)
		}
		return one(cols, n.source, "3306", "mysql-bin.000001", "4", io, yesNo(n.sqlStarted), "",
			n.relay.String(), n.executed.String(), "0", "", "0", lag), nil
	case strings.HasPrefix(q, "SELECT @@GLOBAL.innodb_flush_log_at_trx_commit"):
		return one([]string{"InnodbFlushLogAtTrxCommit", "SyncBinlog"}, "1", "1"), nil
	case strings.HasPrefix(q, "SELECT @@GLOBAL.gtid_executed"):
		return one([]string{"Executed_Gtid_Set"}, n.executed.String()), nil
	case strings.HasPrefix(q, "SELECT @@server_uuid"):
		return one([]string{"server_uuid"}, simUUID), nil
	case strings.HasPrefix(q, "SELECT @@rpl_semi_sync_master_enabled"):
		return one([]string{"MasterEnabled", "SlaveEnabled", "WaitSlaveCount"}, b2s(n.semiMaster), b2s(n.semiSlave), strconv.Itoa(n.waitCount)), nil
	case q == "SET GLOBAL rpl_semi_sync_master_enabled = 1, rpl_semi_sync_slave_enabled = 0":
		n.semiMaster, n.semiSlave = true, false
		return nil, nil
	case q == "SET GLOBAL rpl_semi_sync_slave_enabled = 1, rpl_semi_sync_master_enabled = 0":
		n.semiMaster, n.semiSlave = false, true
		return nil, nil
	case q == "SET GLOBAL rpl_semi_sync_slave_enabled = 0, rpl_semi_sync_master_enabled = 0":
		n.semiMaster, n.semiSlave = false, false
		return nil, nil
	case strings.HasPrefix(q, "SET GLOBAL rpl_semi_sync_master_wait_for_slave_count"):
		if m := reLastInt.FindStringSubmatch(q); m != nil {
			n.waitCount, _ = strconv.Atoi(m[1])
		}
		return nil, nil
	case strings.HasPrefix(q, "SET GLOBAL innodb_flush_log_at_trx_commit"), strings.HasPrefix(q, "SET GLOBAL sync_binlog"):
		return nil, nil
	case strings.HasPrefix(q, "STOP REPLICA IO_THREAD"):
		n.ioStarted = false
		n.ioStoppedOnce = true
		n.statusCallsSinceIOStop = 0
		return nil, nil
	case strings.HasPrefix(q, "START REPLICA IO_THREAD"):
		n.ioStarted = true
		c.pump()
		return nil, nil
	case strings.HasPrefix(q, "STOP REPLICA SQL_THREAD"):
		n.sqlStarted = false
		return nil, nil
	case strings.HasPrefix(q, "START REPLICA SQL_THREAD"):
		n.sqlStarted = true
		c.pump()
		return nil, nil
	case strings.HasPrefix(q, "STOP REPLICA FOR CHANNEL"):
		n.ioStarted, n.sqlStarted = false, false
		return nil, nil
	case strings.HasPrefix(q, "START REPLICA FOR CHANNEL"):
		if !n.isReplica {
			return nil, &simFault{errno: 1200, msg: "The server is not configured as replica"}
		}
		n.ioStarted, n.sqlStarted = true, true
		c.pump()
		return nil, nil
	case strings.HasPrefix(q, "RESET REPLICA ALL"):
		n.isReplica, n.source, n.ioStarted, n.sqlStarted = false, "", false, false
		n.relay = simParse("")
		return nil, nil
	case strings.HasPrefix(q, "CHANGE REPLICATION SOURCE TO"):
		if n.ioStarted || n.sqlStarted {
			return nil, &simFault{errno: 3021, msg: "This operation cannot be performed with a running replica io thread"}
		}
		m := reSourceHost.FindStringSubmatch(q)
		if m == nil {
			return nil, &simFault{errno: 1064, msg: "sim: cannot parse CHANGE REPLICATION SOURCE"}
		}
		n.isReplica, n.source = true, m[1]
		n.relay = simParse("") // relay logs are purged, received-but-unapplied transactions are gone
		return nil, nil
	case q == "SHOW BINARY LOGS":
		return one([]string{"Log_name", "File_size"}, "mysql-bin.000001", "4"), nil
	case strings.HasPrefix(q, "SELECT EVENT_SCHEMA, EVENT_NAME, DEFINER FROM information_schema.EVENTS"):
		return &simResult{cols: []string{"EVENT_SCHEMA", "EVENT_NAME", "DEFINER"}}, nil
	case strings.HasPrefix(q, "SELECT UNIX_TIMESTAMP(ts) AS ts FROM"):
		if n.replMonTS == 0 {
			return &simResult{cols: []string{"ts"}}, nil
		}
		return one([]string{"ts"}, strconv.FormatFloat(n.replMonTS, 'f', 3, 64)), nil
	case strings.HasPrefix(q, "SELECT FLOOR(CAST("):
		if n.replMonTS == 0 {
			return &simResult{cols: []string{"delay"}}, nil
		}
		m := reDelay.FindStringSubmatch(q)
		if m == nil {
			return nil, &simFault{errno: 1064, msg: "sim: cannot parse repl_mon delay query"}
		}
		ts, _ := strconv.ParseFloat(m[1], 64) // CAST('' AS DECIMAL) is 0 in MySQL as well
		return one([]string{"delay"}, strconv.FormatInt(int64(math.Floor(ts-n.replMonTS)), 10)), nil
	case strings.HasPrefix(q, "SELECT count(*) <> 0 AS IsWaiting"):
		return one([]string{"IsWaiting"}, "0"), nil
	}
	c.unknownQueries = append(c.unknownQueries, n.host+": "+q)
	return nil, &simFault{errno: 1064, msg: "sim: unsupported statement: " + q}
}

// ---------------------------------------------------------------------------------------
// minimal MySQL wire protocol server
// ---------------------------------------------------------------------------------------

func simLenInt(b []byte, v uint64) []byte {
	switch {
	case v < 251:
		return append(b, byte(v))
	case v < 1<<16:
		return append(b, 0xfc, byte(v), byte(v>>8))
	case v < 1<<24:
		return append(b, 0xfd, byte(v), byte(v>>8), byte(v>>16))
	}
	return append(b, 0xfe, byte(v), byte(v>>8), byte(v>>16), byte(v>>24), byte(v>>32), byte(v>>40), byte(v>>48), byte(v>>56))
}

func simLenStr(b []byte, s string) []byte {
	return append(simLenInt(b, uint64(len(s))), s...)
}

type simWire struct {
	buf bytes.Buffer
	seq byte
}

func (w *simWire) packet(payload []byte) {
	n := len(payload)
	w.buf.Write([]byte{byte(n), byte(n >> 8), byte(n >> 16), w.seq})
	w.buf.Write(payload)
	w.seq++
}

func (w *simWire) ok()  { w.packet([]byte{0x00, 0x00, 0x00, 0x02, 0x00, 0x00, 0x00}) }
func (w *simWire) eof() { w.packet([]byte{0xfe, 0x00, 0x00, 0x02, 0x00}) }
func (w *simWire) err(f *simFault) {
	p := []byte{0xff, byte(f.errno), byte(f.errno >> 8), '#'}
	p = append(p, "HY000"...)
	p = append(p, f.msg...)
	w.packet(p)
}

func (w *simWire) result(rs *simResult, midFault *simFault) {
	w.packet(simLenInt(nil, uint64(len(rs.cols))))
	for _, col := range rs.cols {
		var p []byte
		p = simLenStr(p, "def")
		p = simLenStr(p, "")
		p = simLenStr(p, "")
		p = simLenStr(p, "")
		p = simLenStr(p, col)
		p = simLenStr(p, col)
		p = append(p, 0x0c, 45, 0, 0, 4, 0, 0, 0xfd, 0, 0, 0, 0, 0)
		w.packet(p)
	}
	w.eof()
	if midFault != nil {
		w.err(midFault)
		return
	}
	for _, row := range rs.rows {
		var p []byte
		for _, v := range row {
			if v == nil {
				p = append(p, 0xfb)
			} else {
				p = simLenStr(p, v.(string))
			}
		}
		w.packet(p)
	}
	w.eof()
}

func simReadPacket(r io.Reader) ([]byte, error) {
	var hdr [4]byte
	if _, err := io.ReadFull(r, hdr[:]); err != nil {
		return nil, err
	}
	payload := make([]byte, int(hdr[0])|int(hdr[1])<<8|int(hdr[2])<<16)
	_, err := io.ReadFull(r, payload)
	return payload, err
}

func (c *simCluster) serve(n *simNode, conn net.Conn) {
	defer conn.Close()
	w := &simWire{}
	flush := func() bool {
		_, err := conn.Write(w.buf.Bytes())
		w.buf.Reset()
		return err == nil
	}
	// CLIENT_LONG_PASSWORD | LONG_FLAG | PROTOCOL_41 | TRANSACTIONS | SECURE_CONNECTION | PLUGIN_AUTH
	caps := uint32(0x1 | 0x4 | 0x200 | 0x2000 | 0x8000 | 0x80000)
	hs := []byte{10}
	hs = append(hs, "8.0.30-sim\x00"...)
	hs = append(hs, 1, 0, 0, 0)
	hs = append(hs, "abcdefgh"...)
	hs = append(hs, 0)
	hs = append(hs, byte(caps), byte(caps>>8))
	hs = append(hs, 45, 2, 0)
	hs = append(hs, byte(caps>>16), byte(caps>>24))
	hs = append(hs, 21)
	hs = append(hs, make([]byte, 10)...)
	hs = append(hs, "ijklmnopqrst\x00"...)
	hs = append(hs, "mysql_native_password\x00"...)
	w.packet(hs)
	if !flush() {
		return
	}
	if _, err := simReadPacket(conn); err != nil {
		return
	}
	w.seq = 2
	w.ok()
	if !flush() {
		return
	}
	for {
		p, err := simReadPacket(conn)
		if err != nil || len(p) == 0 {
			return
		}
		w.seq = 1
		switch p[0] {
		case 0x01: // COM_QUIT
			return
		case 0x0e, 0x02: // COM_PING, COM_INIT_DB
			w.ok()
		case 0x03: // COM_QUERY
			q := strings.Join(strings.Fields(string(p[1:])), " ")
			c.mu.Lock()
			alive := n.alive
			var rs *simResult
			var fault *simFault
			if alive {
				if strings.HasPrefix(q, "SHOW REPLICA STATUS") && n.ioStoppedOnce {
					n.statusCallsSinceIOStop++
				}
				if n.fault != nil {
					fault = n.fault(n, q)
				}
				if fault == nil || fault.midResult {
					var f2 *simFault
					rs, f2 = c.execute(n, q)
					if f2 != nil {
						fault = f2
					}
				}
			}
			c.mu.Unlock()
			switch {
			case !alive:
				return // server went away
			case fault != nil && fault.midResult && rs != nil:
				w.result(rs, fault)
			case fault != nil:
				w.err(fault)
			case rs != nil:
				w.result(rs, nil)
			default:
				w.ok()
			}
		default:
			w.err(&simFault{errno: 1047, msg: "sim: unknown command"})
		}
		if !flush() {
			return
		}
	}
}

// ---------------------------------------------------------------------------------------
// in-memory DCS
// ---------------------------------------------------------------------------------------

type memDCS struct {
	mu   sync.Mutex
	data map[string][]byte
}

func newMemDCS() *memDCS { return &memDCS{data: map[string][]byte{}} }

func (d *memDCS) IsConnected() bool                  { return true }
func (d *memDCS) WaitConnected(time.Duration) bool   { return true }
func (d *memDCS) Initialize()                        {}
func (d *memDCS) SetDisconnectCallback(func() error) {}
func (d *memDCS) AcquireLock(string) bool            { return true }
func (d *memDCS) ReleaseLock(string)                 {}
func (d *memDCS) Close()                             {}
func (d *memDCS) GetTree(string) (any, error)        { return nil, nil }

func (d *memDCS) Create(path string, value any) error {
	d.mu.Lock()
	defer d.mu.Unlock()
	if _, ok := d.data[path]; ok {
		return dcs.ErrExists
	}
	data, err := json.Marshal(value)
	if err != nil {
		return err
	}
	d.data[path] = data
	return nil
}

func (d *memDCS) CreateEphemeral(path string, value any) error { return d.Create(path, value) }

func (d *memDCS) Set(path string, value any) error {
	d.mu.Lock()
	defer d.mu.Unlock()
	data, err := json.Marshal(value)
	if err != nil {
		return err
	}
	d.data[path] = data
	return nil
}

func (d *memDCS) SetEphemeral(path string, value any) error { return d.Set(path, value) }

func (d *memDCS) Get(path string, dest any) error {
	d.mu.Lock()
	data, ok := d.data[path]
	d.mu.Unlock()
	if !ok {
		return dcs.ErrNotFound
	}
	if err := json.Unmarshal(data, dest); err != nil {
		return dcs.ErrMalformed
	}
	return nil
}

func (d *memDCS) Delete(path string) error {
	d.mu.Lock()
	defer d.mu.Unlock()
	delete(d.data, path)
	return nil
}

func (d *memDCS) GetChildren(path string) ([]string, error) {
	d.mu.Lock()
	defer d.mu.Unlock()
	_, exists := d.data[path]
	seen := map[string]bool{}
	for k := range d.data {
		if rest, ok := strings.CutPrefix(k, path+"/"); ok {
			seen[strings.SplitN(rest, "/", 2)[0]] = true
		}
	}
	if !exists && len(seen) == 0 {
		return nil, dcs.ErrNotFound
	}
	res := make([]string, 0, len(seen))
	for k := range seen {
		res = append(res, k)
	}
	sort.Strings(res)
	return res, nil
}

// ---------------------------------------------------------------------------------------
// application wiring
// ---------------------------------------------------------------------------------------

type nopOptimization struct{}

func (nopOptimization) Wait(context.Context, optimization.Node) error           { return nil }
func (nopOptimization) Enable(optimization.Node) error                          { return nil }
func (nopOptimization) Disable(optimization.Node, optimization.Node) error      { return nil }
func (nopOptimization) DisableAll(optimization.Node, []optimization.Node) error { return nil }
func (nopOptimization) Sync(optimization.Cluster) error                         { return nil }

func simConfig(t *testing.T) *config.Config {
	t.Helper()
	cfg, err := config.DefaultConfig()
	require.NoError(t, err)
	dir := t.TempDir()
	cfg.Hostname = "manager.sim"
	cfg.MySQL.User = "admin"
	cfg.MySQL.Password = "admin-password"
	cfg.MySQL.ReplicationUser = "repl"
	cfg.MySQL.ReplicationPassword = "repl-password"
	cfg.DSNSettings = "?interpolateParams=true"
	cfg.Emergefile = filepath.Join(dir, "mysync.emerge")
	cfg.Resetupfile = filepath.Join(dir, "mysync.resetup")
	cfg.Maintenancefile = filepath.Join(dir, "mysync.maintenance")
	cfg.DBTimeout = 2 * time.Second
	cfg.DBSetRoTimeout = 2 * time.Second
	cfg.DBSetRoForceTimeout = 2 * time.Second
	cfg.DBStopSlaveSQLThreadTimeout = 2 * time.Second
	cfg.WaitReplicationStartTimeout = time.Second
	cfg.SlaveCatchUpTimeout = time.Second
	cfg.Failover = true
	return &cfg
}

// newSimApp wires a real *App to the simulated MySQL cluster and the in-memory DCS
func newSimApp(t *testing.T, cfg *config.Config, sim *simCluster, d *memDCS, master string, active []string) *App {
	t.Helper()
	level, path := "fatal", "/dev/null"
	if os.Getenv("SEED_DEMO_DEBUG") != "" {
		level, path = "debug", ""
	}
	logger, closer, _, err := log.Open(path, level, 10000, 10*time.Millisecond)
	require.NoError(t, err)
	t.Cleanup(func() { _ = closer.Close() })

	for host := range sim.nodes {
		require.NoError(t, d.Set(dcs.JoinPath(dcs.PathHANodesPrefix, host), mysql.NodeConfiguration{}))
	}
	require.NoError(t, d.Set(pathMasterNode, master))
	require.NoError(t, d.Set(pathActiveNodes, active))

	sim.active = active
	sim.semiSync = cfg.SemiSync
	sim.cfgWaitCount = cfg.RplSemiSyncMasterWaitForSlaveCount
	sim.async = cfg.ASync
	sim.allowedLagSec = cfg.AsyncAllowedLag.Seconds()

	cluster, err := mysql.NewCluster(cfg, logger, d)
	require.NoError(t, err)
	require.NoError(t, cluster.UpdateHostsInfo())
	t.Cleanup(cluster.Close)
	extRepl, err := mysql.NewExternalReplication(util.Disabled, logger, "")
	require.NoError(t, err)

	return &App{
		state:               stateManager,
		config:              cfg,
		logger:              logger,
		dcs:                 d,
		appDCS:              NewAppDCS(d, cfg, logger),
		cluster:             cluster,
		t:                   NewTimings(),
		replRepairState:     make(map[string]*ReplicationRepairState),
		slaveReadPositions:  make(map[string]string),
		externalReplication: extRepl,
		switchHelper:        mysql.NewSwitchHelper(cfg),
		optController:       nopOptimization{},
		optSyncer:           nopOptimization{},
		offlineModeFilter:   NewOfflineModeFilter(cfg, logger),
	}
}

// runAutoFailover does what stateManager does once a failover of `master` has been approved:
// it records the failover request in DCS and runs the real switchover procedure.
func runAutoFailover(t *testing.T, app *App, sim *simCluster, master string, active []string) error {
	t.Helper()
	sim.mu.Lock()
	sim.autoFailover = true
	sim.mu.Unlock()
	clusterState := app.getClusterStateFromDB()
	require.NoError(t, app.IssueFailover(master))
	sw := new(Switchover)
	require.NoError(t, app.GetCurrentSwitchover(sw))
	require.NoError(t, app.StartSwitchover(sw))
	err := app.performSwitchover(clusterState, active, sw, master)
	if os.Getenv("SEED_DEMO_DEBUG") != "" {
		t.Logf("performSwitchover returned: %v; promoted: %v; unknown statements: %v", err, sim.promoted(), sim.unknownQueries)
	}
	return err
}
