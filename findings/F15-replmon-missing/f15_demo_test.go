package app

// Demonstration for finding F15 (C01.g8b): the async escape hatch opens on a lag that was never measured.
// appDCS.GetReplMonTS answers ("", nil) when the key master_repl_mon_ts does not exist; CheckAsyncSwitchAllowed
// hands the empty string to the delay query, CAST('' AS DECIMAL(20,3)) is 0 in MySQL, the "delay" becomes
// minus the replica's own repl_mon timestamp — hugely negative — and `delay < async_allowed_lag` is true.
// The key is written by the manager at the end of a healthy iteration only; a master that dies before the
// first such iteration of a new cluster (or after the key was lost) is failed over without any catch-up.
//
// Harness: f15_harness_test.go, written by the seeding agent for C01-r2-3 (real performSwitchover,
// waitForCatchUp, CheckAsyncSwitchAllowed, mysql.Node/Cluster, appDCS over an in-memory coordination service and
// in-process MySQL simulators; its oracle evaluates C01 at every SET GLOBAL read_only = 0).

import (
	"testing"
	"time"

	"github.com/stretchr/testify/require"
)

func TestF15_AsyncFailoverWithoutPublishedTimestampMustStillCatchUp(t *testing.T) {
	cfg := simConfig(t)
	cfg.SemiSync = false
	cfg.ASync = true
	cfg.ReplMon = true
	cfg.AsyncAllowedLag = 10 * time.Second
	cfg.SlaveCatchUpTimeout = time.Second

	sim := newSimCluster()
	sim.addMaster("mysql1", simGTID("1-100"))
	r := sim.addReplica("mysql2", "mysql1", simGTID("1-50"), simGTID("1-100")) // received 1-100, applied 1-50
	r.stallUntil = time.Now().Add(time.Hour)
	r.lag = 3600
	r.replMonTS = 1_790_000_000.0 - 3600 // its replicated repl_mon row is an hour old

	active := []string{"mysql1", "mysql2"}
	app := newSimApp(t, cfg, sim, newMemDCS(), "mysql1", active)
	// no manager iteration ever reached updateReplMonTS: the key does not exist
	ts, err := app.GetReplMonTS()
	require.NoError(t, err)
	require.Equal(t, "", ts)

	sim.kill("mysql1")
	err = runAutoFailover(t, app, sim, "mysql1", active)
	t.Logf("performSwitchover error: %v, promoted: %v", err, sim.promoted())
	require.Empty(t, sim.unknownQueries)
	require.Empty(t, sim.violations(), "property C01 violated")
	require.Empty(t, sim.promoted(), "a replica an hour behind, with an unmeasured lag, must not be promoted before it applied what it received")
}
