#!/usr/bin/env python3
"""Confirms an independently produced seeded defect and runs the checks against it.

usage: eval_seed.py <seed dir with patch.diff, demo/, README.md> <property> [--keep <name>]

In a scratch worktree of /repo (under /tmp, removed afterwards):
  1. clean tree + demo: the demo's packages' tests pass;
  2. clean tree + patch: builds, vets, the EXISTING tests pass;
  3. patch + demo: the demo fails;
  4. the property's quick check (and, with --all, every check) is run against the patched tree.
With --keep the seed is stored as /verif/seeded/<name>/ (patch.diff, demo/, meta.json)."""
import json, os, shutil, subprocess, sys, re, tempfile

VERIF = "/verif"
ENV = dict(os.environ, GOFLAGS="-mod=mod", GOPROXY="off", GOWORK="off")
for k in ("GOTOOLCHAIN", "GOSUMDB"):
    ENV.pop(k, None)


def sh(cmd, cwd=None, env=None, timeout=1200):
    return subprocess.run(cmd, shell=True, cwd=cwd, env=env or ENV, capture_output=True, text=True, errors="replace", timeout=timeout)


def main():
    seed, prop = sys.argv[1], sys.argv[2]
    keep = None
    allp = "--all" in sys.argv
    if "--keep" in sys.argv:
        keep = sys.argv[sys.argv.index("--keep") + 1]
    summary = sys.argv[sys.argv.index("--summary") + 1] if "--summary" in sys.argv else None
    needs = sys.argv[sys.argv.index("--needs") + 1] if "--needs" in sys.argv else None
    patch = os.path.join(seed, "patch.diff")
    demo = os.path.join(seed, "demo")
    out = {"seed": seed, "property": prop}
    wt = tempfile.mkdtemp(prefix="mysync-seedeval-")
    os.rmdir(wt)
    r = sh(f"git -C /repo worktree add --detach {wt} HEAD")
    if r.returncode != 0:
        print(r.stderr)
        sys.exit(2)
    try:
        demo_files = []
        for root, _, files in os.walk(demo):
            for f in files:
                rel = os.path.relpath(os.path.join(root, f), demo)
                demo_files.append(rel)
        pkgs = sorted({"./" + os.path.dirname(f) for f in demo_files if f.endswith(".go")})
        out["demo_files"] = demo_files

        def put_demo():
            for f in demo_files:
                dst = os.path.join(wt, f)
                os.makedirs(os.path.dirname(dst), exist_ok=True)
                shutil.copy(os.path.join(demo, f), dst)

        def rm_demo():
            for f in demo_files:
                p = os.path.join(wt, f)
                if os.path.exists(p):
                    os.remove(p)

        test_cmd = "go test -vet=off -count=1 " + ("-race " if "--race" in sys.argv else "") + " ".join(pkgs) if pkgs else None
        # 1 clean + demo
        put_demo()
        if test_cmd:
            r = sh(test_cmd, cwd=wt)
            out["demo_on_clean"] = "pass" if r.returncode == 0 else "FAIL"
            if r.returncode != 0:
                out["demo_on_clean_output"] = r.stdout[-1500:] + r.stderr[-500:]
        rm_demo()
        # 2 patch
        r = sh(f"git apply {patch}", cwd=wt)
        out["patch_applies"] = r.returncode == 0
        if r.returncode != 0:
            out["apply_error"] = r.stderr[-500:]
            print(json.dumps(out, indent=1))
            return
        r = sh("go build ./... && go vet ./internal/... ./cmd/...", cwd=wt)
        out["build_vet"] = "pass" if r.returncode == 0 else "FAIL"
        if r.returncode != 0:
            out["build_output"] = r.stderr[-800:]
        r = sh("go test -vet=off -count=1 ./internal/... ./cmd/...", cwd=wt)
        out["existing_tests_with_patch"] = "pass" if r.returncode == 0 else "FAIL"
        if r.returncode != 0:
            out["existing_tests_output"] = r.stdout[-1200:]
        # 3 patch + demo
        put_demo()
        if test_cmd:
            r = sh(test_cmd, cwd=wt)
            out["demo_with_patch"] = "fail (as required)" if r.returncode != 0 else "PASSES (demo does not show the defect)"
        rm_demo()
        # 4 checks
        props = [prop]
        if allp:
            props = [json.loads(l)["id"] for l in open(os.path.join(VERIF, "properties.jsonl"))]
        vdir = tempfile.mkdtemp(prefix="mysync-seedeval-verif-")
        shutil.copy(os.path.join(VERIF, "known_findings.json"), vdir)
        fired_all = {}
        for pr in props:
            r = sh(f"timeout 600 {VERIF}/bin/mysyncsa check {pr}", env=dict(ENV, MYSYNC_REPO=wt, VERIF_DIR=vdir))
            fired = sorted(set(re.findall(r"^(?:VIOLATION|UNDECIDED|ANCHOR-UNRESOLVED|VACUOUS) (C\d+\.\S+)", r.stdout, re.M)))
            fired_all[pr] = {"exit": r.returncode, "fired": fired}
            if pr == prop:
                out["check_detail"] = [l for l in r.stdout.splitlines() if l.startswith(("VIOLATION C", "    expected"))][:8]
        shutil.rmtree(vdir, ignore_errors=True)
        out["checks"] = fired_all
        out["caught"] = any(v["exit"] == 1 for v in fired_all.values())
        ok = out.get("demo_on_clean") == "pass" and out.get("build_vet") == "pass" and out.get("existing_tests_with_patch") == "pass" and str(out.get("demo_with_patch", "")).startswith("fail")
        out["confirmed"] = ok
        if keep and ok:
            dst = os.path.join(VERIF, "seeded", keep)
            if os.path.exists(dst):
                shutil.rmtree(dst)
            os.makedirs(dst)
            shutil.copy(patch, dst)
            if os.path.isdir(demo):
                shutil.copytree(demo, os.path.join(dst, "demo"))
            if os.path.exists(os.path.join(seed, "README.md")):
                shutil.copy(os.path.join(seed, "README.md"), os.path.join(dst, "README.md"))
            meta = {
                "property": prop,
                "source": "independent sub-agent given only the property text and a scratch worktree",
                "summary": summary or "see README.md",
                "needs_to_manifest": needs or "see README.md",
                "what_was_run": ["demo on clean tree: pass", "git apply patch.diff; go build ./... && go vet: pass", "existing tests (go test -vet=off -count=1 ./internal/... ./cmd/...) with patch: pass",
                                 "demo with patch: fails", "mysyncsa check against the patched tree"],
                "caught_by_properties": [p for p, v in fired_all.items() if v["exit"] == 1],
                "fired_rules": {p: v["fired"] for p, v in fired_all.items() if v["fired"]},
                "expected": "caught" if out["caught"] else "missed",
            }
            json.dump(meta, open(os.path.join(dst, "meta.json"), "w"), indent=1)
            out["kept_as"] = dst
    finally:
        sh(f"git -C /repo worktree remove --force {wt}")
        shutil.rmtree(wt, ignore_errors=True)
    print(json.dumps(out, indent=1))


if __name__ == "__main__":
    main()
