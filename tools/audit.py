#!/usr/bin/env python3
"""Mutation-sensitivity audit (thorough tier, engine E9 of DESIGN.md).

For one property: every mutant of the committed corpus (tools/mutants/*.json: hand-written textual
mutations, seeded/*/patch.diff: independently produced defects) is applied to a scratch copy of /repo's
CURRENT working tree, the copy is compiled, and the property's quick check is run against it. The rule set
must fire (exit 1). Mutants that cannot be located on an edited tree or do not compile are skipped, never
failed. Results are merged into /verif/evidence/<prop>.json under coverage.mutation_audit.

The audit never decides the property: a surviving mutant is a blind spot of the rule set, recorded in the
evidence, not a violation of the tree. Scratch copies live under $TMPDIR and are removed at the end.
"""
import json, os, shutil, subprocess, sys, tempfile, glob, re
from concurrent.futures import ThreadPoolExecutor

VERIF = os.path.dirname(os.path.dirname(os.path.abspath(__file__)))
REPO = os.environ.get("MYSYNC_REPO", "/repo")
ENV = dict(os.environ, GOFLAGS="-mod=mod", GOPROXY="off", GOWORK="off")
for k in ("GOTOOLCHAIN", "GOSUMDB"):
    ENV.pop(k, None)


def sh(cmd, cwd=None, env=None, timeout=600):
    return subprocess.run(cmd, shell=True, cwd=cwd, env=env or ENV, capture_output=True, text=True, errors="replace", timeout=timeout)


def load_mutants(prop):
    muts = []
    for f in sorted(glob.glob(os.path.join(VERIF, "tools/mutants/*.json"))):
        for i, m in enumerate(json.load(open(f))):
            if m["property"] == prop:
                m = dict(m, id=f"{os.path.basename(f)}#{i}", kind="text")
                muts.append(m)
    for d in sorted(glob.glob(os.path.join(VERIF, "seeded/*/"))):
        meta_p = os.path.join(d, "meta.json")
        patch = os.path.join(d, "patch.diff")
        if not (os.path.exists(meta_p) and os.path.exists(patch)):
            continue
        meta = json.load(open(meta_p))
        props = meta.get("caught_by_properties") or [meta.get("property")]
        if prop in props or meta.get("property") == prop:
            muts.append({"id": "seeded/" + os.path.basename(d.rstrip("/")), "kind": "patch", "patch": patch, "property": prop,
                         "expected": meta.get("expected", "caught")})
    return muts


def make_copy(base):
    d = tempfile.mkdtemp(prefix="mysyncsa-audit-")
    sh(f"rsync -a --exclude .git --exclude SEEDS {base}/ {d}/")
    return d


def run_one(copy, vdir, prop, m):
    res = {"id": m["id"], "kind": m["kind"]}
    touched = {}
    try:
        if m["kind"] == "text":
            path = os.path.join(copy, m["file"])
            if not os.path.exists(path):
                res["status"] = "not-located"
                return res
            s = open(path).read()
            n = s.count(m["old"])
            cnt = m.get("count", 1)
            if n == 0 or (cnt == 1 and n != 1) or n < cnt:
                res["status"] = "not-located"
                return res
            touched[path] = s
            if cnt > 1:
                idx = -1
                for _ in range(cnt):
                    idx = s.find(m["old"], idx + 1)
                s2 = s[:idx] + m["new"] + s[idx + len(m["old"]):]
            else:
                s2 = s.replace(m["old"], m["new"])
            open(path, "w").write(s2)
            res["file"] = m["file"]
        else:
            # remember every file the patch touches
            files = re.findall(r"^\+\+\+ b/(\S+)", open(m["patch"]).read(), re.M)
            for f in files:
                p = os.path.join(copy, f)
                touched[p] = open(p).read() if os.path.exists(p) else None
            r = sh(f"patch -p1 --no-backup-if-mismatch -s < {m['patch']}", cwd=copy)
            if r.returncode != 0:
                res["status"] = "not-located"
                return res
        b = sh("go build ./...", cwd=copy)
        if b.returncode != 0:
            res["status"] = "does-not-compile"
            return res
        env = dict(ENV, MYSYNC_REPO=copy, VERIF_DIR=vdir)
        r = sh(f"timeout 600 {VERIF}/bin/mysyncsa check {prop}", env=env)
        fired = sorted(set(re.findall(r"^(?:VIOLATION|UNDECIDED|ANCHOR-UNRESOLVED|VACUOUS) (C\d+\.\S+)", r.stdout, re.M)))
        res["exit"] = r.returncode
        res["fired"] = fired
        res["status"] = "killed" if r.returncode == 1 else ("broken" if r.returncode == 2 else "survived")
        if m.get("expected") == "silent":
            # behaviour-preserving rewrite: the check must NOT fire
            res["status"] = "silent-ok" if r.returncode == 0 else "false-alarm"
        return res
    finally:
        for p, s in touched.items():
            if s is None:
                if os.path.exists(p):
                    os.remove(p)
            else:
                open(p, "w").write(s)


def main():
    prop = sys.argv[1]
    muts = load_mutants(prop)
    workers = max(1, min(int(os.environ.get("AUDIT_WORKERS", "6")), len(muts)))
    copies = []
    vdir = tempfile.mkdtemp(prefix="mysyncsa-audit-verif-")
    results = []
    try:
        if muts:
            shutil.copy(os.path.join(VERIF, "known_findings.json"), vdir)
            base = make_copy(REPO)
            copies.append(base)
            for _ in range(workers - 1):
                copies.append(make_copy(base))
            # warm the build cache once
            sh("go build ./...", cwd=base)
            chunks = [muts[i::workers] for i in range(workers)]

            def work(i):
                out = []
                for m in chunks[i]:
                    try:
                        out.append(run_one(copies[i], os.path.join(vdir, str(i)), prop, m))
                    except Exception as e:  # noqa
                        out.append({"id": m["id"], "status": "error", "error": str(e)})
                return out

            for i in range(workers):
                os.makedirs(os.path.join(vdir, str(i)), exist_ok=True)
                shutil.copy(os.path.join(VERIF, "known_findings.json"), os.path.join(vdir, str(i)))
            with ThreadPoolExecutor(max_workers=workers) as ex:
                for out in ex.map(work, range(workers)):
                    results.extend(out)
    finally:
        for c in copies:
            shutil.rmtree(c, ignore_errors=True)
        shutil.rmtree(vdir, ignore_errors=True)
    results.sort(key=lambda r: r["id"])
    stat = lambda s: sum(1 for r in results if r.get("status") == s)
    located = [r for r in results if r.get("status") in ("killed", "survived", "broken")]
    equiv = [r for r in results if r.get("status") in ("silent-ok", "false-alarm")]
    audit = {
        "corpus": len(muts),
        "located_and_compiling": len(located),
        "killed": stat("killed"),
        "survived": [r for r in results if r.get("status") == "survived"],
        "analysis_broken": [r for r in results if r.get("status") == "broken"],
        "not_located": stat("not-located"),
        "does_not_compile": stat("does-not-compile"),
        "behaviour_preserving_rewrites": {"tried": len(equiv), "silent": sum(1 for r in equiv if r["status"] == "silent-ok"), "false_alarms": [r for r in equiv if r["status"] == "false-alarm"]},
        "killed_by_rule": {},
        "samples": [r for r in results if r.get("status") == "killed"][:5],
        "note": "each mutant is applied to a scratch copy of /repo's current working tree; 'killed' = the property's quick check exits 1 on the mutated copy; skipped mutants (not located / not compiling) are not failures",
    }
    for r in results:
        for f in r.get("fired", []):
            audit["killed_by_rule"][f] = audit["killed_by_rule"].get(f, 0) + 1
    evp = os.path.join(VERIF, "evidence", prop + ".json")
    ev = json.load(open(evp))
    ev["coverage"]["mutation_audit"] = audit
    json.dump(ev, open(evp, "w"), indent=1, ensure_ascii=False)
    print(f"mutation audit {prop}: corpus={audit['corpus']} located={audit['located_and_compiling']} killed={audit['killed']} survived={len(audit['survived'])} broken={len(audit['analysis_broken'])}")
    for r in audit["survived"]:
        print("  SURVIVOR", r["id"], r.get("file", ""))
    for r in audit["behaviour_preserving_rewrites"]["false_alarms"]:
        print("  FALSE-ALARM on behaviour-preserving rewrite", r["id"], r.get("fired"))


if __name__ == "__main__":
    main()
