#!/usr/bin/env python3
"""Re-runs the checks against every kept seeded change (seeded/*/patch.diff) with the CURRENT checker and
refreshes seeded/*/meta.json (caught_by_properties, fired_rules, expected) and the notes of tools/seed_notes.json.

usage: refresh_seeds.py [--all-props] [seed ...]
Each patch is applied to a scratch copy of /repo's working tree (under $TMPDIR, removed afterwards); by default the
seed's own property and every property that caught it before are run, with --all-props all twenty."""
import glob, json, os, re, shutil, subprocess, sys, tempfile
from concurrent.futures import ThreadPoolExecutor

VERIF = os.path.dirname(os.path.dirname(os.path.abspath(__file__)))
REPO = os.environ.get("MYSYNC_REPO", "/repo")
ENV = dict(os.environ, GOFLAGS="-mod=mod", GOPROXY="off", GOWORK="off")
for k in ("GOTOOLCHAIN", "GOSUMDB"):
    ENV.pop(k, None)
ALL = [json.loads(l)["id"] for l in open(os.path.join(VERIF, "properties.jsonl"))]
NOTES = json.load(open(os.path.join(VERIF, "tools/seed_notes.json")))


def sh(cmd, cwd=None, env=None, timeout=900):
    return subprocess.run(cmd, shell=True, cwd=cwd, env=env or ENV, capture_output=True, text=True, errors="replace", timeout=timeout)


def run(copy, vdir, seed, allprops):
    d = os.path.join(VERIF, "seeded", seed)
    meta = json.load(open(os.path.join(d, "meta.json")))
    patch = os.path.join(d, "patch.diff")
    r = sh(f"patch -p1 --no-backup-if-mismatch -s < {patch}", cwd=copy)
    try:
        if r.returncode != 0:
            return seed, "patch does not apply to the current tree: " + r.stdout[-200:]
        b = sh("go build ./...", cwd=copy)
        if b.returncode != 0:
            return seed, "does not compile on the current tree"
        props = ALL if allprops else sorted(set([meta["property"]] + meta.get("caught_by_properties", [])))
        fired = {}
        caught = []
        for pr in props:
            rr = sh(f"timeout 600 {VERIF}/bin/mysyncsa check {pr}", env=dict(ENV, MYSYNC_REPO=copy, VERIF_DIR=vdir))
            f = sorted(set(re.findall(r"^(?:VIOLATION|UNDECIDED|ANCHOR-UNRESOLVED|VACUOUS) (C\d+\.\S+)", rr.stdout, re.M)))
            if rr.returncode == 2:
                return seed, f"ANALYSIS-BROKEN on {pr}: " + rr.stdout[-300:]
            if rr.returncode == 1:
                caught.append(pr)
                fired[pr] = f
        meta["caught_by_properties"] = caught
        meta["fired_rules"] = fired
        meta["expected"] = "caught" if caught else "missed"
        n = NOTES.get(seed)
        if n:
            meta["summary"] = n["summary"]
            meta["needs_to_manifest"] = n["needs"]
            if n.get("history"):
                meta["status_note"] = n["history"]
        json.dump(meta, open(os.path.join(d, "meta.json"), "w"), indent=1, ensure_ascii=False)
        return seed, ("caught by " + ", ".join(f"{p}:{'/'.join(r.split('.')[1] for r in fired[p])}" for p in caught)) if caught else "MISSED"
    finally:
        sh(f"patch -R -p1 --no-backup-if-mismatch -s < {patch}", cwd=copy)


def main():
    args = [a for a in sys.argv[1:] if not a.startswith("--")]
    allprops = "--all-props" in sys.argv
    seeds = args or sorted(os.path.basename(d.rstrip("/")) for d in glob.glob(os.path.join(VERIF, "seeded/*/")) if os.path.exists(os.path.join(d, "meta.json")))
    workers = max(1, min(int(os.environ.get("AUDIT_WORKERS", "6")), len(seeds)))
    copies, vdirs = [], []
    try:
        for i in range(workers):
            c = tempfile.mkdtemp(prefix="mysyncsa-seeds-")
            sh(f"rsync -a --exclude .git {REPO}/ {c}/")
            v = tempfile.mkdtemp(prefix="mysyncsa-seeds-verif-")
            shutil.copy(os.path.join(VERIF, "known_findings.json"), v)
            copies.append(c)
            vdirs.append(v)
        sh("go build ./...", cwd=copies[0])
        chunks = [seeds[i::workers] for i in range(workers)]

        def work(i):
            return [run(copies[i], vdirs[i], s, allprops) for s in chunks[i]]

        out = []
        with ThreadPoolExecutor(max_workers=workers) as ex:
            for o in ex.map(work, range(workers)):
                out.extend(o)
        for s, r in sorted(out):
            print(f"{s:8} {r}")
    finally:
        for c in copies + vdirs:
            shutil.rmtree(c, ignore_errors=True)


if __name__ == "__main__":
    main()
