#!/usr/bin/env python3
"""Runs every check against behaviour-preserving edits (refactorings) and reports the checks that fire.

usage: eval_refactors.py --import <dir-with-k/patch.diff,README.md> <prefix>   store them as /verif/refactors/<prefix>-k
       eval_refactors.py [name ...]                                             (re)run all / the named ones

For each stored refactoring: the patch is applied to a scratch copy of /repo's working tree (removed afterwards), the copy is
built, vetted and the existing tests are run (an edit that does not pass them is not a valid refactoring and is marked so),
then all twenty quick checks run against the copy. A firing check is a FALSE ALARM candidate and is listed with its rules.
Results go to refactors/<name>/meta.json; refactors/SUMMARY.md is regenerated."""
import glob, json, os, re, shutil, subprocess, sys, tempfile
from concurrent.futures import ThreadPoolExecutor

VERIF = os.path.dirname(os.path.dirname(os.path.abspath(__file__)))
REPO = os.environ.get("MYSYNC_REPO", "/repo")
ENV = dict(os.environ, GOFLAGS="-mod=mod", GOPROXY="off", GOWORK="off")
for k in ("GOTOOLCHAIN", "GOSUMDB"):
    ENV.pop(k, None)
ALL = [json.loads(l)["id"] for l in open(os.path.join(VERIF, "properties.jsonl"))]
RDIR = os.path.join(VERIF, "refactors")


def sh(cmd, cwd=None, env=None, timeout=1800):
    return subprocess.run(cmd, shell=True, cwd=cwd, env=env or ENV, capture_output=True, text=True, errors="replace", timeout=timeout)


def run(copy, vdir, name, skip_tests=False):
    d = os.path.join(RDIR, name)
    patch = os.path.join(d, "patch.diff")
    mp = os.path.join(d, "meta.json")
    meta = json.load(open(mp)) if os.path.exists(mp) else {}
    r = sh(f"patch -p1 --no-backup-if-mismatch -s < {patch}", cwd=copy)
    try:
        if r.returncode != 0:
            meta.update(valid=False, verdict="patch does not apply to the current tree")
            return name, meta["verdict"]
        b = sh("go build ./... && go vet ./internal/... ./cmd/...", cwd=copy)
        if b.returncode != 0:
            meta.update(valid=False, verdict="does not build / vet")
            return name, meta["verdict"]
        if not skip_tests:
            t = sh("go test -vet=off -count=1 ./internal/... ./cmd/...", cwd=copy)
            if t.returncode != 0:
                meta.update(valid=False, verdict="existing tests fail")
                return name, meta["verdict"]
        fired = {}
        for pr in ALL:
            rr = sh(f"timeout 600 {VERIF}/bin/mysyncsa check {pr}", env=dict(ENV, MYSYNC_REPO=copy, VERIF_DIR=vdir))
            if rr.returncode != 0:
                rules = sorted(set(re.findall(r"^(?:VIOLATION|UNDECIDED|ANCHOR-UNRESOLVED|VACUOUS) (C\d+\.\S+)", rr.stdout, re.M)))
                if rr.returncode == 2:
                    rules.append("ANALYSIS-BROKEN")
                fired[pr] = rules
        meta.update(valid=True, fired=fired, verdict="silent" if not fired else "FIRED")
        return name, meta["verdict"] + ("" if not fired else " " + "; ".join(f"{p}:{'/'.join(x.split('.',1)[-1] for x in r)}" for p, r in fired.items()))
    finally:
        json.dump(meta, open(mp, "w"), indent=1, ensure_ascii=False)
        sh(f"patch -R -p1 --no-backup-if-mismatch -s < {patch}", cwd=copy)
        sh("git checkout -- . 2>/dev/null; true", cwd=copy)


def summary():
    rows = []
    for d in sorted(glob.glob(os.path.join(RDIR, "*/"))):
        mp = os.path.join(d, "meta.json")
        if not os.path.exists(mp):
            continue
        m = json.load(open(mp))
        rows.append((os.path.basename(d.rstrip("/")), m.get("kind", ""), m.get("verdict", "?"), m.get("triage", ""), "; ".join(f"{p}: {', '.join(r)}" for p, r in m.get("fired", {}).items())))
    valid = [r for r in rows if not r[2].startswith(("patch does not", "does not build", "existing tests"))]
    silent = [r for r in valid if r[2] == "silent"]
    s = f"# Behaviour-preserving edits (false-alarm corpus)\n\n{len(rows)} edits, {len(valid)} valid on the current tree, {len(silent)} leave all twenty checks silent, {len(valid)-len(silent)} make a check fire (triaged below).\n\n"
    s += "| edit | kind | verdict | triage | rules |\n|---|---|---|---|---|\n" + "".join(f"| {a} | {b} | {c} | {d} | {e} |\n" for a, b, c, d, e in rows)
    open(os.path.join(RDIR, "SUMMARY.md"), "w").write(s)
    print(s.split("\n")[2])


def main():
    os.makedirs(RDIR, exist_ok=True)
    if len(sys.argv) > 1 and sys.argv[1] == "--import":
        src, prefix = sys.argv[2], sys.argv[3]
        names = []
        for k in sorted(os.listdir(src)):
            p = os.path.join(src, k, "patch.diff")
            if not os.path.exists(p):
                continue
            dst = os.path.join(RDIR, f"{prefix}-{k}")
            os.makedirs(dst, exist_ok=True)
            shutil.copy(p, dst)
            if os.path.exists(os.path.join(src, k, "README.md")):
                shutil.copy(os.path.join(src, k, "README.md"), dst)
            mp = os.path.join(dst, "meta.json")
            if not os.path.exists(mp):
                json.dump({"property_context": prefix.split("-")[0], "source": "independent sub-agent given only the property text and a scratch worktree, asked for behaviour-preserving edits"}, open(mp, "w"), indent=1)
            names.append(f"{prefix}-{k}")
        print("imported", names)
        return
    skip = "--skip-tests" in sys.argv
    names = [a for a in sys.argv[1:] if not a.startswith("--")] or sorted(os.path.basename(d.rstrip("/")) for d in glob.glob(os.path.join(RDIR, "*/")) if os.path.exists(os.path.join(d, "patch.diff")))
    names = [n for n in names if os.path.exists(os.path.join(RDIR, n, "patch.diff"))]
    workers = max(1, min(int(os.environ.get("AUDIT_WORKERS", "8")), len(names)))
    copies, vdirs = [], []
    try:
        for i in range(workers):
            c = tempfile.mkdtemp(prefix="mysyncsa-refac-")
            sh(f"rsync -a --exclude .git {REPO}/ {c}/")
            v = tempfile.mkdtemp(prefix="mysyncsa-refac-verif-")
            shutil.copy(os.path.join(VERIF, "known_findings.json"), v)
            copies.append(c)
            vdirs.append(v)
        chunks = [names[i::workers] for i in range(workers)]

        def work(i):
            return [run(copies[i], vdirs[i], n, skip) for n in chunks[i]]

        out = []
        with ThreadPoolExecutor(max_workers=workers) as ex:
            for o in ex.map(work, range(workers)):
                out.extend(o)
        for n, r in sorted(out):
            print(f"{n:12} {r}")
    finally:
        for c in copies + vdirs:
            shutil.rmtree(c, ignore_errors=True)
    summary()


if __name__ == "__main__":
    main()
