#!/usr/bin/env python3
"""Writes /verif/seeded/SUMMARY.md from seeded/*/meta.json and refreshes the table between the
SEED-TABLE markers of DESIGN.md section 11 (which checks catch which independently seeded changes)."""
import glob, json, os, re

VERIF = os.path.dirname(os.path.dirname(os.path.abspath(__file__)))
rows = []
for d in sorted(glob.glob(os.path.join(VERIF, "seeded/*/"))):
    mp = os.path.join(d, "meta.json")
    if not os.path.exists(mp):
        continue
    m = json.load(open(mp))
    name = os.path.basename(d.rstrip("/"))
    fired = m.get("fired_rules", {})
    own = fired.get(m["property"], [])
    others = {p: r for p, r in fired.items() if p != m["property"]}
    rules = ", ".join(own[:4]) + (" …" if len(own) > 4 else "")
    if others:
        rules += ("; " if rules else "") + "also " + ", ".join(f"{p} ({len(r)})" for p, r in sorted(others.items()))
    status = m.get("expected", "?")
    if m.get("status_note"):
        status += " — " + m["status_note"]
    rows.append((name, m["property"], (m.get("summary", "") + " — needs: " + m.get("needs_to_manifest", ""))[:330].replace("|", "/").replace("\n", " "), status, rules or "—"))

hdr = "| seed | property | change (what it needs to manifest) | verdict of the checks | rules that fired |\n|---|---|---|---|---|\n"
table = hdr + "".join(f"| {a} | {b} | {c} | {d} | {e} |\n" for a, b, c, d, e in rows)
caught = sum(1 for r in rows if r[3].startswith("caught"))
summary = f"{len(rows)} confirmed seeded changes, {caught} caught by at least one quick check, {len(rows) - caught} not caught (each explained in DESIGN.md section 11).\n\n"
open(os.path.join(VERIF, "seeded/SUMMARY.md"), "w").write("# Independently seeded changes\n\n" + summary + table)
dp = os.path.join(VERIF, "DESIGN.md")
s = open(dp).read()
block = "<!-- SEED-TABLE -->\n" + summary + table + "<!-- /SEED-TABLE -->"
if "<!-- /SEED-TABLE -->" in s:
    s = re.sub(r"<!-- SEED-TABLE -->.*?<!-- /SEED-TABLE -->", lambda _: block, s, flags=re.S)
else:
    s = s.replace("<!-- SEED-TABLE -->", block)
open(dp, "w").write(s)
print(summary.strip())
