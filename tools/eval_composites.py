#!/usr/bin/env python3
"""Detection THROUGH normalisation: a behaviour-preserving edit from refactors/ plus one property-breaking change inside
the code that the edit moved / renamed / reshaped. The owning property's check must fire on each (it analyses the
normalised program, so this is the test that normalisation hides nothing).

usage: eval_composites.py [name ...]    specs: refactors/composites.json   report: refactors/COMPOSITES.md"""
import json, os, re, shutil, subprocess, sys, tempfile
from concurrent.futures import ThreadPoolExecutor

VERIF = os.path.dirname(os.path.dirname(os.path.abspath(__file__)))
REPO = os.environ.get("MYSYNC_REPO", "/repo")
ENV = dict(os.environ, GOFLAGS="-mod=mod", GOPROXY="off", GOWORK="off")
for k in ("GOTOOLCHAIN", "GOSUMDB"):
    ENV.pop(k, None)


def sh(cmd, cwd=None, env=None, timeout=1800):
    return subprocess.run(cmd, shell=True, cwd=cwd, env=env or ENV, capture_output=True, text=True, errors="replace", timeout=timeout)


def run(spec):
    copy = tempfile.mkdtemp(prefix="mysyncsa-comp-")
    vdir = tempfile.mkdtemp(prefix="mysyncsa-comp-verif-")
    try:
        sh(f"rsync -a --exclude .git {REPO}/ {copy}/")
        shutil.copy(os.path.join(VERIF, "known_findings.json"), vdir)
        r = sh(f"patch -p1 --no-backup-if-mismatch -s < {VERIF}/refactors/{spec['base']}/patch.diff", cwd=copy)
        if r.returncode != 0:
            return spec, "base patch does not apply", []
        fp = os.path.join(copy, spec["file"])
        src = open(fp).read()
        if src.count(spec["old"]) != 1:
            return spec, f"site matches {src.count(spec['old'])} times", []
        open(fp, "w").write(src.replace(spec["old"], spec["new"]))
        b = sh("go build ./... && go vet ./internal/... ./cmd/...", cwd=copy)
        if b.returncode != 0:
            return spec, "does not build/vet: " + (b.stderr or b.stdout)[-300:], []
        t = sh("go test -vet=off -count=1 ./internal/... ./cmd/...", cwd=copy)
        tests = "tests pass" if t.returncode == 0 else "TESTS FAIL (not a valid seed)"
        rr = sh(f"timeout 600 {VERIF}/bin/mysyncsa check {spec['expect']}", env=dict(ENV, MYSYNC_REPO=copy, VERIF_DIR=vdir))
        rules = sorted(set(re.findall(r"^(?:VIOLATION|UNDECIDED|ANCHOR-UNRESOLVED|VACUOUS) (C\d+\.\S+)", rr.stdout, re.M)))
        verdict = "caught" if rr.returncode == 1 and rules else ("ANALYSIS-BROKEN" if rr.returncode == 2 else "MISSED")
        return spec, f"{verdict}; {tests}", rules
    finally:
        shutil.rmtree(copy, ignore_errors=True)
        shutil.rmtree(vdir, ignore_errors=True)


def main():
    specs = json.load(open(os.path.join(VERIF, "refactors", "composites.json")))
    want = [a for a in sys.argv[1:] if not a.startswith("--")]
    if want:
        specs = [s for s in specs if s["name"] in want]
    with ThreadPoolExecutor(max_workers=int(os.environ.get("AUDIT_WORKERS", "6"))) as ex:
        out = list(ex.map(run, specs))
    rows = []
    for s, v, rules in out:
        print(f"{s['name']:34} {v:40} {', '.join(rules)}")
        rows.append(f"| {s['name']} | {s['base']} | {s['what']} | {s['expect']} | {v} | {', '.join(rules)} |\n")
    if not want:
        caught = sum(1 for _, v, _ in out if v.startswith("caught"))
        txt = f"# Property-breaking changes inside refactored code\n\n{len(out)} composites (behaviour-preserving edit + one breaking change in the moved/renamed/reshaped code), {caught} caught by the owning property's check.\n\n| composite | edit | breaking change | property | verdict | rules |\n|---|---|---|---|---|---|\n" + "".join(rows)
        open(os.path.join(VERIF, "refactors", "COMPOSITES.md"), "w").write(txt)


if __name__ == "__main__":
    main()
