#!/usr/bin/env python3
"""Regenerates /verif/MANIFEST.json from the checker's registry (mysyncsa list)."""
import json, subprocess
rows = json.loads(subprocess.run(["/verif/bin/mysyncsa", "list"], capture_output=True, text=True, check=True).stdout)
props = [json.loads(l) for l in open("/verif/properties.jsonl")]
claimed = {r["ID"]: r for r in rows}
techniques = json.load(open("/verif/tools/techniques.json"))
checks = []
for p in props:
    r = claimed.get(p["id"])
    if not r:
        continue
    checks.append({
        "property_id": p["id"],
        "quick_cmd": f"./check.sh {p['id']} quick",
        "thorough_cmd": f"./check.sh {p['id']} thorough",
        "evidence_file": f"/verif/evidence/{p['id']}.json",
        "replay_cmd_template": "cat {path}",
        "engine": "mysyncsa",
        "level_claimed": {
            "category": r["Level"],
            "text": r["Explanation"],
            "design_ref": f"DESIGN.md section 4, {p['id']}",
        },
        "level_note": "Static analysis only (no execution, no solver). Decides structural necessary conditions on every CFG path / call chain of the current tree; NOT decided: " + r["NotDecided"] + ". Trusted base: go/packages, go/types, go/ssa, VTA call graph (x/tools v0.50.0), the checker itself; assumptions A1-A6 of DESIGN.md section 3 (dev_mode off, default query table, stable registry within one iteration, no reflect/unsafe).",
        "technique": techniques.get(p["id"], "static analysis: CFG gate/ordering rules and effect containment over go/ssa")
        + "; analysed on the source normalised by overlay (pure renames undone, functions absent from the pinned tree inlined back, equivalent spellings of comparisons saturated) — nothing is executed",
    })
na = [{"property_id": p["id"], "reason": "checker under construction: no rule implemented yet (see DESIGN.md section 4 for the planned static rules)"} for p in props if p["id"] not in claimed]
m = {
    "version": 1,
    "setup_cmd": "./setup.sh",
    "hooks": {
        "guard": "verif",
        "enable": "no hooks: the checker analyses /repo's sources in place (go/packages + go/ssa); nothing is built with a tag and no hook commit exists",
        "baseline_off_cmd": "cd /repo && GOFLAGS=-mod=mod GOPROXY=off go test -vet=off -count=1 ./...",
        "source_commits": [],
        "add_only": True,
    },
    "engines": [{"name": "mysyncsa", "path": "/verif/checker", "serves_properties": sorted(claimed), "kind_free_text": "repository-specific static analyser over go/packages + go/ssa + VTA call graph: CFG gate/ordering rules with correlated-branch pruning, context-sensitive effect summaries (SQL by query class, coordination writes by key, files), provenance and table-agreement rules"}],
    "checks": checks,
    "not_applicable": na,
    "notes": "Static analysis only; every check re-loads /repo's working tree. Exit 0 pass (KNOWN-FINDING lines for listed findings), 1 VIOLATION, 2 ANALYSIS-BROKEN. See DESIGN.md.",
}
json.dump(m, open("/verif/MANIFEST.json", "w"), indent=1)
print(f"{len(checks)} checks, {len(na)} not claimed")
