#!/usr/bin/env python3
"""Self-test helper: apply one textual mutation to a scratch worktree of /repo, make sure it still
builds, run one or more property checks against it and print which rules fired.
usage: mut.py <props,comma> <relative file> <old> <new> [count]
The scratch worktree lives in /tmp/mysync-mut and is reset before each use."""
import subprocess, sys, os, json, re
SCR = "/tmp/mysync-mut"
ENV = dict(os.environ, GOFLAGS="-mod=mod", GOPROXY="off", GOWORK="off")
def sh(cmd, **kw):
    return subprocess.run(cmd, shell=True, capture_output=True, text=True, env=ENV, **kw)
def ensure():
    if not os.path.isdir(SCR):
        r = sh(f"git -C /repo worktree add --detach {SCR} HEAD")
        if r.returncode != 0:
            print(r.stderr); sys.exit(2)
    head = sh("git -C /repo rev-parse HEAD").stdout.strip()
    sh(f"git -C {SCR} checkout -q -- . && git -C {SCR} clean -fdq && git -C {SCR} checkout -q --detach {head}")
def main():
    props, rel, old, new = sys.argv[1:5]
    count = int(sys.argv[5]) if len(sys.argv) > 5 else 1
    ensure()
    path = os.path.join(SCR, rel)
    s = open(path).read()
    n = s.count(old)
    if n < count or n == 0:
        print(f"MUT-ERROR: pattern occurs {n} times in {rel}"); sys.exit(2)
    if n != count and count == 1:
        print(f"MUT-ERROR: pattern occurs {n} times (expected 1) in {rel}"); sys.exit(2)
    # replace the count-th occurrence only when count>1
    if count > 1:
        idx = -1
        for _ in range(count):
            idx = s.find(old, idx + 1)
        s = s[:idx] + new + s[idx + len(old):]
    else:
        s = s.replace(old, new)
    open(path, "w").write(s)
    b = sh("go build ./... && go vet ./internal/... ", cwd=SCR)
    if b.returncode != 0:
        print("MUT-ERROR: mutant does not build/vet:", b.stderr[-600:]); sys.exit(2)
    if os.environ.get("MUT_TEST"):
        t = sh("go test -vet=off -count=1 ./internal/... 2>&1 | tail -15", cwd=SCR)
        print("tests:", "ok" if "FAIL" not in t.stdout else "FAIL\n" + t.stdout)
    os.makedirs("/tmp/mysync-mut-verif", exist_ok=True)  # scratch VERIF_DIR: evidence of mutant runs must not land in /verif
    import shutil; shutil.copy("/verif/known_findings.json", "/tmp/mysync-mut-verif/")
    for prop in props.split(","):
        r = subprocess.run(["timeout", "300", "/verif/bin/mysyncsa", "check", prop], capture_output=True, text=True, errors="replace",
                           env=dict(ENV, MYSYNC_REPO=SCR, VERIF_DIR="/tmp/mysync-mut-verif"))
        fired = sorted(set(re.findall(r"^(?:VIOLATION|UNDECIDED|ANCHOR-UNRESOLVED|VACUOUS) (\S+)", r.stdout, re.M)))
        print(f"{prop}: exit={r.returncode} fired={fired}")
        if r.returncode == 2:
            print(r.stdout[-800:])
        if os.environ.get("MUT_V"):
            print(r.stdout)
    sh(f"git -C {SCR} checkout -q -- .")
main()
